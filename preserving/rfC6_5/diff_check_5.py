"""Differential check for refactor5.diff (rise.compute_rise_offsets:
the on-grid test of the reference level and the reference index)

Three parts:
 1. rise step on the sample data with on-grid, nearly-on-grid and
    off-grid references, several zeta steps (both trees, compared);
 2. rise step on small hand-made databases with thousands of
    references around the tolerance boundary, of several numeric
    types, and bad ones (both trees, compared);
 3. in the refactored tree only: the new helper against a literal copy
    of the original expressions (np.isclose), on random and special
    (reference, step) pairs that do not need a database.

Run as:  cd /tmp/rf_C && /venv/bin/python diff_check_5.py

"""

import decimal
import math
import os
import sys
import warnings

sys.path.insert(0, os.path.dirname(os.path.abspath(__file__)))
import dc_common as dc  # noqa: E402
import diff_check_1 as check_1  # noqa: E402  (run_rise, handmade)

TABLES = ['rising_interval', 'rising_interval_zeta']


def original_reference_index(reference_zeta_mm, delta_z_mm, np):
    """Literal copy of the original code (reference is not None)"""
    reference_zeta_off_grid = (
        reference_zeta_mm is not None
        and not np.isclose(
            round(reference_zeta_mm / delta_z_mm) * delta_z_mm,
            reference_zeta_mm,
        )
    )
    if reference_zeta_off_grid:
        raise ValueError(
            'Reference zeta {} mm not evenly divisible by '
            'zeta step {} mm'.format(reference_zeta_mm, delta_z_mm)
        )
    return int(round(reference_zeta_mm / delta_z_mm))


def boundary_references(random, step, count):
    """References on, near and across the tolerance boundary"""
    references = []
    for _ in range(count):
        magnitude = random.choice([1e1, 1e2, 1e3, 1e4, 1e5, 1e6, 1e8, 1e11])
        number = int(random.uniform(-magnitude, magnitude) / step)
        on_grid = number * step
        tolerance = 1e-8 + 1e-5 * abs(on_grid)
        kind = random.randint(0, 8)
        if kind == 0:
            delta = 0.0
        elif kind == 1:
            delta = random.choice([-1, 1]) * tolerance
        elif kind == 2:
            delta = random.choice([-1, 1]) * tolerance * (
                1 + random.uniform(-1e-9, 1e-9)
            )
        elif kind == 3:
            delta = random.choice([-1, 1]) * tolerance * (
                1 + random.uniform(-1e-3, 1e-3)
            )
        elif kind == 4:
            delta = random.uniform(-0.5, 0.5) * step
        elif kind == 5:
            delta = random.choice([-1, 1]) * 0.5 * step * (
                1 + random.uniform(-1e-12, 1e-12)
            )
        elif kind == 6:
            delta = random.choice([-1, 1]) * 10.0 ** random.uniform(-12, -6)
        else:
            delta = random.choice([-1e-8, 1e-8, -1e-9, 1e-9, 1.0000001e-8])
        reference = on_grid + delta
        if kind == 2:
            # A few units in the last place either way
            for _ in range(random.randint(0, 4)):
                reference = math.nextafter(
                    reference, random.choice([-math.inf, math.inf])
                )
        references.append(reference)
    return references


def scenarios(tree):
    import numpy as np

    import spowtd.rise as rise_mod

    warnings.simplefilter('ignore')
    results = {}

    # Part 1: sample data
    for sample in (1, 2):
        for grid in (1.0, 0.5, 2.5, 0.3):
            connection = dc.gridded(tree, sample, grid)
            key = 'sample{}-grid{}'.format(sample, grid)
            results[key + '-noref'] = check_1.run_rise(connection, None)
            numbers = [
                row[0]
                for row in connection.execute(
                    """SELECT DISTINCT zeta_number
                       FROM rising_interval_zeta ORDER BY 1"""
                )
            ]
            connection.close()
            picks = [
                numbers[0] - 1,
                numbers[0],
                numbers[len(numbers) // 3],
                numbers[len(numbers) // 2],
                numbers[-1],
                numbers[-1] + 1,
                0,
            ]
            for number in picks:
                tolerance = 1e-8 + 1e-5 * abs(number * grid)
                for delta in (
                    0.0,
                    1e-9,
                    -1e-7,
                    0.999 * tolerance,
                    -1.001 * tolerance,
                    0.3 * grid,
                    -0.5 * grid,
                ):
                    reference = number * grid + delta
                    connection = dc.gridded(tree, sample, grid)
                    results[
                        '{}-ref{!r}'.format(key, reference)
                    ] = check_1.run_rise(connection, reference)
                    connection.close()
            # Integer reference, through the cursor-level function
            connection = dc.gridded(tree, sample, grid)
            results[key + '-int-direct'] = check_1.run_rise(
                connection, int(numbers[len(numbers) // 2] * grid), direct=True
            )
            connection.close()

    # Part 2: hand-made databases
    rising = [0.0, 0.1, 0.2, 4.2, 9.9, 10.0, 10.1, 3.0, 3.1, 8.7, 14.2, 14.0]
    storms = [(2, 4, 2, 4, 12.0), (8, 10, 8, 10, 9.0)]
    random = np.random.RandomState(5)
    random_py = __import__('random').Random(5)
    for step in (1.0, 0.5, 0.1, 0.3, 2.5, 1.0 / 3.0, 7.0):
        template = check_1.handmade(tree, rising, storms, step)
        data = template.serialize()
        template.close()
        references = boundary_references(random_py, step, 400)
        # In the range of the data, where the run succeeds
        references += [
            float(value)
            for value in random.uniform(0.0, 15.0, 40)
        ]
        references += [
            number * step + delta
            for number in range(int(15 / step) + 2)
            for delta in (0.0, 1e-9, -1.0001e-8 - 1e-5 * number * step)
        ][:120]
        references += [
            0,
            0.0,
            -0.0,
            7,
            True,
            np.float64(7.0),
            np.float64(7.0000001),
            np.float32(7.0),
            np.float32(7.1),
            np.int64(7),
            np.int32(-3),
            np.array(7.0),
            np.array([7.0]),
            np.array([7.0, 8.0]),
            decimal.Decimal('7.0'),
            '7.0',
            [7.0],
            float('inf'),
            float('-inf'),
            float('nan'),
            1e308,
            -1.7e308,
            5e-324,
            1e-300,
            2.0 ** 53 + 2,
            10 ** 30,
            10 ** 400,
            7 + 0j,
        ]
        for i, reference in enumerate(references):
            connection = dc.open_db(data)
            results[
                'handmade-step{!r}-{}-{!r}'.format(step, i, reference)
            ] = check_1.run_rise(connection, reference)
            connection.close()

    # Part 3: the new helper against the original expressions
    if hasattr(rise_mod, 'get_grid_index'):
        compared = 0
        pairs = []
        steps = [1.0, 0.5, 0.1, 0.3, 2.5, 1.0 / 3.0, 7.0, 1e-3, 1e3, 1e-9,
                 -1.0, -0.25, 1e300, 1e-300, 5e-324, 0.0, -0.0,
                 float('inf'), float('-inf'), float('nan'), 3, np.float64(0.5)]
        for step in steps:
            if isinstance(step, float) and 1e-9 <= step <= 1e3:
                usable = [
                    reference
                    for reference in boundary_references(
                        random_py, step, 20000
                    )
                ]
            else:
                usable = []
            usable += [
                0, 0.0, -0.0, 7, -7, 7.5, True, np.float64(7.0),
                np.float32(7.1), np.int64(7), float('inf'), float('-inf'),
                float('nan'), 1e308, -1.7e308, 5e-324, 1e-300, 2.0 ** 53 + 2,
                10 ** 30, 10 ** 400, '7.0', None, np.array([7.0]),
                np.array([7.0, 8.0]), np.array([7.2]), 7 + 0j,
                decimal.Decimal('7.0'), np.array(7.0),
            ]
            pairs += [(reference, step) for reference in usable]
        pairs += [
            (float(reference), float(step))
            for reference, step in zip(
                random.standard_cauchy(200000) * 100,
                10.0 ** random.uniform(-3, 3, 200000),
            )
        ]
        for reference, step in pairs:
            if reference is None:
                continue
            expected = dc.outcome(
                original_reference_index, reference, step, np
            )
            actual = dc.outcome(rise_mod.get_grid_index, reference, step)
            assert expected == actual, (reference, step, expected, actual)
            compared += 1
        sys.stderr.write(
            'helper compared with the original expressions on '
            '{} (reference, step) pairs\n'.format(compared)
        )
    return results


if __name__ == '__main__':
    if len(sys.argv) > 1 and sys.argv[1] == '--child':
        dc.child_main(scenarios)
    else:
        dc.run_driver(
            os.path.abspath(__file__), 'refactor5.diff', 'spowtd/rise.py'
        )
