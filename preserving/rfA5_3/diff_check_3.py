"""Differential check for refactor3.diff (match_all_storms)"""
import diff_common as dc

orig, new, orig_root, new_root = dc.load_versions(3)

counts = dc.check_databases(orig, new, orig_root)
print("classify_intervals on sample + synthetic databases:", counts)
assert counts["ok"] >= 40 and counts["exc"] >= 6, counts

INTERVALS = (
    "SELECT DISTINCT data_interval FROM grid_time "
    "WHERE data_interval IS NOT NULL ORDER BY 1"
)


def direct(mod, make, thresholds, extra_intervals=(), repeat=False, fake=None):
    """match_all_storms on every data interval of a fresh database"""
    conn = make()
    cursor = conn.cursor()
    intervals = list(extra_intervals) + [r[0] for r in conn.execute(INTERVALS)]
    if repeat:
        # the second pass finds every storm already present
        intervals = intervals + intervals
    saved = mod.match_storms
    if fake is not None:
        mod.match_storms = fake
    try:
        outs = [
            dc.run_captured(mod.match_all_storms, cursor, data_interval, *thresholds)
            for data_interval in intervals
        ]
    finally:
        mod.match_storms = saved
    state = (outs, dc.dump_db(conn), conn.in_transaction)
    conn.close()
    return state


def both(label, make, thresholds, **kwargs):
    a, b = (direct(mod, make, thresholds, **kwargs) for mod in (orig, new))
    for x, y in zip(a[0], b[0]):
        dc.compare(label, x, y)
    assert a[1:] == b[1:], (label, thresholds, kwargs)
    return a


def not_raining(rain, head, rain_threshold, jump_threshold):
    """A 'storm' that covers every time step, raining or not"""
    return [(0, len(rain))], [(0, 2)]


def not_rising(rain, head, rain_threshold, jump_threshold):
    """No storm, but a bogus pair of unequal length is tolerated by neither"""
    return [], []


def out_of_range(rain, head, rain_threshold, jump_threshold):
    import numpy as np
    i = int(np.argmax(rain > rain_threshold))
    return [(i, i + 1)], [(len(head) + 3, len(head) + 5)]


n = n_seen = n_fake = 0
for label, make, kwargs in dc.db_cases(orig_root):
    thresholds = (
        kwargs.get("storm_rain_threshold_mm_h", 4.0),
        kwargs.get("rising_jump_threshold_mm_h", 8.0),
    )
    for thr in (thresholds, (0.5, 1.0), (1e9, 1e9), (2.0, -1.0)):
        both(label, make, thr)
        n += 1
    both(label, make, thresholds, extra_intervals=(None, -3, "x", 2.5))
    both(label, make, ("4", 8.0))
    both(label, make, (4.0, None))
    state = both(label, make, thresholds, repeat=True)
    n_seen += any(
        out[0][0] == "exc" and "matched with more than one rise" in out[0][2]
        for out in state[0]
    )
    for fake in (not_raining, not_rising, out_of_range):
        state = both(label, make, thresholds, fake=fake)
        n_fake += any(out[0][0] == "exc" for out in state[0])
print(
    "match_all_storms direct calls compared:", n,
    "| 'more than one rise' assertions reached:", n_seen,
    "| failures with a substituted match_storms:", n_fake,
)
assert n_seen >= 20 and n_fake >= 40
print("diff_check_3 OK")
