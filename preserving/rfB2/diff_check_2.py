"""Differential check for refactor2.diff (spowtd/load.py:
populate_water_level restructured: interval starts/ends as two lists,
minimum step hoisted, np.full).

Usage: cd /tmp/rf_B && /venv/bin/python diff_check_2.py
"""

import io
import os
import sqlite3

import numpy as np

import dc_common

SAMPLE_DIR = os.path.join(dc_common.ROOT, 'spowtd', 'test', 'sample_data')


def dump(connection):
    return list(connection.iterdump())


def run_populate(time_grid, zeta_rows, grid_rows=None, foreign_keys=True):
    """Call populate_water_level on hand-filled tables"""
    import spowtd.load as load_mod

    connection = sqlite3.connect(':memory:')
    if foreign_keys:
        connection.execute('PRAGMA foreign_keys = 1')
    cursor = connection.cursor()
    with open(load_mod.SCHEMA_PATH, 'rt') as schema_file:
        cursor.executescript(schema_file.read())
    if grid_rows is None:
        grid_rows = [int(epoch) for epoch in time_grid]
    cursor.executemany(
        'INSERT INTO grid_time (epoch) VALUES (?)',
        [(epoch,) for epoch in grid_rows],
    )
    cursor.executemany(
        'INSERT INTO water_level_staging VALUES (?, ?)', zeta_rows
    )
    result = dc_common.outcome(
        load_mod.populate_water_level, cursor, time_grid
    )
    return (result, dump(connection))


def run_load(precip, et, zeta, tz='Africa/Lagos'):
    import spowtd.load as load_mod

    connection = sqlite3.connect(':memory:')
    result = dc_common.outcome(
        load_mod.load_data,
        connection=connection,
        precipitation_data_file=io.StringIO(precip),
        evapotranspiration_data_file=io.StringIO(et),
        water_level_data_file=io.StringIO(zeta),
        time_zone_name=tz,
    )
    return (result, dump(connection))


def worker():
    results = {}
    sample_texts = {}
    for sample in (1, 2):
        texts = []
        for kind in ('precipitation', 'evapotranspiration', 'water_level'):
            path = os.path.join(SAMPLE_DIR, '{}_{}.txt'.format(kind, sample))
            with open(path, 'rt', encoding='utf-8-sig') as in_file:
                texts.append(in_file.read())
        sample_texts[sample] = texts
        results['sample{}'.format(sample)] = run_load(*texts)
    # Sample data with chunks of the water level record removed (gaps)
    for sample in (1, 2):
        precip, et, zeta = sample_texts[sample]
        lines = zeta.splitlines(keepends=True)
        n = len(lines)
        gappy = (
            lines[: n // 5]
            + lines[n // 5 + 40 : n // 2]
            + lines[n // 2 + 1 : n // 2 + 3]
            + lines[n // 2 + 300 : n - 17]
        )
        results['sample{}-gaps'.format(sample)] = run_load(
            precip, et, ''.join(gappy)
        )

    step = 3600
    grid = [1577836800 + step * i for i in range(25)]

    def zeta_at(epochs):
        return [
            (int(epoch), 100.0 + 0.37 * ((epoch // 60) % 97) - 1e-3 * k)
            for k, epoch in enumerate(epochs)
        ]

    half = [grid[0] - 1800 + 1800 * i for i in range(52)]
    results['no-gap-list'] = run_populate(grid, zeta_at(half))
    results['no-gap-array'] = run_populate(np.array(grid), zeta_at(half))
    results['no-gap-int32'] = run_populate(
        np.array(grid, dtype='int32'), zeta_at(half)
    )
    results['one-gap'] = run_populate(
        grid, zeta_at(half[:15] + half[22:])
    )
    results['three-gaps'] = run_populate(
        grid, zeta_at(half[:9] + half[12:20] + half[21:30] + half[44:])
    )
    results['gap-single-point-islands'] = run_populate(
        grid, zeta_at(half[:9] + half[12:13] + half[20:21] + half[30:])
    )
    results['gap-straddling-grid-start'] = run_populate(
        grid, zeta_at(half[:1] + half[6:])
    )
    results['gap-straddling-grid-end'] = run_populate(
        grid, zeta_at(half[:45] + half[51:])
    )
    results['gaps-outside-grid'] = run_populate(
        grid[5:15], zeta_at(half[:4] + half[8:40] + half[45:])
    )
    results['zeta-inside-grid-only'] = run_populate(
        grid, zeta_at(half[10:14] + half[20:30])
    )
    results['zeta-on-grid-exactly'] = run_populate(
        grid, zeta_at(grid[:8] + grid[11:])
    )
    results['irregular-steps'] = run_populate(
        grid,
        zeta_at(
            [grid[0], grid[0] + 600, grid[0] + 1200, grid[3], grid[3] + 600]
            + [grid[9] + 600 * i for i in range(100)]
        ),
    )
    results['unsorted-staging-insert'] = run_populate(
        grid, zeta_at((half[:15] + half[22:])[::-1])
    )
    results['two-points'] = run_populate(grid, zeta_at([grid[3], grid[20]]))
    results['grid-rows-missing'] = run_populate(
        grid, zeta_at(half[:15] + half[22:]), grid_rows=grid[::2]
    )
    results['grid-rows-missing-no-fk'] = run_populate(
        grid,
        zeta_at(half[:15] + half[22:]),
        grid_rows=grid[::2],
        foreign_keys=False,
    )
    results['grid-two-points'] = run_populate(grid[:2], zeta_at(half))
    results['grid-one-point'] = run_populate(grid[:1], zeta_at(half))
    results['grid-descending'] = run_populate(
        grid[::-1], zeta_at(half[:15] + half[22:])
    )
    # Error paths
    results['empty-zeta'] = run_populate(grid, [])
    results['one-zeta-point'] = run_populate(grid, zeta_at([grid[3]]))
    results['empty-grid'] = run_populate([], zeta_at(half))
    results['empty-int-grid'] = run_populate(
        np.array([], dtype='int64'), zeta_at(half)
    )
    results['float-grid'] = run_populate(
        [float(t) for t in grid], zeta_at(half), grid_rows=grid
    )
    results['2d-grid'] = run_populate(
        np.array([grid[:5], grid[5:10]]), zeta_at(half), grid_rows=grid
    )
    results['zeta-second-run'] = run_populate(
        grid, zeta_at(half), grid_rows=grid
    )
    return results


if __name__ == '__main__':
    dc_common.main(2, worker, __file__)
