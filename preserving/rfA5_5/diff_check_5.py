"""Differential check for refactor5.diff
(disambiguate_matching, find_stable_matching, get_true_interval_masks)"""
import copy

import numpy as np

import diff_common as dc

orig, new, orig_root, new_root = dc.load_versions(5)

counts = dc.check_databases(orig, new, orig_root, twice=False)
print("classify_intervals on sample + synthetic databases:", counts)
assert counts["ok"] >= 40 and counts["exc"] >= 6, counts


def both(label, name, make_args, post=lambda result: result):
    """Call the function of both versions on separately built arguments"""
    outs = []
    for mod in (orig, new):
        args = make_args()
        func = getattr(mod, name)
        out = dc.run_captured(lambda: post(func(*args)))
        # arguments are part of the observable state (lists are popped)
        outs.append((out, dc.canon(args)))
    (a, args_a), (b, args_b) = outs
    kind = dc.compare(label, a, b)
    assert args_a == args_b, (label, "arguments left in different states")
    return kind, a


# --- get_true_interval_masks
tally = {"ok": 0, "exc": 0}
vectors = {
    "empty": np.zeros(0, bool),
    "all-true": np.ones(7, bool),
    "all-false": np.zeros(7, bool),
    "one-true": np.array([True]),
    "one-false": np.array([False]),
    "ends": np.array([True, False, False, True]),
    "strided": (np.arange(40) % 3 == 0)[::2],
    "reversed": (np.arange(40) % 5 < 2)[::-1],
    "int": np.array([0, 1, 1, 0]),
    "float": np.array([0.0, 1.0]),
    "object": np.array([True, False], dtype=object),
    "list": [True, False],
    "two-d": np.ones((3, 3), bool),
    "zero-d": np.array(True),
    "np-bool-scalar": np.True_,
}
rng = np.random.default_rng(0)
for i in range(300):
    n = int(rng.integers(1, 200))
    vectors[f"random{i}"] = rng.random(n) < rng.random()
n_masks = 0
for label, vector in vectors.items():
    kind, a = both(label, "get_true_interval_masks", lambda vector=vector: (vector,), post=list)
    tally[kind] += 1
    if kind == "ok":
        n_masks += len(a[0][1])
print("get_true_interval_masks:", tally, "masks:", n_masks)
assert tally["exc"] >= 6 and n_masks > 3000

# --- find_stable_matching
tally = {"ok": 0, "exc": 0}
n_displaced = 0
for seed in range(2000):
    rng = np.random.default_rng(seed)
    n_storms = int(rng.integers(0, 9))
    n_jumps = int(rng.integers(1, 9))
    as_numpy = seed % 2 == 0
    conv = np.int64 if as_numpy else int
    storms = [conv(v) for v in rng.choice(200, size=n_storms, replace=False)]
    jumps = [conv(v) for v in rng.choice(200, size=n_jumps, replace=False)]
    candidates = {}
    preferences = {jump: {} for jump in jumps}
    for storm in storms:
        k = int(rng.integers(0, n_jumps + 1))
        chosen = [jumps[j] for j in rng.choice(n_jumps, size=k, replace=False)]
        candidates[storm] = chosen
        for jump in chosen:
            # few distinct values: ties are frequent
            preferences[jump][storm] = -conv(rng.integers(0, 4))
    if seed % 50 == 0 and storms and candidates[storms[0]]:
        # missing preference -> KeyError somewhere along the way
        preferences[candidates[storms[0]][-1]].pop(storms[0])
    if seed % 77 == 0 and storms and candidates[storms[0]]:
        # the same jump twice in a candidate list
        candidates[storms[0]].append(candidates[storms[0]][0])

    def make(candidates=candidates, preferences=preferences):
        return copy.deepcopy((candidates, preferences))

    kind, a = both(f"gs{seed}", "find_stable_matching", make)
    tally[kind] += 1
print("find_stable_matching:", tally)
assert tally["ok"] > 1900 and tally["exc"] >= 5

# --- disambiguate_matching
tally = {"ok": 0, "exc": 0}
n_many = 0
for seed in range(2000):
    rng = np.random.default_rng(seed)
    as_numpy = seed % 2 == 0
    conv = np.int64 if as_numpy else int
    n_storms = int(rng.integers(1, 8))
    n_jumps = int(rng.integers(1, 8))
    storm_starts = np.sort(rng.choice(300, size=n_storms, replace=False))
    jump_starts = np.sort(rng.choice(300, size=n_jumps, replace=False))
    storm_list = [(conv(s), conv(s + rng.integers(1, 6))) for s in storm_starts]
    jump_list = [(conv(s), conv(s + rng.integers(2, 7))) for s in jump_starts]
    n_pairs = int(rng.integers(0, 15))
    pairs = {
        (int(rng.integers(n_storms)), int(rng.integers(n_jumps))) for _ in range(n_pairs)
    }
    pairs = sorted(pairs, key=lambda p: (p[1], rng.random()))
    rain_intervals = [storm_list[i] for i, _ in pairs]
    jump_intervals = [jump_list[j] for _, j in pairs]
    if seed % 97 == 0 and pairs:
        # a repeated candidate pair
        rain_intervals.append(rain_intervals[0])
        jump_intervals.append(jump_intervals[0])
    n_many += len(pairs) > len({i for i, _ in pairs})

    def make(rain_intervals=rain_intervals, jump_intervals=jump_intervals):
        return copy.deepcopy((rain_intervals, jump_intervals))

    kind, a = both(f"dm{seed}", "disambiguate_matching", make)
    tally[kind] += 1
for label, args in {
    "empty": ([], []),
    "unequal": ([(0, 1)], []),
    "triple-rain": ([(0, 1, 2)], [(0, 2)]),
    "triple-jump": ([(0, 1)], [(0, 2, 3)]),
    "single-jump": ([(0, 1), (5, 6)], [(0, 2), (5,)]),
    "both-bad": ([(0, 1), (5,)], [(0, 2, 4), (5, 7)]),
    "strings": ([("a", "b")], [("c", "d")]),
    "none": ([(None, 1)], [(0, None)]),
    "unhashable": ([([0], 1)], [(0, 2)]),
    "floats": ([(0.0, 1.5), (0.0, 1.5)], [(0.5, 3.0), (2.0, 4.0)]),
    "tuples-not-lists": (((0, 1), (0, 1)), ((0, 2), (1, 3))),
}.items():
    kind, a = both(label, "disambiguate_matching", lambda args=args: copy.deepcopy(args))
    tally[kind] += 1
    print(f"  {label}: {a[0][1:] if kind == 'exc' else a[0][1]}")
print("disambiguate_matching:", tally, "many-to-many inputs:", n_many)
assert tally["ok"] > 1900 and tally["exc"] >= 6 and n_many > 1000

# --- match_storms end to end (uses all three functions)
n = 0
for seed in range(300):
    rng = np.random.default_rng(seed)
    size = int(rng.integers(2, 300))
    if seed % 2:
        rain = rng.choice([0.0, 10.0], size=size, p=[0.5, 0.5])
        head = np.cumsum(rng.choice([0.0, 10.0], size=size, p=[0.3, 0.7]))
    else:
        rain, head = dc.random_series(rng, size, p_storm=0.2, p_mystery=0.1)
    kind, a = both(f"ms{seed}", "match_storms", lambda: (rain, head, 2.0, 3.0))
    n += len(a[0][1][0]) if kind == "ok" else 0
print("match_storms end to end, matches:", n)
print("diff_check_5 OK")
