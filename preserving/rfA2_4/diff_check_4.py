"""Differential check for refactor4.diff (match_storms and its new helpers)"""
import random

import numpy as np

import diff_common as dc

orig, new = dc.load_variants(4)

print("match_storms on arrays:")
cases = []
stats = {"candidates": 0, "matches": 0, "ambiguous cases": 0}


def add(rain, head, rain_threshold, jump_threshold):
    cases.append(lambda: (rain.copy() if hasattr(rain, "copy") else rain,
                          head.copy() if hasattr(head, "copy") else head,
                          rain_threshold, jump_threshold))


for seed in range(60):
    rain, head, times, step = dc.synthetic_series(seed, n_steps=300, gap=False)
    rain = np.array(rain)
    head = np.array(head[:-1])  # as in match_all_storms: one head per rain value
    for thresholds in ((8.0, 2.5), (4.0, 1.0), (0.5, 0.1), (100.0, 2.5), (8.0, 1000.0)):
        add(rain, head, *thresholds)
    # How ambiguous are the candidates? (uses the new helpers; informational)
    is_raining = rain > 8.0
    rain_masks = list(new.get_true_interval_masks(is_raining))
    jump_masks = list(new.get_true_interval_masks(np.diff(head) > 2.5))
    labels = new.label_storm_time_steps(rain_masks, len(is_raining))
    expected_labels = np.zeros(len(is_raining), np.int64) - 1
    for i, mask in enumerate(rain_masks):
        expected_labels[mask] = i
    assert dc.canon(labels) == dc.canon(expected_labels)
    candidates = new.get_candidate_matches(head, 2.5, is_raining, rain_masks, jump_masks, labels)
    final = new.match_storms(rain, head, 8.0, 2.5)
    stats["candidates"] += len(candidates[0])
    stats["matches"] += len(final[0])
    stats["ambiguous cases"] += len(candidates[0]) != len(final[0])
print("  ", stats)
assert stats["ambiguous cases"] > 10

# Unstructured random series: lots of overlaps of every kind
for seed in range(200):
    rng = np.random.default_rng(seed)
    n = int(rng.integers(2, 80))
    rain = rng.choice([0.0, 0.0, 5.0, 10.0], size=n) * rng.random(n)
    head = np.cumsum(rng.choice([-1.0, 0.0, 3.0, 6.0], size=n) * rng.random(n))
    add(rain, head, 2.0, 1.0)
    add(rain, head, 0.0, 0.0)
# Integer-valued data (ties in durations and offsets are frequent)
for seed in range(100):
    rng = np.random.default_rng(1000 + seed)
    n = int(rng.integers(2, 60))
    add(rng.integers(0, 3, size=n), np.cumsum(rng.integers(-1, 3, size=n)), 0, 0)
    add(rng.integers(0, 3, size=n).astype(float), np.cumsum(rng.integers(-1, 3, size=n)).astype(float), 1, 1)
# Edge and bad inputs
add(np.array([]), np.array([]), 1.0, 1.0)
add(np.array([5.0]), np.array([1.0]), 1.0, 1.0)
add(np.array([5.0, 5.0]), np.array([1.0, 9.0]), 1.0, 1.0)
add(np.full(10, 5.0), np.arange(10.0) * 3, 1.0, 1.0)       # all raining, all rising
add(np.zeros(10), np.arange(10.0) * 3, 1.0, 1.0)           # rise without rain
add(np.full(10, 5.0), np.zeros(10), 1.0, 1.0)              # rain without rise
add(np.full(10, 5.0), np.arange(9.0), 1.0, 0.5)            # mismatched lengths
add(np.full(9, 5.0), np.arange(10.0), 1.0, 0.5)
add([5.0, 5.0], np.array([1.0, 9.0]), 1.0, 1.0)            # list instead of array
add(np.array([5.0, 5.0]), [1.0, 9.0], 1.0, 1.0)
add(np.array([5.0, np.nan, 5.0]), np.array([1.0, np.nan, 9.0]), 1.0, 1.0)
add(np.array([5.0, 5.0]), np.array([1.0, 9.0]), None, 1.0)
add(np.array([5.0, 5.0]), np.array([1.0, 9.0]), 1.0, None)
add(np.array([[5.0, 5.0]]), np.array([[1.0, 9.0]]), 1.0, 1.0)
dc.compare_calls(orig, new, "match_storms", cases)

print("end-to-end classify_intervals:")
dc.standard_db_checks(orig, new)
dc.cleanup()
print("diff_check_4 OK")
