#!/venv/bin/python
"""Differential check for refactor1.diff (spowtd/spline.py, Spline.integrate)

Builds two copies of spowtd/spline.py in a temporary directory: the
original (git show HEAD:spowtd/spline.py) and the refactored one (the
original with refactor1.diff applied), imports both under private
names and compares them exactly on synthetic inputs, on the splines
of the sample parameter files, and on error cases.

"""

import importlib.util
import itertools
import os
import subprocess
import sys
import tempfile

import numpy as np

HERE = os.path.dirname(os.path.abspath(__file__))
# (DIFF_CHECK_PATCH: another patch, to try the check on a mutant)
PATCH = os.environ.get(
    'DIFF_CHECK_PATCH', os.path.join(HERE, 'refactor1.diff')
)
PATHS = ['spowtd/spline.py']


def build_trees():
    """Return (orig_dir, new_dir) holding original and patched files"""
    root = tempfile.mkdtemp(prefix='dc1_')
    dirs = []
    for label in ('orig', 'new'):
        top = os.path.join(root, label)
        for path in PATHS:
            dest = os.path.join(top, path)
            os.makedirs(os.path.dirname(dest), exist_ok=True)
            text = subprocess.check_output(
                ['git', 'show', 'HEAD:' + path], cwd=HERE
            )
            with open(dest, 'wb') as f:
                f.write(text)
        dirs.append(top)
    subprocess.check_call(['git', 'apply', PATCH], cwd=dirs[1])
    for path in PATHS:
        with open(os.path.join(dirs[0], path), 'rb') as f0, open(
            os.path.join(dirs[1], path), 'rb'
        ) as f1:
            assert f0.read() != f1.read(), 'patch changed nothing'
    return dirs


def load(top, path, name):
    spec = importlib.util.spec_from_file_location(
        name, os.path.join(top, path)
    )
    module = importlib.util.module_from_spec(spec)
    sys.modules[name] = module
    spec.loader.exec_module(module)
    return module


def describe(value):
    """Exact, comparable description of a value"""
    if isinstance(value, np.ndarray) and value.dtype == object:
        return ('ndarray', type(value).__name__, 'object', repr(value))
    if isinstance(value, np.ndarray):
        return (
            'ndarray',
            type(value).__name__,
            str(value.dtype),
            value.shape,
            value.tobytes(),
        )
    if isinstance(value, np.generic):
        return ('npscalar', type(value).__name__, value.tobytes())
    if isinstance(value, float):
        return ('float', value.hex())
    if isinstance(value, (tuple, list)):
        return (type(value).__name__, tuple(describe(v) for v in value))
    return (type(value).__name__, repr(value))


def outcome(function, *args, **kwargs):
    """Description of the return value or of the exception raised"""
    try:
        with np.errstate(all='ignore'):
            return ('returned', describe(function(*args, **kwargs)))
    except BaseException as exc:  # pylint: disable=broad-except
        return ('raised', type(exc).__name__, str(exc))


class Counting:
    """Wrap a module's splev and splint to record the calls made"""

    def __init__(self, module):
        self.calls = []
        self.module = module
        self.splev = module.splev
        self.splint = module.splint
        module.splev = self._splev
        module.splint = self._splint

    def _splev(self, x, tck, der=0):
        self.calls.append(('splev', describe(np.asarray(x)), der))
        return self.splev(x, tck, der=der)

    def _splint(self, a, b, tck):
        self.calls.append(('splint', describe(a), describe(b)))
        return self.splint(a, b, tck)


def main():
    orig_dir, new_dir = build_trees()
    orig = load(orig_dir, PATHS[0], 'dc1_spline_orig')
    new = load(new_dir, PATHS[0], 'dc1_spline_new')
    trace_orig = Counting(orig)
    trace_new = Counting(new)

    import yaml

    point_sets = {
        'cubic': [(-3.0, 0.1), (-1.0, 0.4), (0.0, 0.2), (2.5, 0.9), (4.0, 1.5)],
        'linear': [(0.0, 1.0), (1.0, 3.0), (5.0, -2.0)],
        'int-knots': [(0, 1), (1, 2), (2, 4), (3, 8), (4, 16)],
    }
    with open(
        os.path.join(HERE, 'spowtd/test/sample_data/spline_parameters.yml'),
        'rt',
    ) as f:
        pars = yaml.safe_load(f)
    point_sets['sample-sy'] = list(
        zip(
            pars['specific_yield']['zeta_knots_mm'],
            pars['specific_yield']['sy_knots'],
        )
    )
    point_sets['sample-logK'] = list(
        zip(
            pars['transmissivity']['zeta_knots_mm'],
            np.log(pars['transmissivity']['K_knots_km_d']),
        )
    )

    n_cases = 0
    rng = np.random.default_rng(20240927)
    for label, points in point_sets.items():
        for order in (1, 3):
            if order == 3 and len(points) < 4:
                continue
            s_orig = orig.Spline.from_points(points, order=order)
            s_new = new.Spline.from_points(points, order=order)
            assert describe(list(s_orig._tck[:2])) == describe(
                list(s_new._tck[:2])
            )
            xmin, xmax = s_orig.domain()
            span = xmax - xmin
            special = [
                xmin,
                xmax,
                np.nextafter(xmin, -np.inf),
                np.nextafter(xmin, np.inf),
                np.nextafter(xmax, -np.inf),
                np.nextafter(xmax, np.inf),
                xmin - span,
                xmax + span,
                0.5 * (xmin + xmax),
                float(xmin),
                float(xmax),
                int(np.floor(xmin)) - 1,
                int(np.ceil(xmax)) + 1,
                0,
                0.0,
                -0.0,
                np.inf,
                -np.inf,
                np.nan,
                np.float32(xmin),
                np.float32(xmax),
                np.array(xmin - 1.0),
                np.array([xmin + 0.25 * span]),
                np.array([xmax + 1.0]),
                np.array([xmin - 1.0, xmax]),
                None,
                'a',
                1 + 2j,
                True,
            ]
            special += list(rng.uniform(xmin - span, xmax + span, size=25))
            for a, b in itertools.product(special, repeat=2):
                del trace_orig.calls[:]
                del trace_new.calls[:]
                r_orig = outcome(s_orig.integrate, a, b)
                r_new = outcome(s_new.integrate, a, b)
                assert r_orig == r_new, (label, order, a, b, r_orig, r_new)
                # Same FITPACK calls, with the same arguments, in the
                # same order (lazy evaluation preserved)
                assert trace_orig.calls == trace_new.calls, (
                    label,
                    order,
                    a,
                    b,
                    trace_orig.calls,
                    trace_new.calls,
                )
                n_cases += 1
            # Unchanged methods still agree
            grid = np.linspace(xmin - span, xmax + span, 101)
            for der in (0, 1):
                assert outcome(s_orig, grid, der) == outcome(s_new, grid, der)

    # A spline whose pieces fail part-way: the failure must come at
    # the same point, after the same calls
    for failing in ('splev', 'splint'):
        for label, points in point_sets.items():
            s_orig = orig.Spline.from_points(points, order=1)
            s_new = new.Spline.from_points(points, order=1)
            xmin, xmax = s_orig.domain()
            results = []
            for trace, spline in ((trace_orig, s_orig), (trace_new, s_new)):
                saved = getattr(trace, failing)

                def boom(*args, **kwargs):
                    raise RuntimeError('boom in ' + failing)

                setattr(trace, failing, boom)
                try:
                    for a, b in [
                        (xmin - 1, xmin - 0.5),
                        (xmin - 1, xmax + 1),
                        (xmin, xmax),
                        (xmax, xmax + 1),
                        (xmax + 1, xmin - 1),
                    ]:
                        del trace.calls[:]
                        results.append(
                            (outcome(spline.integrate, a, b), list(trace.calls))
                        )
                        n_cases += 1
                finally:
                    setattr(trace, failing, saved)
            half = len(results) // 2
            assert results[:half] == results[half:], (failing, label)

    # Error cases of from_points are untouched but must still agree
    for points in (
        [],
        [(0, 1)],
        [(0, 1), (0, 2), (1, 3), (2, 4)],
        [(0, 1), (1, np.nan), (2, 3), (3, 4)],
        [(0, 1), (np.inf, 2), (2, 3), (3, 4)],
        [(0, 1, 2)],
    ):
        r_orig = outcome(lambda p=points: orig.Spline.from_points(p)._tck[1])
        r_new = outcome(lambda p=points: new.Spline.from_points(p)._tck[1])
        assert r_orig == r_new, (points, r_orig, r_new)
        n_cases += 1

    print('compared {} cases'.format(n_cases))
    print('OK')


if __name__ == '__main__':
    main()
