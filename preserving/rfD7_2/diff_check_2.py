"""Differential check for refactor2.diff

simulate_recession: curvature lookup, master-curve query, recession
evapotranspiration query; and the identically changed unit conversion in
pestfiles.generate_curves_pst_file.

Run: cd /tmp/rf_D && /venv/bin/python diff_check_2.py

"""

import io
import os
import re
import sqlite3
import sys
import warnings

sys.path.insert(0, '/tmp/rf_D')
import dc_common as dc  # noqa: E402


SET_CURVATURE = "INSERT INTO curvature (curvature_m_km2) VALUES (2.36)"


def databases():
    """(name, path, statements to run first) of every database exercised"""
    work = dc.private_dir()
    dbs = [
        ('sample1', dc.sample_db(1), [SET_CURVATURE]),
        ('sample2', dc.sample_db(2), [SET_CURVATURE]),
        ('sample1_no_curvature', dc.sample_db(1), []),
    ]
    specs = {
        'synth_a': (dict(seed=31), []),
        'synth_b': (dict(seed=32, n_recession=11, grid=1.0), []),
        'synth_c': (dict(seed=33, wide=False, grid=0.5), []),
        'synth_d': (dict(seed=34, zeta_range=(-30, 1), grid=10.0), []),
        'grid_zero': (dict(seed=35, grid=0.0), []),
        'grid_negative': (dict(seed=36, grid=-2.5), []),
        'grid_inf': (dict(seed=37, grid=9e999), []),
        'grid_text': (dict(seed=38, grid='abc'), []),
        'missing_levels': (
            dict(seed=39, missing_levels=(-3, 0, 7, 8)),
            [],
        ),
        'single_recession': (dict(seed=40, n_recession=1), []),
        'no_curvature': (dict(seed=41, curvature=None), []),
        'zero_curvature': (dict(seed=42, curvature=0), []),
        'text_curvature': (dict(seed=43, curvature='steep'), []),
        'negative_et': (dict(seed=44, et_scale=-1.0), []),
        'no_et': (dict(seed=45, with_et=False), []),
        'no_grid': (dict(seed=46, grid=None), []),
        'no_recession': (dict(seed=47, n_recession=0), []),
        # recession intervals whose zeta_interval row is missing or has
        # the other interval type (FK not enforced): they contribute to
        # the master curve but not to the evapotranspiration mean
        'unmatched_intervals': (
            dict(seed=48),
            [
                "UPDATE zeta_interval SET interval_type = 'storm' "
                "WHERE start_epoch = "
                "(SELECT min(start_epoch) FROM recession_interval)",
                "DELETE FROM zeta_interval WHERE start_epoch = "
                "(SELECT max(start_epoch) FROM recession_interval)",
            ],
        ),
        # No recession interval has a zeta_interval row: AVG over nothing
        'no_matched_intervals': (
            dict(seed=49),
            ["DELETE FROM zeta_interval WHERE interval_type = 'interstorm'"],
        ),
        # Real-valued epochs stay integer after affinity; text ET value
        'text_et': (
            dict(seed=50),
            [
                "UPDATE evapotranspiration "
                "SET evapotranspiration_mm_h = '0.25x' "
                "WHERE from_epoch % 7200 = 0"
            ],
        ),
    }
    for name, (spec, post) in specs.items():
        path = os.path.join(work, 'c2_%s.db' % name)
        dc.synthetic_db(path, **spec)
        dbs.append((name, path, post))
    path = os.path.join(work, 'c2_one_level.db')
    dc.synthetic_db(path, seed=51, zeta_range=(4, 5))
    dbs.append(('one_level', path, []))
    path = os.path.join(work, 'c2_empty.db')
    dc.schema_db(path).close()
    dbs.append(('empty', path, []))
    dbs.append(('empty_with_curvature', path, [SET_CURVATURE]))
    return dbs


ET_AGGREGATE = re.compile(r'avg\((e\.)?evapotranspiration_mm_h\) \* 24')


def observe(connection, outcome, extra=None):
    """Everything recorded about one call"""
    log = connection.log
    record = {
        'outcome': outcome,
        'values': dc.flat_values(log),
        'plans': [e['plan'] for e in log],
        'sql': [e['sql'] for e in log],
        'errors': [e['error'] for e in log],
        'in_transaction': connection.in_transaction,
        'dump': dc.dump(connection),
    }
    record.update(extra or {})
    return record


def worker():
    import spowtd.pestfiles as pestfiles_mod
    import spowtd.simulate_recession as simulate_recession_mod

    warnings.simplefilter('ignore')
    results = {}
    for name, path, post in databases():
        for kind in ('peatclsm', 'spline'):
            # simulate_recession itself
            connection, private = dc.open_copy(path, 'c2')
            for statement in post:
                sqlite3.Cursor(connection).execute(statement)
            connection.commit()
            outcome = dc.call(
                simulate_recession_mod.simulate_recession,
                connection,
                io.StringIO(dc.parameter_text(kind)),
            )
            # Order in which the evapotranspiration rows reach AVG
            et_order = None
            for entry in connection.log:
                if ET_AGGREGATE.search(entry['sql']):
                    probe = ET_AGGREGATE.sub(
                        "group_concat(e.from_epoch || ':' || "
                        "quote(e.evapotranspiration_mm_h))",
                        entry['sql'],
                    )
                    plain = sqlite3.Cursor(connection)
                    probe_plan = [
                        row[3]
                        for row in plain.execute(
                            'EXPLAIN QUERY PLAN ' + probe
                        )
                    ]
                    # The probe must be a faithful stand-in
                    assert probe_plan == entry['plan'], (
                        probe_plan,
                        entry['plan'],
                    )
                    et_order = plain.execute(probe).fetchone()[0]
            results[(name, kind, 'simulate')] = observe(
                connection, outcome, {'et_order': et_order}
            )
            connection.close()
            os.remove(private)
            # dump_simulated_recession, both layouts
            for observations_only in (False, True):
                connection, private = dc.open_copy(path, 'c2')
                for statement in post:
                    sqlite3.Cursor(connection).execute(statement)
                connection.commit()
                outfile = io.StringIO()
                outcome = dc.call(
                    simulate_recession_mod.dump_simulated_recession,
                    connection,
                    io.StringIO(dc.parameter_text(kind)),
                    outfile,
                    observations_only,
                )
                results[(name, kind, 'dump', observations_only)] = observe(
                    connection, outcome, {'text': outfile.getvalue()}
                )
                connection.close()
                os.remove(private)
            # The PEST control file that carries the same observations
            connection, private = dc.open_copy(path, 'c2')
            for statement in post:
                sqlite3.Cursor(connection).execute(statement)
            connection.commit()
            outfile = io.StringIO()
            outcome = dc.call(
                pestfiles_mod.generate_curves_pestfiles,
                connection,
                io.StringIO(dc.parameter_text(kind)),
                'pst',
                None,
                outfile,
            )
            results[(name, kind, 'pst')] = observe(
                connection, outcome, {'text': outfile.getvalue()}
            )
            connection.close()
            os.remove(private)
    return results


ALIASES = {
    'riz': 'recession_interval_zeta',
    'master_curve': 'average_recession_time',
}


def check(orig, new):
    assert sorted(orig) == sorted(new)
    tally = {}
    for key in sorted(orig):
        (o, n) = (orig[key], new[key])
        for field in ('outcome', 'in_transaction', 'dump', 'text',
                      'et_order'):
            if field in o or field in n:
                dc.compare(o[field], n[field], '%r %s' % (key, field))
        assert o['sql'] != n['sql'], 'refactored SQL was not exercised'
        no_curvature = o['outcome'][0] == 'exc' and o['outcome'][2].startswith(
            'Site curvature'
        )
        if key[2] == 'pst':
            dc.compare(o['values'], n['values'], '%r values' % (key,))
            dc.compare(o['errors'], n['errors'], '%r errors' % (key,))
            # time observations: last statement of both
            dc.compare(
                dc.scan_signature(o['plans'][-1], ALIASES),
                dc.scan_signature(n['plans'][-1], ALIASES),
                '%r plan' % (key,),
            )
        elif no_curvature:
            # (0,) then nothing  vs  (0, NULL)
            assert o['values'] == [('i', 0)], o['values']
            assert n['values'] == [('i', 0), ('NoneType', None)], n['values']
        else:
            # Two statements merged into one: same values in same order
            dc.compare(o['values'], n['values'], '%r values' % (key,))
            assert len(o['sql']) == len(n['sql']) + 1
            dc.compare(o['errors'][1:], n['errors'], '%r errors' % (key,))
            # master-curve statement: same access path
            dc.compare(
                dc.scan_signature(o['plans'][2], ALIASES),
                dc.scan_signature(n['plans'][1], ALIASES),
                '%r plan' % (key,),
            )
            if len(n['plans']) > 2:
                # ET statement: outer loop over an INTEGER PRIMARY KEY
                # start_epoch in both, rows of e by from_epoch range
                assert o['plans'][3][0] == 'SCAN ri', o['plans'][3]
                assert n['plans'][2][0] == 'SCAN zi', n['plans'][2]
                assert o['plans'][3][-1] == n['plans'][2][-1], (
                    o['plans'][3],
                    n['plans'][2],
                )
                assert o['plans'][3][-1].startswith(
                    'SEARCH e USING INTEGER PRIMARY KEY'
                )
        tag = (key[2], o['outcome'][0], o['outcome'][1][:14]
               if o['outcome'][0] == 'exc' else '')
        tally[tag] = tally.get(tag, 0) + 1
    for tag in sorted(tally):
        print(tag, tally[tag])
    for key in sorted(orig):
        if key[2] == 'simulate':
            print(key, orig[key]['outcome'][:2] if orig[key]['outcome'][0]
                  == 'exc' else 'ok',
                  'et rows=%s' % (
                      None if orig[key]['et_order'] is None
                      else orig[key]['et_order'].count(',') + 1))
    assert tally.get(('simulate', 'ok', ''), 0) >= 16, tally
    assert sum(v for (k, v) in tally.items()
               if k[0] == 'simulate' and k[1] == 'exc') >= 8, tally


if __name__ == '__main__':
    dc.main(os.path.abspath(__file__), 2, worker, check)
