"""Differential check for refactor5.diff (match_all_storms loop)

Loads spowtd/classify.py twice -- the committed version and the committed
version with refactor5.diff applied -- and asserts exactly equal results.
"""

import importlib.util
import os
import sqlite3
import subprocess
import sys
import tempfile
import types

import numpy as np

ROOT = os.path.dirname(os.path.abspath(__file__))
PATCH = os.path.join(ROOT, "refactor5.diff")
sys.path.insert(0, ROOT)


def load_variants():
    """Return (original module, refactored module)"""
    tmp = tempfile.mkdtemp(prefix="rfA_dc_")
    source = subprocess.check_output(
        ["git", "-C", ROOT, "show", "HEAD:spowtd/classify.py"]
    )
    mods = []
    for name in ("orig", "new"):
        pkg = os.path.join(tmp, name, "spowtd")
        os.makedirs(pkg)
        path = os.path.join(pkg, "classify.py")
        with open(path, "wb") as f:
            f.write(source)
        if name == "new":
            subprocess.check_call(["git", "apply", PATCH], cwd=os.path.join(tmp, name))
            with open(path, "rb") as f:
                assert f.read() != source, "patch changed nothing"
        spec = importlib.util.spec_from_file_location("classify_" + name, path)
        mod = importlib.util.module_from_spec(spec)
        spec.loader.exec_module(mod)
        mods.append(mod)
    return mods


def canon(value):
    """Type-strict canonical form"""
    if isinstance(value, np.ndarray):
        return ("ndarray", str(value.dtype), value.shape, value.tobytes())
    if isinstance(value, (list, tuple)):
        return (type(value).__name__, [canon(v) for v in value])
    if isinstance(value, dict):
        return ("dict", [(canon(k), canon(v)) for k, v in value.items()])
    if isinstance(value, types.GeneratorType):
        return ("generator", [canon(v) for v in value])
    return (type(value).__name__, repr(value))


def run(func, *args):
    """Result or exception of func(*args), canonical"""
    try:
        return ("ok", canon(func(*args)))
    except BaseException as exc:  # pylint: disable=broad-except
        return ("raise", type(exc).__name__, str(exc))


def dump_db(connection):
    """All rows (with storage classes) of the tables classify writes"""
    out = {}
    for table in (
        "thresholds",
        "grid_time_flags",
        "zeta_interval",
        "storm",
        "zeta_interval_storm",
    ):
        cursor = connection.execute(f"SELECT * FROM {table} ORDER BY rowid")
        cols = [d[0] for d in cursor.description]
        rows = cursor.fetchall()
        types_ = connection.execute(
            "SELECT {} FROM {} ORDER BY rowid".format(
                ", ".join(f"typeof({c})" for c in cols), table
            )
        ).fetchall()
        out[table] = (cols, rows, types_)
    return out


def classify_sample(mod, sample, storm_thr, jump_thr):
    """Load sample data and classify with mod; return DB dump or exception"""
    import spowtd.load as load_mod

    data_dir = os.path.join(ROOT, "spowtd", "test", "sample_data")
    connection = sqlite3.connect(":memory:")
    files = [
        open(os.path.join(data_dir, f"{kind}_{sample}.txt"), "rt", encoding="utf-8-sig")
        for kind in ("precipitation", "evapotranspiration", "water_level")
    ]
    try:
        load_mod.load_data(
            connection=connection,
            precipitation_data_file=files[0],
            evapotranspiration_data_file=files[1],
            water_level_data_file=files[2],
            time_zone_name="Africa/Lagos",
        )
    finally:
        for f in files:
            f.close()
    try:
        mod.classify_intervals(connection, storm_thr, jump_thr)
        return ("ok", dump_db(connection))
    except BaseException as exc:  # pylint: disable=broad-except
        return ("raise", type(exc).__name__, str(exc), dump_db(connection))


import datetime
import io


def load_sample(sample):
    """In-memory database with a sample data set loaded"""
    import spowtd.load as load_mod

    data_dir = os.path.join(ROOT, "spowtd", "test", "sample_data")
    connection = sqlite3.connect(":memory:")
    files = [
        open(os.path.join(data_dir, f"{kind}_{sample}.txt"), "rt", encoding="utf-8-sig")
        for kind in ("precipitation", "evapotranspiration", "water_level")
    ]
    try:
        load_mod.load_data(
            connection=connection,
            precipitation_data_file=files[0],
            evapotranspiration_data_file=files[1],
            water_level_data_file=files[2],
            time_zone_name="Africa/Lagos",
        )
    finally:
        for f in files:
            f.close()
    return connection


def load_synthetic(rng, n_steps, gap):
    """In-memory database with a synthetic data set (optionally with a gap)"""
    import spowtd.load as load_mod

    t0 = datetime.datetime(2020, 1, 1)
    step = datetime.timedelta(minutes=30)
    stamps = [
        (t0 + i * step).strftime("%Y-%m-%d %H:%M:%S") for i in range(n_steps + 1)
    ]
    rain = np.where(rng.random(n_steps) < 0.5, 4.0 + rng.random(n_steps) * 20, 0.0)
    rain[0] = 12.0  # storm starting at the very first step
    head = np.cumsum(np.where(rain > 8, rain / 2, -0.4) + rng.normal(0, 0.3, n_steps))
    precip = "datetime,precipitation rate (mm/h)\n" + "".join(
        f"{t},{r!r}\n" for t, r in zip(stamps, rain.tolist())  # n_steps rows
    )
    et = "datetime,evapotranspiration (mm/h)\n" + "".join(f"{t},0.01\n" for t in stamps)
    keep = [i for i in range(n_steps) if not (gap and n_steps // 2 <= i < n_steps // 2 + 3)]
    level = "datetime,wtd (mm)\n" + "".join(
        f"{stamps[i]},{float(head[i])!r}\n" for i in keep
    )
    connection = sqlite3.connect(":memory:")
    load_mod.load_data(
        connection=connection,
        precipitation_data_file=io.StringIO(precip),
        evapotranspiration_data_file=io.StringIO(et),
        water_level_data_file=io.StringIO(level),
        time_zone_name="UTC",
    )
    return connection


def classify(mod, connection, storm_thr, jump_thr):
    """classify_intervals outcome and resulting database contents"""
    try:
        mod.classify_intervals(connection, storm_thr, jump_thr)
        return ("ok", dump_db(connection))
    except BaseException as exc:  # pylint: disable=broad-except
        return ("raise", type(exc).__name__, str(exc), dump_db(connection))


def match_directly(mod, connection, storm_thr, jump_thr, prepare=None, repeat=1):
    """Call match_all_storms itself on every data interval"""
    cursor = connection.cursor()
    if prepare:
        prepare(cursor)
    intervals = [
        row[0]
        for row in cursor.execute(
            "SELECT DISTINCT data_interval FROM grid_time "
            "WHERE data_interval IS NOT NULL ORDER BY data_interval"
        ).fetchall()
    ]
    outcome = []
    for _ in range(repeat):
        for data_interval in intervals:
            try:
                result = mod.match_all_storms(cursor, data_interval, storm_thr, jump_thr)
                outcome.append(("ok", canon(result)))
            except BaseException as exc:  # pylint: disable=broad-except
                outcome.append(("raise", type(exc).__name__, str(exc)))
    return (outcome, dump_db(connection))


def main():
    orig, new = load_variants()
    n_cases = 0
    n_raise = 0
    rng = np.random.default_rng(20241001)

    # Whole classification on the sample data
    for sample in (1, 2):
        for thresholds in ((8.0, 5.0), (4.0, 8.0), (2.0, 2.0), (0.5, 0.5), (1e3, 1e3)):
            res_o = classify(orig, load_sample(sample), *thresholds)
            res_n = classify(new, load_sample(sample), *thresholds)
            assert res_o == res_n, (sample, thresholds)
            print(
                "sample", sample, thresholds, res_o[0],
                {k: len(v[1]) for k, v in res_o[-1].items()},
            )
            n_cases += 1

    def first_storm(cursor):
        """Occupy the start epoch of the first storm with a different thru_epoch"""
        (epoch,) = cursor.execute(
            "SELECT from_epoch FROM rainfall_intensity "
            "WHERE rainfall_intensity_mm_h > 8 ORDER BY from_epoch"
        ).fetchone()
        cursor.execute(
            "INSERT INTO storm (start_epoch, thru_epoch) VALUES (?, ?)",
            (epoch, epoch + 7 * 24 * 3600),
        )

    # match_all_storms called directly, including the failing branches:
    # a second pass finds every storm already present (assertion), a
    # pre-existing storm row with another thru_epoch violates the key
    for sample in (1, 2):
        for kwargs in ({}, {"repeat": 2}, {"prepare": first_storm}):
            res_o = match_directly(orig, load_sample(sample), 8.0, 5.0, **kwargs)
            res_n = match_directly(new, load_sample(sample), 8.0, 5.0, **kwargs)
            assert res_o == res_n, (sample, kwargs, res_o[0], res_n[0])
            n_raise += sum(r[0] == "raise" for r in res_o[0])
            print("direct", sample, sorted(kwargs), [r[:2] for r in res_o[0]])
            n_cases += 1

    # Synthetic series: storms at the first step, gaps (several data intervals)
    for trial in range(60):
        n_steps = int(rng.integers(12, 120))
        gap = bool(trial % 2)
        state = rng.bit_generator.state
        results = []
        for mod in (orig, new):
            rng.bit_generator.state = state
            connection = load_synthetic(rng, n_steps, gap)
            results.append(classify(mod, connection, 8.0, 3.0))
        assert results[0] == results[1], (trial, results[0][:3], results[1][:3])
        n_raise += results[0][0] == "raise"
        n_cases += 1
        results = []
        for mod in (orig, new):
            rng.bit_generator.state = state
            connection = load_synthetic(rng, n_steps, gap)
            results.append(match_directly(mod, connection, 8.0, 3.0, repeat=2))
        assert results[0] == results[1], (trial, results[0][0], results[1][0])
        n_raise += sum(r[0] == "raise" for r in results[0][0])
        n_cases += 1
    print("synthetic storms in last trial:", len(results[0][1]["storm"][1]))
    assert n_raise > 10, n_raise
    print(f"diff_check_5: OK ({n_cases} cases identical, {n_raise} raising calls)")


if __name__ == "__main__":
    main()
