"""Differential check for refactor3.diff (the SELECT that match_all_storms and
classify_interstorms both carried becomes one helper, select_interval_series,
parameterised by the rain column).

Shared scenario set, pristine package against patched copy.  Relevant here:
match_all_storms and classify_interstorms called directly on a cursor for
present and absent data intervals (absent -> "not enough values to unpack
(expected 3, got 0)" from the unpacking that now lives in the helper),
one-row and nonuniform intervals, a database without time_grid row, an interval
with rain but no water level; classify_intervals on both samples and on 40
random databases; a run that fails part-way through the INSERTs of
match_all_storms.  storm, zeta_interval, zeta_interval_storm and
grid_time_flags are compared row by row with rowids, as are exceptions and log
records.
"""
import dc_common

orig, new = dc_common.main(3)
unpack = ("exc", "ValueError", "not enough values to unpack (expected 3, got 0)")
assert orig["cursor/match_all_storms/0/5"][0] == unpack
assert orig["cursor/classify_interstorms/0/5"][0] == unpack
n_storms = 0
for key, value in orig.items():
    if key.startswith(("cursor/match_all_storms", "synthetic", "sample")) and not key.endswith("twice"):
        tables = dict((k, v) for k, v in value[1][1])
        n_storms += len(tables["zeta_interval_storm"][1])
assert n_storms > 500, n_storms
print("matched storms compared:", n_storms)
