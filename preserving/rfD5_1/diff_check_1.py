"""Differential check for refactor1.diff (spowtd/spline.py, class Spline)"""

import sys

sys.path.insert(0, '/tmp/rf_D')
import diff_common  # noqa: E402

WORKER = r'''
import itertools
import numpy as np
import yaml
import spowtd.spline as spline_mod

Spline = spline_mod.Spline


def record(key, func, *args, **kwargs):
    assert key not in RESULTS, key
    RESULTS[key] = attempt(func, *args, **kwargs)


def exercise(tag, make):
    """make() -> Spline (may raise); run every method on many arguments"""
    try:
        spline = make()
    except BaseException as exc:
        RESULTS[tag + '/construct'] = canon(exc)
        return
    record(tag + '/tck', lambda: tuple(spline._tck))
    record(tag + '/domain', spline.domain)
    try:
        lo, hi = spline.domain()
    except BaseException:
        record(tag + '/call', spline, 1.0)
        record(tag + '/integrate', spline.integrate, 0.0, 1.0)
        return
    span = float(hi) - float(lo)
    probes = [
        lo, hi, float(lo), float(hi), lo - 1, hi + 1, lo - 0.5 * span,
        hi + 2.5 * span, 0.5 * (lo + hi), lo + 0.1 * span, hi - 1e-9,
        0, 0.0, -0.0, 1, -7, float('inf'), float('-inf'), float('nan'),
        np.float32(0.25), np.int64(2),
    ]
    for der in (0, 1, 2):
        for i, x in enumerate(probes):
            record('{}/call/{}/der{}'.format(tag, i, der), spline, x, der=der)
        record(tag + '/call/list/der{}'.format(der), spline,
               [float(lo) - 3, float(lo), 0.5 * (lo + hi), float(hi), float(hi) + 3],
               der)
        record(tag + '/call/arr/der{}'.format(der), spline,
               np.linspace(float(lo) - span, float(hi) + span, 57), der)
        record(tag + '/call/arr32/der{}'.format(der), spline,
               np.linspace(float(lo) - span, float(hi) + span, 11).astype('float32'),
               der)
        record(tag + '/call/intarr/der{}'.format(der), spline,
               np.arange(-5, 6), der)
        record(tag + '/call/2d/der{}'.format(der), spline,
               np.linspace(float(lo) - span, float(hi) + span, 12).reshape(3, 4),
               der)
    record(tag + '/call/default', spline, 0.5 * (lo + hi))
    record(tag + '/call/str', spline, 'abc')
    record(tag + '/call/none', spline, None)
    record(tag + '/call/empty', spline, np.array([]))
    bounds = [
        float(lo) - 2 * span, float(lo) - 1.0, float(lo), lo,
        float(lo) + 0.25 * span, 0.5 * (float(lo) + float(hi)),
        float(hi) - 0.25 * span, float(hi), hi, float(hi) + 1.0,
        float(hi) + 3 * span, 0, 1, -0.0,
    ]
    for (i, a), (j, b) in itertools.product(enumerate(bounds), repeat=2):
        record('{}/integrate/{}/{}'.format(tag, i, j), spline.integrate, a, b)
    for i, (a, b) in enumerate([
            (float('nan'), 1.0), (1.0, float('nan')), (float('-inf'), 0.0),
            (0.0, float('inf')), (float('inf'), float('-inf')),
            (np.array([0.0, 1.0]), 2.0), ('a', 1.0), (None, 1.0),
            (np.float32(lo) - 1, np.float32(hi) + 1),
            (np.array(float(lo) - 1), np.array(float(hi) + 1)),
    ]):
        record('{}/integrate/bad/{}'.format(tag, i), spline.integrate, a, b)


# Splines as built from the sample parameter files
with open(SAMPLE_DIR + '/spline_parameters.yml') as f:
    pars = yaml.safe_load(f)
sy = pars['specific_yield']
tr = pars['transmissivity']
exercise('sample_sy_cubic', lambda: Spline.from_points(
    zip(sy['zeta_knots_mm'], sy['sy_knots']), order=3))
exercise('sample_sy_default', lambda: Spline.from_points(
    list(zip(sy['zeta_knots_mm'], sy['sy_knots']))))
exercise('sample_logK_linear', lambda: Spline.from_points(
    zip(tr['zeta_knots_mm'], np.log(tr['K_knots_km_d'])), order=1))

# Synthetic splines
rng = np.random.default_rng(12345)
for n, order, s in [(2, 1, 0), (4, 3, 0), (6, 2, 0), (25, 3, 0), (25, 3, 0.5),
                    (40, 1, 0), (12, 5, 0), (9, 3, None)]:
    x = np.cumsum(rng.uniform(0.1, 3.0, size=n)) - rng.uniform(0, 20)
    y = rng.normal(size=n)
    exercise('synthetic_n{}_k{}_s{}'.format(n, order, s),
             lambda x=x, y=y: Spline.from_points(zip(x, y), s=s, order=order))
exercise('ints', lambda: Spline.from_points([(0, 0), (1, 2), (2, 1), (5, 7)], order=1))
exercise('positional', lambda: Spline.from_points([(0, 0.5), (1, 2), (2, 1), (5, 7), (6, 2)], 0, 2))
exercise('array_points', lambda: Spline.from_points(
    np.array([[0.0, 1.0], [1.0, 3.0], [2.5, -1.0], [4.0, 0.0]])))
exercise('direct_tck', lambda: Spline(
    (np.array([0.0, 0.0, 1.0, 1.0]), np.array([2.0, 5.0, 0.0, 0.0]), 1)))

# Bad input to from_points
bad = {
    'nan_x': [(0.0, 1.0), (float('nan'), 2.0), (2.0, 3.0), (3.0, 1.0)],
    'inf_x': [(0.0, 1.0), (1.0, 2.0), (2.0, 3.0), (float('inf'), 1.0)],
    'nan_y': [(0.0, 1.0), (1.0, float('nan')), (2.0, 3.0), (3.0, 1.0)],
    'inf_y': [(0.0, 1.0), (1.0, 2.0), (2.0, float('-inf')), (3.0, 1.0)],
    'nan_both': [(float('nan'), float('nan')), (1.0, 2.0), (2.0, 3.0), (3.0, 1.0)],
    'nan_y_and_unsorted': [(3.0, float('nan')), (1.0, 2.0), (2.0, 3.0), (3.0, 1.0)],
    'decreasing': [(3.0, 1.0), (2.0, 2.0), (1.0, 3.0), (0.0, 1.0)],
    'repeated': [(0.0, 1.0), (1.0, 2.0), (1.0, 3.0), (3.0, 1.0)],
    'too_few': [(0.0, 1.0), (1.0, 2.0)],
    'single': [(0.0, 1.0)],
    'empty': [],
    'triples': [(0.0, 1.0, 2.0), (1.0, 2.0, 3.0)],
    'ragged': [(0.0, 1.0), (1.0,)],
    'strings': [('a', 'b'), ('c', 'd'), ('e', 'f'), ('g', 'h')],
    'none_y': [(0.0, None), (1.0, 2.0), (2.0, 3.0), (3.0, 1.0)],
    'not_iterable': 5,
}
for name, points in bad.items():
    exercise('bad_' + name, lambda points=points: Spline.from_points(points))
exercise('bad_order', lambda: Spline.from_points(
    [(0.0, 1.0), (1.0, 2.0), (2.0, 3.0), (3.0, 1.0)], order=7))
exercise('bad_tck_none', lambda: Spline(None))

RESULTS['module_names'] = canon(sorted(
    name for name in ('splev', 'splint', 'splrep')
    if getattr(spline_mod, name) is getattr(__import__('scipy.interpolate').interpolate, name)))
'''

if __name__ == '__main__':
    diff_common.compare(1, WORKER)
