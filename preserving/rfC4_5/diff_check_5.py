"""Differential check of refactor5.diff (observation queries split out of simulate_recession)

compute_rise_curve and compute_recession_curve are run with the spline and
PEATCLSM sample parameterisations on uniform, random, descending, repeated,
single-point, empty, integer, 0-d, 2-d and list grids (including failing
assertions and objects lacking the interface), with an instrumented specific
yield that records the order and arguments of all calls.  simulate_rise,
dump_simulated_recession and simulate_recession are then run end to end on
both sample data sets and three synthetic records in several database states
(nothing assembled, no curvature, zero / negative curvature, no ET), and the
simulate commands through spowtd.user_interface.main.  Arrays are compared
byte for byte, YAML text and exceptions exactly.
"""

import diff_harness


def worker():
    return diff_harness.simulation_scenarios()


if __name__ == '__main__':
    diff_harness.main(__file__, 'refactor5.diff', worker)
