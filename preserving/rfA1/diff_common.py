"""Shared helpers for the differential checks diff_check_K.py

Loads two variants of spowtd/classify.py as independent modules: the original
(from git HEAD) and the refactored one (HEAD + refactorK.diff), without touching
the worktree.
"""

import importlib.util
import logging
import os
import shutil
import sqlite3
import subprocess
import sys
import tempfile

import numpy as np

ROOT = os.path.dirname(os.path.abspath(__file__))
sys.path.insert(0, ROOT)

import spowtd.load as load_mod  # noqa: E402  pylint: disable=wrong-import-position

SAMPLE_DIR = os.path.join(ROOT, "spowtd", "test", "sample_data")
CACHE_DIR = os.path.join(ROOT, "_cache")
TABLES = (
    "thresholds",
    "grid_time_flags",
    "storm",
    "zeta_interval",
    "zeta_interval_storm",
)


def load_variants(k):
    """Return (orig_module, refactored_module) for refactoring number k"""
    tmp = tempfile.mkdtemp(prefix="rfA_diff_")
    os.makedirs(os.path.join(tmp, "spowtd"))
    source = subprocess.run(
        ["git", "-C", ROOT, "show", "HEAD:spowtd/classify.py"],
        check=True,
        capture_output=True,
    ).stdout
    with open(os.path.join(tmp, "spowtd", "classify.py"), "wb") as f:
        f.write(source)
    shutil.copy(
        os.path.join(tmp, "spowtd", "classify.py"),
        os.path.join(tmp, "classify_orig.py"),
    )
    subprocess.run(
        ["git", "apply", os.path.join(ROOT, "refactor{}.diff".format(k))],
        check=True,
        cwd=tmp,
    )
    new_path = os.path.join(tmp, "spowtd", "classify.py")
    with open(new_path, "rb") as f:
        assert f.read() != source, "patch did not change classify.py"
    orig = _load("classify_orig", os.path.join(tmp, "classify_orig.py"))
    new = _load("classify_new", new_path)
    return orig, new


def _load(name, path):
    spec = importlib.util.spec_from_file_location(name, path)
    module = importlib.util.module_from_spec(spec)
    spec.loader.exec_module(module)
    return module


def loaded_sample_db(sample):
    """In-memory connection with sample data set loaded (cached on disk)"""
    os.makedirs(CACHE_DIR, exist_ok=True)
    path = os.path.join(CACHE_DIR, "loaded_{}.sqlite3".format(sample))
    if not os.path.exists(path):
        tmp_path = path + ".tmp{}".format(os.getpid())
        conn = sqlite3.connect(tmp_path)
        with open(
            os.path.join(SAMPLE_DIR, "precipitation_{}.txt".format(sample)),
            "rt",
            encoding="utf-8-sig",
        ) as precip_f, open(
            os.path.join(SAMPLE_DIR, "evapotranspiration_{}.txt".format(sample)),
            "rt",
            encoding="utf-8-sig",
        ) as et_f, open(
            os.path.join(SAMPLE_DIR, "water_level_{}.txt".format(sample)),
            "rt",
            encoding="utf-8-sig",
        ) as zeta_f:
            load_mod.load_data(
                connection=conn,
                precipitation_data_file=precip_f,
                evapotranspiration_data_file=et_f,
                water_level_data_file=zeta_f,
                time_zone_name="Africa/Lagos",
            )
        conn.commit()
        conn.close()
        os.replace(tmp_path, path)
    disk = sqlite3.connect(path)
    mem = sqlite3.connect(":memory:")
    disk.backup(mem)
    disk.close()
    mem.execute("PRAGMA foreign_keys = 1")
    return mem


def synthetic_db(rain, zeta, time_step_s=1800, intervals=None, t0=1_500_000_000):
    """In-memory connection holding a synthetic gridded data set

    rain has one value per time step, zeta one value per grid time (len(rain) + 1
    would be the natural shape, but classify joins on from_epoch = epoch, so only
    the first len(rain) heads are used).  intervals optionally gives the
    data_interval label (or None) per grid time; if given as a list of
    (start, stop, label) slices the rest is NULL.
    """
    conn = sqlite3.connect(":memory:")
    conn.execute("PRAGMA foreign_keys = 1")
    with open(load_mod.SCHEMA_PATH, "rt") as schema_file:
        conn.executescript(schema_file.read())
    n = len(zeta)
    assert len(rain) in (n, n - 1)
    epochs = [t0 + i * time_step_s for i in range(n + 1)]
    labels = [None] * (n + 1)
    if intervals is None:
        labels = [1] * n + [None]
    else:
        for start, stop, label in intervals:
            for i in range(start, stop):
                labels[i] = label
    conn.execute(
        "INSERT INTO time_grid (time_step_s, source_time_zone) VALUES (?, 'UTC')",
        (time_step_s,),
    )
    conn.executemany(
        "INSERT INTO grid_time (epoch, data_interval) VALUES (?, ?)",
        zip(epochs, labels),
    )
    conn.executemany(
        "INSERT INTO rainfall_intensity (from_epoch, thru_epoch, "
        "rainfall_intensity_mm_h) VALUES (?, ?, ?)",
        [(epochs[i], epochs[i + 1], float(rain[i])) for i in range(len(rain))],
    )
    conn.executemany(
        "INSERT INTO water_level (epoch, zeta_mm) VALUES (?, ?)",
        [(epochs[i], float(zeta[i])) for i in range(n)],
    )
    conn.commit()
    return conn


def clone(conn):
    """Independent in-memory copy of a connection"""
    conn.commit()
    other = sqlite3.connect(":memory:")
    conn.backup(other)
    other.execute("PRAGMA foreign_keys = 1")
    return other


def dump(conn):
    """All rows of the tables classify writes, in natural and in rowid order"""
    out = {}
    for table in TABLES:
        out[table] = conn.execute("SELECT * FROM {}".format(table)).fetchall()
        out[table + "/rowid"] = conn.execute(
            "SELECT rowid, * FROM {} ORDER BY rowid".format(table)
        ).fetchall()
    return out


class _Capture(logging.Handler):
    def __init__(self):
        super().__init__(level=logging.DEBUG)
        self.records = []

    def emit(self, record):
        self.records.append((record.levelname, record.getMessage()))


def call(func, *args, **kwargs):
    """Run func; return ('ok', result, logs) or ('exc', type name, str, logs)"""
    logger = logging.getLogger("spowtd.classify")
    handler = _Capture()
    old_level = logger.level
    logger.addHandler(handler)
    logger.setLevel(logging.DEBUG)
    try:
        try:
            result = func(*args, **kwargs)
        except Exception as exc:  # pylint: disable=broad-except
            return ("exc", type(exc).__name__, str(exc), handler.records)
        return ("ok", result, handler.records)
    finally:
        logger.removeHandler(handler)
        logger.setLevel(old_level)


def freeze(obj):
    """Canonical, type-preserving representation for exact comparison"""
    if isinstance(obj, np.ndarray):
        return ("ndarray", str(obj.dtype), obj.shape, obj.tobytes())
    if isinstance(obj, np.generic):
        return ("npscalar", str(obj.dtype), obj.tobytes())
    if isinstance(obj, (list, tuple)):
        return (type(obj).__name__, tuple(freeze(x) for x in obj))
    if isinstance(obj, dict):
        # dict order is significant
        return ("dict", tuple((freeze(k), freeze(v)) for k, v in obj.items()))
    if isinstance(obj, (set, frozenset)):
        return (type(obj).__name__, tuple(sorted(repr(freeze(x)) for x in obj)))
    if isinstance(obj, float):
        return ("float", obj.hex())
    if hasattr(obj, "__next__"):
        return ("iterator", tuple(freeze(x) for x in obj))
    return (type(obj).__name__, obj)


def same(label, a, b):
    """Assert exact equality of two frozen results"""
    assert a == b, "MISMATCH in {}:\n  orig: {!r}\n  new:  {!r}".format(
        label, str(a)[:2000], str(b)[:2000]
    )


def run_classify(module, conn, rain_thr, jump_thr):
    """Run classify_intervals on a clone; return (call outcome, db dump)"""
    db = clone(conn)
    outcome = call(module.classify_intervals, db, rain_thr, jump_thr)
    # uncommitted rows are visible on the same connection
    return freeze(outcome), dump(db)


def synthetic_series(rng, n, p_rain=0.15, p_jump=0.15, quantum=0.5):
    """Random rain / head series with storms, matched and mystery jumps"""
    rain = np.zeros(n)
    head = np.zeros(n)
    level = 100.0
    raining = False
    for i in range(n):
        if raining:
            raining = rng.random() < 0.6
        else:
            raining = rng.random() < p_rain
        if raining:
            rain[i] = rng.choice([0.5, 3.0, 9.0, 20.0])
        # head change over the step starting at i
        head[i] = level
        if (raining and rng.random() < 0.8) or rng.random() < p_jump * 0.3:
            level += quantum * rng.integers(4, 40)
        elif rng.random() < 0.2:
            level += quantum * rng.integers(0, 8)
        else:
            level -= quantum * rng.integers(0, 3)
    return rain, head


def classify_cases():
    """Yield (label, connection, rain threshold, jump threshold)"""
    for sample in (1, 2):
        conn = loaded_sample_db(sample)
        yield ("sample{}-test-thresholds".format(sample), conn, 8.0, 5.0)
        yield ("sample{}-default-thresholds".format(sample), conn, 4.0, 8.0)
    rng = np.random.default_rng(12345)
    for case in range(40):
        n = int(rng.integers(8, 120))
        rain, head = synthetic_series(rng, n)
        if case % 4 == 0:
            # several data intervals separated by gaps
            a = n // 3
            b = 2 * n // 3
            intervals = [(0, a, 1), (a + 1, b, 2), (b + 2, n, 5)]
            if a < 2 or b - a - 1 < 2 or n - b - 2 < 2:
                intervals = None
        else:
            intervals = None
        conn = synthetic_db(rain, head, intervals=intervals)
        yield ("synthetic{}".format(case), conn, 4.0, 8.0)
        yield ("synthetic{}-low".format(case), conn, 0.25, 1.0)
    # Degenerate inputs
    yield ("all-dry-flat", synthetic_db([0.0] * 10, [5.0] * 10), 4.0, 8.0)
    yield (
        "all-rain-rising",
        synthetic_db([10.0] * 10, [10.0 * i for i in range(10)]),
        4.0,
        8.0,
    )
    yield (
        "mystery-only",
        synthetic_db([0.0] * 10, [0, 0, 30, 30, 30, 29, 60, 60, 59, 58]),
        4.0,
        8.0,
    )
    yield ("two-rows", synthetic_db([0.0, 0.0], [1.0, 0.5]), 4.0, 8.0)
    # Errors: single row (empty diff), no data intervals, nonuniform steps
    yield ("one-row", synthetic_db([0.0], [1.0]), 4.0, 8.0)
    yield (
        "no-intervals",
        synthetic_db([0.0] * 4, [1.0] * 4, intervals=[]),
        4.0,
        8.0,
    )
    conn = synthetic_db([0.0] * 8, [1.0] * 8)
    epochs = [r[0] for r in conn.execute("SELECT epoch FROM grid_time ORDER BY epoch")]
    conn.execute("UPDATE grid_time SET data_interval = NULL WHERE epoch = ?", (epochs[3],))
    conn.execute(
        "UPDATE grid_time SET data_interval = 1 WHERE epoch <> ? AND epoch <> ?",
        (epochs[3], epochs[-1]),
    )
    conn.commit()
    yield ("nonuniform", conn, 4.0, 8.0)
    # Interval with no rows in the join (label only on the last grid time)
    yield (
        "empty-join",
        synthetic_db([0.0] * 4, [1.0] * 4, intervals=[(4, 5, 1)]),
        4.0,
        8.0,
    )


def check_classify(orig, new):
    """Differential run of classify_intervals over all cases"""
    n_ok = n_exc = 0
    for label, conn, rain_thr, jump_thr in classify_cases():
        a = run_classify(orig, conn, rain_thr, jump_thr)
        b = run_classify(new, conn, rain_thr, jump_thr)
        same(label + " outcome", a[0], b[0])
        same(label + " database", a[1], b[1])
        if a[0][1][0][1] == "ok":
            n_ok += 1
        else:
            n_exc += 1
    print("classify_intervals: {} cases identical ({} ok, {} raising)".format(
        n_ok + n_exc, n_ok, n_exc))
