"""Differential check for refactor1.diff (classify_interstorms, get_mystery_jump_mask)"""
import numpy as np

from diff_common import (
    call, check_classify, clone, dump, freeze, load_variants, same,
    classify_cases,
)

orig, new = load_variants(1)

# 1. get_mystery_jump_mask: exhaustive for short vectors, random for long ones
count = 0
for n in range(0, 9):
    for code in range(4 ** n):
        bits = [(code >> (2 * i)) & 3 for i in range(n)]
        is_jump = np.array([b & 1 for b in bits], dtype=bool)
        is_raining = np.array([b >> 1 for b in bits], dtype=bool)
        a = freeze(call(orig.get_mystery_jump_mask, is_jump, is_raining))
        b = freeze(call(new.get_mystery_jump_mask, is_jump, is_raining))
        same("mystery exhaustive n={} code={}".format(n, code), a, b)
        count += 1
rng = np.random.default_rng(1)
for trial in range(500):
    n = int(rng.integers(1, 400))
    p, q = rng.random(2)
    is_jump = rng.random(n) < p
    is_raining = rng.random(n) < q
    a = freeze(call(orig.get_mystery_jump_mask, is_jump, is_raining))
    b = freeze(call(new.get_mystery_jump_mask, is_jump, is_raining))
    same("mystery random {}".format(trial), a, b)
    count += 1
# length mismatch -> same AssertionError
a = freeze(call(orig.get_mystery_jump_mask, np.zeros(3, bool), np.zeros(4, bool)))
b = freeze(call(new.get_mystery_jump_mask, np.zeros(3, bool), np.zeros(4, bool)))
same("mystery length mismatch", a, b)
assert a[1][0][1] == "exc"
# list input -> same TypeError from the trailing assertions
a = freeze(call(orig.get_mystery_jump_mask, [True, False], [False, True]))
b = freeze(call(new.get_mystery_jump_mask, [True, False], [False, True]))
same("mystery list input", a, b)
print("get_mystery_jump_mask: {} inputs identical".format(count + 2))

# 2. classify_interstorms alone (tables after the first half of the work)
n_cases = 0
for label, conn, rain_thr, jump_thr in classify_cases():
    intervals = [r[0] for r in conn.execute(
        "SELECT DISTINCT data_interval FROM grid_time "
        "WHERE data_interval IS NOT NULL ORDER BY data_interval")]
    results = []
    for module in (orig, new):
        db = clone(conn)
        cursor = db.cursor()
        outcomes = [
            freeze(call(module.classify_interstorms, cursor, i, jump_thr))
            for i in intervals
        ]
        results.append((outcomes, dump(db)))
    same(label + " classify_interstorms outcome", results[0][0], results[1][0])
    same(label + " classify_interstorms db", results[0][1], results[1][1])
    n_cases += 1
print("classify_interstorms: {} cases identical".format(n_cases))

# 3. whole classification
check_classify(orig, new)
print("diff_check_1 OK")
