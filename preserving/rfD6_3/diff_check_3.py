"""Differential check for refactor3.diff (pestfiles.generate_curves_ins_file)"""

import os
import sys

sys.path.insert(0, os.path.dirname(os.path.abspath(__file__)))
import diff_check_common as common  # noqa: E402


# Modifications of the sample databases that change the two counts
# (or make the queries fail)
SCRIPTS = {
    'as_is': None,
    'no_rise': 'DELETE FROM rising_interval_zeta;',
    'no_recession': 'DELETE FROM recession_interval_zeta;',
    'neither': (
        'DELETE FROM rising_interval_zeta; '
        'DELETE FROM recession_interval_zeta;'
    ),
    'one_rise_level': """
        DELETE FROM rising_interval_zeta
        WHERE zeta_number != (SELECT min(zeta_number)
                              FROM rising_interval_zeta);""",
    'one_recession_level': """
        DELETE FROM recession_interval_zeta
        WHERE zeta_number != (SELECT max(zeta_number)
                              FROM recession_interval_zeta);""",
    'one_interval_each': """
        DELETE FROM rising_interval_zeta
        WHERE start_epoch != (SELECT min(start_epoch)
                              FROM rising_interval_zeta);
        DELETE FROM recession_interval_zeta
        WHERE start_epoch != (SELECT max(start_epoch)
                              FROM recession_interval_zeta);""",
    'thinned': """
        DELETE FROM rising_interval_zeta WHERE zeta_number % 3 = 0;
        DELETE FROM recession_interval_zeta WHERE zeta_number % 7 != 0;""",
    'rise_table_dropped': 'DROP TABLE rising_interval_zeta;',
    'recession_table_dropped': 'DROP TABLE recession_interval_zeta;',
    'both_tables_dropped': (
        'DROP TABLE rising_interval_zeta; '
        'DROP TABLE recession_interval_zeta;'
    ),
    # Tables replaced by ones without constraints, holding NULLs and
    # duplicates: count(DISTINCT ...) must ignore NULLs in both spellings
    'nulls_and_duplicates': """
        DROP VIEW average_rising_depth;
        DROP VIEW average_recession_time;
        DROP TABLE rising_interval_zeta;
        DROP TABLE recession_interval_zeta;
        CREATE TABLE rising_interval_zeta (start_epoch, zeta_number);
        CREATE TABLE recession_interval_zeta (start_epoch, zeta_number);
        INSERT INTO rising_interval_zeta VALUES
          (1, 5), (2, 5), (3, NULL), (4, 6), (5, NULL), (6, 7.0), (7, 7);
        INSERT INTO recession_interval_zeta VALUES
          (1, NULL), (2, 'a'), (3, 'a'), (4, 2);""",
}


class RecordingFile:
    """Output file that records every write call"""

    def __init__(self):
        self.writes = []

    def write(self, text):
        self.writes.append(text)
        return len(text)


def collect():
    import io
    import tempfile

    import spowtd.pestfiles as pestfiles_mod
    import spowtd.user_interface as cli_mod
    from spowtd.test import conftest

    results = {}
    for sample in (1, 2):
        base = common.build_sample_connection(sample)
        for name, script in SCRIPTS.items():
            connection = common.clone_connection(base, script)
            # Direct call
            outfile = RecordingFile()
            results[(sample, name, 'direct')] = (
                common.outcome(
                    pestfiles_mod.generate_curves_ins_file,
                    connection=connection,
                    parameters={},
                    configuration={},
                    outfile=outfile,
                    precision=17,
                ),
                tuple(outfile.writes),
                connection.in_transaction,
            )
            # Through the dispatcher, for both parameter files
            for parameterization in ('peatclsm', 'spline'):
                outfile = io.StringIO()
                with open(
                    conftest.get_parameter_file_path(parameterization), 'rt'
                ) as parameter_file:
                    status = common.outcome(
                        pestfiles_mod.generate_curves_pestfiles,
                        connection,
                        parameter_file=parameter_file,
                        outfile_type='ins',
                        configuration_file=None,
                        outfile=outfile,
                    )
                results[(sample, name, 'dispatch', parameterization)] = (
                    status,
                    outfile.getvalue(),
                )
            # The other ins generator shares the first count; it must
            # be unaffected
            outfile = io.StringIO()
            results[(sample, name, 'rise-ins')] = (
                common.outcome(
                    pestfiles_mod.generate_rise_ins_file,
                    connection=connection,
                    parameters={},
                    configuration={},
                    outfile=outfile,
                    precision=17,
                ),
                outfile.getvalue(),
            )
            connection.close()
        # Through the command-line interface, on a database file
        with tempfile.TemporaryDirectory() as tmpdir:
            db_path = os.path.join(tmpdir, 'sample.sqlite3')
            import sqlite3

            file_db = sqlite3.connect(db_path)
            base.backup(file_db)
            file_db.close()
            import contextlib

            captured = io.StringIO()
            with contextlib.redirect_stdout(captured):
                status = common.outcome(
                    cli_mod.main,
                    [
                        'pestfiles',
                        'curves',
                        db_path,
                        conftest.get_parameter_file_path('spline'),
                        'ins',
                    ],
                )
            results[(sample, 'cli')] = (status, captured.getvalue())
            # Must equal a reference file shipped with the tests (the
            # numbering of those files is not that of the input files)
            references = []
            for ref_number in (1, 2):
                with open(
                    conftest.get_sample_file_path(
                        'curves_calibration', ref_number, 'ins'
                    ),
                    'rt',
                ) as ref_file:
                    references.append(ref_file.read().splitlines())
            assert captured.getvalue().splitlines() in references
        base.close()
    return results


if __name__ == '__main__':
    common.main(os.path.abspath(__file__), 'refactor3.diff', collect)
