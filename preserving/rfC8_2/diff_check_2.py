"""Differential check for refactor2.diff (spowtd/recession.py: compute_offsets).

Loads rise.py from HEAD and HEAD+refactor2.diff side by side (the rest of
the package comes from the worktree, which the patch does not touch), runs
both on copies of the same databases and asserts exact equality of results,
database contents and exceptions.

Run: cd /tmp/rf_C && PYTHONPATH=/tmp/rf_C /venv/bin/python diff_check_1.py
"""
import importlib.util
import os

os.environ.setdefault('OMP_NUM_THREADS', '1')  # small problems only
os.environ.setdefault('OPENBLAS_NUM_THREADS', '1')
import sqlite3
import subprocess
import tempfile

import numpy as np

ROOT = '/tmp/rf_C'
MODULE = 'spowtd/recession.py'
PATCH = os.path.join(ROOT, 'refactor2.diff')


def load_variants():
    tmp = tempfile.mkdtemp(prefix='rfC_dc2_')
    mods = {}
    for name in ('old', 'new'):
        base = os.path.join(tmp, name)
        os.makedirs(os.path.join(base, 'spowtd'))
        src = subprocess.check_output(
            ['git', '-C', ROOT, 'show', 'HEAD:' + MODULE])
        with open(os.path.join(base, MODULE), 'wb') as f:
            f.write(src)
        if name == 'new':
            subprocess.check_call(['patch', '-s', '-p1', '-d', base, '-i', PATCH])
        spec = importlib.util.spec_from_file_location(
            'recession_' + name, os.path.join(base, MODULE))
        mod = importlib.util.module_from_spec(spec)
        spec.loader.exec_module(mod)
        mods[name] = mod
    assert open(mods['old'].__file__).read() != open(mods['new'].__file__).read()
    return mods['old'], mods['new']


OLD, NEW = load_variants()

import spowtd.classify as classify_mod  # noqa: E402
import spowtd.load as load_mod  # noqa: E402
import spowtd.zeta_grid as zeta_grid_mod  # noqa: E402

SAMPLE = os.path.join(ROOT, 'spowtd/test/sample_data')
SCHEMA = open(os.path.join(ROOT, 'spowtd/schema.sql')).read()


def clone(conn):
    conn.commit()
    out = sqlite3.connect(':memory:')
    conn.backup(out)
    # pragmas are per connection
    for pragma in ('foreign_keys', 'ignore_check_constraints'):
        value = conn.execute('PRAGMA ' + pragma).fetchone()[0]
        out.execute('PRAGMA %s = %d' % (pragma, value))
    return out


def dump(conn):
    """Every table, every row, in rowid order, floats by repr, with types"""
    out = []
    names = [r[0] for r in conn.execute(
        "SELECT name FROM sqlite_master WHERE type='table' ORDER BY name")]
    for name in names:
        rows = conn.execute('SELECT * FROM "%s"' % name).fetchall()
        out.append((name, [tuple((type(v).__name__, repr(v)) for v in row)
                           for row in rows]))
    return out


def outcome(mod, conn, func_name, *args):
    conn = clone(conn)
    try:
        if func_name == 'compute':
            result = mod.compute_offsets(conn.cursor(), *args)
        else:
            result = mod.find_recession_offsets(conn, *args)
        status = ('ok', repr(result))
    except BaseException as exc:  # pylint: disable=broad-except
        status = ('exc', type(exc).__name__, str(exc))
    in_tx = conn.in_transaction
    state = dump(conn)
    conn.rollback()
    committed = dump(conn)
    return status, in_tx, state, committed, conn


N_CASES = 0


def compare(label, conn, func_name='compute', args=(None,), expect=None,
            repeat=False):
    global N_CASES
    a = outcome(OLD, conn, func_name, *args)
    b = outcome(NEW, conn, func_name, *args)
    assert a[:4] == b[:4], (label, a[0], b[0])
    if expect is not None:
        assert a[0][0] == 'exc' and a[0][1] == expect, (label, a[0])
    N_CASES += 1
    print('  %-58s %s' % (label, a[0][:2] if a[0][0] == 'exc' else 'ok'))
    if repeat:
        # call again on the state left by the first call (same process)
        a2 = outcome(OLD, a[4], func_name, *args)
        b2 = outcome(NEW, b[4], func_name, *args)
        assert a2[:4] == b2[:4], (label, 'repeat', a2[0], b2[0])
        N_CASES += 1
    return a


def sample_db(sample, grid=1.0, storm=8.0, jump=5.0):
    conn = sqlite3.connect(':memory:')
    def path(kind):
        return os.path.join(SAMPLE, '%s_%d.txt' % (kind, sample))
    with open(path('precipitation'), encoding='utf-8-sig') as p, \
            open(path('evapotranspiration'), encoding='utf-8-sig') as e, \
            open(path('water_level'), encoding='utf-8-sig') as z:
        load_mod.load_data(connection=conn, precipitation_data_file=p,
                           evapotranspiration_data_file=e,
                           water_level_data_file=z,
                           time_zone_name='Africa/Lagos')
    classify_mod.classify_intervals(conn, storm_rain_threshold_mm_h=storm,
                                    rising_jump_threshold_mm_h=jump)
    zeta_grid_mod.populate_zeta_grid(conn, grid_interval_mm=grid)
    conn.commit()
    return conn


def synthetic(levels, intervals, grid=1.0, step=3600, t0=0, fk=False,
              extra_sql=(), level_rows=None):
    """Hand-built database.

    levels: zeta_mm per time step (None = gap: no water_level row)
    intervals: (start, thru) of interstorm intervals, as time-step numbers
               (small ints) or raw values used verbatim
    """
    conn = sqlite3.connect(':memory:')
    conn.executescript(SCHEMA)
    conn.execute('PRAGMA foreign_keys = %d' % (1 if fk else 0))
    def ep(k):
        return t0 + k * step if isinstance(k, int) and abs(k) < 10**6 else k
    n = len(levels)
    conn.executemany('INSERT INTO grid_time (epoch) VALUES (?)',
                     [(ep(k),) for k in range(n + 1)])
    if level_rows is None:
        level_rows = [(ep(k), z) for k, z in enumerate(levels)
                      if z is not None]
    conn.executemany('INSERT INTO water_level VALUES (?, ?)', level_rows)
    for (zs, zt) in intervals:
        conn.execute("INSERT INTO zeta_interval VALUES (?, 'interstorm', ?)",
                     (ep(zs), ep(zt)))
    if grid is not None:
        conn.execute('INSERT INTO zeta_grid (grid_interval_mm) VALUES (?)',
                     (grid,))
        conn.execute('INSERT INTO discrete_zeta (zeta_number) '
                     'WITH RECURSIVE s(i) AS (SELECT -3000 UNION ALL '
                     'SELECT i + 1 FROM s WHERE i < 3000) SELECT i FROM s')
    for stmt in extra_sql:
        conn.execute(stmt)
    conn.commit()
    return conn


def main():
    print('sample data')
    for sample in (1, 2):
        for grid in (1.0, 2.0, 0.5):
            conn = sample_db(sample, grid=grid)
            first = compare('sample %d grid %s ref None' % (sample, grid), conn,
                            repeat=True)
            assert first[0][0] == 'ok'
            if (sample, grid) not in ((1, 1.0), (2, 2.0)):
                continue   # the full set takes minutes per database
            compare('sample %d grid %s find_recession_offsets' % (sample, grid),
                    conn, func_name='find', args=(), repeat=True)
            zs = sorted({int(r[1][1]) for r in dict(first[2])[
                'recession_interval_zeta']})
            for ref in (zs[len(zs) // 2] * grid, zs[0] * grid, zs[-1] * grid,
                        zs[len(zs) // 2] * grid + grid / 3, 1e9):
                compare('sample %d grid %s ref %r' % (sample, grid, ref), conn,
                        args=(ref,))
                compare('sample %d grid %s find ref %r' % (sample, grid, ref),
                        conn, func_name='find', args=(ref,))
            # executemany failing part-way: a conflicting row already there
            rows = dict(first[2])['recession_interval_zeta']
            for pick in (0, len(rows) // 2 + sample):
                c2 = clone(conn)
                c2.execute('PRAGMA foreign_keys = 0')
                c2.execute('INSERT INTO recession_interval_zeta VALUES '
                           '(%s, %s, 1.5)' % (rows[pick][0][1], rows[pick][1][1]))
                c2.commit()
                compare('sample %d grid %s conflict at row %d'
                        % (sample, grid, pick), c2, expect='IntegrityError')
            # FK enforced and a discrete zeta missing: fails part-way
            c2 = clone(conn)
            c2.execute('DELETE FROM discrete_zeta WHERE zeta_number = %d'
                       % zs[len(zs) // 2])
            c2.commit()
            c2.execute('PRAGMA foreign_keys = 1')
            compare('sample %d grid %s missing discrete zeta' % (sample, grid),
                    c2, expect='IntegrityError')
        conn = sample_db(sample, storm=4.0, jump=3.0)
        compare('sample %d other thresholds' % sample, conn, repeat=True)

    print('synthetic')
    levels = [30.0, 28.5, 26.25, 25.0, 40.0, 37.0, 33.5, 29.0, 27.5, 50.0,
              31.0, 28.0, 26.5, 24.0, 23.5, 60.0]
    good = [(0, 3), (4, 8), (10, 14)]
    compare('three recessions', synthetic(levels, good), repeat=True)
    compare('three recessions, FK enforced', synthetic(levels, good, fk=True),
            func_name='find', args=(), repeat=True)
    for ref in (24.0, 26.0, 27.0, 28.0, 30.0, 33.0, 39.0, 28, 27.5, 1e7):
        compare('three recessions ref %r' % ref, synthetic(levels, good),
                args=(ref,))
    compare('grid 0.25', synthetic(levels, good, grid=0.25))
    compare('grid 3', synthetic(levels, good, grid=3.0))
    compare('integer-valued levels',
            synthetic([float(int(z)) for z in levels], good))
    compare('integer-typed levels', synthetic([int(z) for z in levels], good))
    compare('overlapping / nested intervals',
            synthetic(levels, [(0, 3), (1, 3), (4, 8), (5, 7), (10, 14)]))
    compare('adjacent intervals sharing an epoch',
            synthetic([30.0, 28.5, 26.25, 25.0, 23.0, 21.5, 20.0],
                      [(0, 3), (3, 6)]))
    compare('two-sample intervals',
            synthetic(levels, [(0, 1), (1, 2), (2, 3), (5, 6), (6, 7)]))
    compare('single recession', synthetic(levels, good[:1]))
    compare('no intervals', synthetic(levels, []), expect='ValueError')
    compare('no water levels', synthetic([None] * 4, []), expect='ValueError')
    compare('no zeta grid', synthetic(levels, good, grid=None),
            expect='ValueError')
    compare('storm intervals only',
            synthetic(levels, good, extra_sql=[
                'PRAGMA ignore_check_constraints = 1',
                "UPDATE zeta_interval SET interval_type = 'storm'"]),
            expect='ValueError')
    compare('mixed interval types',
            synthetic(levels, good, extra_sql=[
                "UPDATE zeta_interval SET interval_type = 'storm' "
                "WHERE start_epoch = 4 * 3600"]))
    compare('epoch origin 1.6e9', synthetic(levels, good, t0=1600000000))
    compare('negative epochs', synthetic(levels, good, t0=-9 * 3600))
    # gaps
    gap = list(levels)
    gap[4] = None
    compare('interval start missing', synthetic(gap, good),
            expect='AssertionError')
    gap = list(levels)
    gap[8] = None
    compare('interval thru missing', synthetic(gap, good),
            expect='AssertionError')
    gap = list(levels)
    gap[6] = None
    compare('gap inside an interval', synthetic(gap, good))
    gap = list(levels)
    gap[4:9] = [None] * 5
    compare('interval without samples', synthetic(gap, good),
            expect='IndexError')
    compare('interval beyond the data', synthetic(levels, good + [(20, 25)]),
            expect='IndexError')
    compare('thru beyond the data', synthetic(levels, good + [(14, 25)]),
            expect='AssertionError')
    # odd thru epochs
    compare('real thru', synthetic(levels, [(0, 3 * 3600 + 0.5), (4, 8)]),
            expect='AssertionError')
    compare('integral real thru', synthetic(levels, [(0, 3 * 3600.0), (4, 8)]))
    compare('text thru', synthetic(levels, [(0, 'abc'), (4, 8)]))
    compare('blob thru', synthetic(levels, [(0, b'xy'), (4, 8)]))
    compare('huge thru', synthetic(levels, [(0, 2 ** 62), (4, 8)]),
            expect='AssertionError')
    compare('non-finite level',
            synthetic(levels, good, extra_sql=[
                "UPDATE water_level SET zeta_mm = 9e999 WHERE epoch = 3600"]),
            expect='AssertionError')
    # epochs beyond 2**53: float64 look-alikes, FK check fails after the
    # first interval has already been inserted
    big = 2 ** 53
    rows = [(big + k, z) for k, z in enumerate(levels)]
    compare('epochs beyond 2**53, odd start second',
            synthetic(levels, [(big + 4, big + 8), (big + 1, big + 3)],
                      level_rows=rows))
    compare('epochs beyond 2**53, even starts',
            synthetic(levels, [(big, big + 4), (big + 4, big + 8),
                               (big + 10, big + 14)], level_rows=rows))
    compare('epochs beyond 2**53, odd starts',
            synthetic(levels, [(big + 1, big + 3), (big + 5, big + 8),
                               (big + 11, big + 14)], level_rows=rows))
    rows = [(big + 2 * k, z) for k, z in enumerate(levels)]
    compare('epochs beyond 2**53, representable',
            synthetic(levels, [(big + 2 * a, big + 2 * b) for a, b in good],
                      level_rows=rows))
    # float64 look-alike of one start epoch only: the in-memory / SQL
    # existence check fails, before or after other intervals were inserted
    for odd_step, label in ((0, 'first'), (4, 'last'), (10, 'middle')):
        epochs = [big + 2 * k + (1 if k == odd_step else 0)
                  for k in range(len(levels))]
        rows = list(zip(epochs, levels))
        result = compare(
            'look-alike start epoch, inserted %s' % label,
            synthetic(levels, [(epochs[a], epochs[b]) for a, b in good],
                      level_rows=rows), expect='AssertionError')
        print('      rows left in recession_interval: %d'
              % len(dict(result[2])['recession_interval']))
    # pre-existing rows
    compare('recession_interval row already there',
            synthetic(levels, good, extra_sql=[
                "INSERT INTO recession_interval (start_epoch, time_offset_s) "
                "VALUES (4 * 3600, 0.25)"]), expect='IntegrityError')
    compare('recession_interval_zeta row already there',
            synthetic(levels, good, extra_sql=[
                "INSERT INTO recession_interval_zeta VALUES (0, 27, 0.25)"]),
            expect='IntegrityError')
    # random long series
    for seed in range(6):
        rng = np.random.default_rng(100 + seed)
        lv, iv = [], []
        for _ in range(int(rng.integers(2, 40))):
            z = float(rng.normal() * 30 + 40)
            k0 = len(lv)
            length = int(rng.integers(1, 12))
            for _ in range(length + 1):
                lv.append(z)
                z -= float(rng.random() * 4)
            iv.append((k0, k0 + length))
            for _ in range(int(rng.integers(0, 3))):
                lv.append(float(rng.normal() * 30 + 40))
        grid = [1.0, 0.5, 2.0, 3.0, 1.0, 0.1][seed]
        compare('random seed %d (%d intervals, grid %s)' % (seed, len(iv), grid),
                synthetic(lv, iv, grid=grid, step=[3600, 1800, 600][seed % 3]),
                repeat=(seed < 2))
    print('diff_check_2: %d comparisons identical' % N_CASES)


if __name__ == '__main__':
    main()
