"""Differential check for refactor2.diff (spowtd/fit_offsets.py: find_offsets)

Usage:  /venv/bin/python /tmp/rf_B/diff_check_2.py

Builds two copies of the package in a temporary directory (HEAD, and
HEAD + refactor2.diff), runs the scenarios below in a subprocess against
each copy, and asserts that the pickled, canonicalised results are equal
(floats compared by their bytes / repr, exceptions by type and message).
"""

import os
import pickle
import subprocess
import sys
import tempfile

ROOT = os.path.dirname(os.path.abspath(__file__))
PATCH = os.environ.get('RF_PATCH', os.path.join(ROOT, 'refactor2.diff'))


# ---------------------------------------------------------------- harness
def build_trees(tmp):
    trees = {}
    archive = subprocess.run(
        ['git', '-C', ROOT, 'archive', 'HEAD', 'spowtd'],
        check=True,
        stdout=subprocess.PIPE,
    ).stdout
    for name in ('orig', 'new'):
        tree = os.path.join(tmp, name)
        os.makedirs(tree)
        subprocess.run(['tar', '-x', '-C', tree], input=archive, check=True)
        trees[name] = tree
    subprocess.run(
        ['patch', '-s', '-p1', '-i', PATCH], cwd=trees['new'], check=True
    )
    return trees


def canon(obj):
    """Canonical, picklable, exactly comparable form of a result"""
    import numpy as np

    if isinstance(obj, np.ndarray):
        return ('ndarray', obj.dtype.str, obj.shape, obj.tobytes())
    if isinstance(obj, np.generic):
        return ('npscalar', obj.dtype.str, obj.tobytes())
    if isinstance(obj, float):
        return ('float', obj.hex())
    if isinstance(obj, (bool, int, str, bytes, type(None))):
        return (type(obj).__name__, obj)
    if isinstance(obj, (list, tuple)):
        return (type(obj).__name__, [canon(item) for item in obj])
    if isinstance(obj, dict):
        # order is observable: keep it
        return (
            type(obj).__name__,
            [(canon(key), canon(value)) for key, value in obj.items()],
        )
    if isinstance(obj, (set, frozenset)):
        return (type(obj).__name__, sorted(canon(item) for item in obj))
    raise TypeError('cannot canonicalise {!r}'.format(type(obj)))


def attempt(function, *args, **kwargs):
    """Result of a call, or the exception it raised"""
    import warnings

    try:
        with warnings.catch_warnings(record=True) as caught:
            warnings.simplefilter('always')
            value = function(*args, **kwargs)
        return (
            'ok',
            canon(value),
            [(w.category.__name__, str(w.message)) for w in caught],
        )
    except BaseException as exc:  # pylint: disable=broad-except
        return ('raised', type(exc).__name__, str(exc))


def main():
    with tempfile.TemporaryDirectory(prefix='rfB_check_') as tmp:
        trees = build_trees(tmp)
        results = {}
        for name, tree in trees.items():
            out = os.path.join(tmp, name + '.pkl')
            env = dict(os.environ, PYTHONPATH=tree)
            subprocess.run(
                [sys.executable, os.path.abspath(__file__), '--worker', out],
                check=True,
                env=env,
                cwd=tree,
            )
            with open(out, 'rb') as stream:
                results[name] = pickle.load(stream)
        orig, new = results['orig'], results['new']
        assert orig['__source__'] != new['__source__'], 'patch not applied'
        del orig['__source__'], new['__source__']
        assert list(orig) == list(new)
        n_ok = 0
        for key in orig:
            assert orig[key] == new[key], 'MISMATCH in scenario {}'.format(key)
            n_ok += orig[key][0] == 'ok'
        print(
            'diff_check_2: {} scenarios identical ({} returned, {} raised)'
            .format(len(orig), n_ok, len(orig) - n_ok)
        )


# ---------------------------------------------------------------- worker
class Recorder:
    """Stands in for a module; records the operands of chosen functions"""

    def __init__(self, module, names, log):
        self._module = module
        self._names = names
        self._log = log

    def __getattr__(self, name):
        value = getattr(self._module, name)
        if name not in self._names:
            return value

        def recording(*args, **kwargs):
            self._log.append(
                (name, canon([np_copy(arg) for arg in args]), canon(kwargs))
            )
            return value(*args, **kwargs)

        return recording


def np_copy(arg):
    import numpy as np

    if isinstance(arg, np.ndarray):
        # memory layout matters to BLAS: record it too
        return [
            np.array(arg),
            bool(arg.flags['C_CONTIGUOUS']),
            bool(arg.flags['F_CONTIGUOUS']),
        ]
    return arg


def worker(out_path):
    import copy
    import logging
    import numpy as np
    import numpy.linalg
    import spowtd.fit_offsets as fit_offsets_mod

    assert fit_offsets_mod.__file__.startswith(os.environ['PYTHONPATH'])
    results = {}
    with open(fit_offsets_mod.__file__, 'rt') as stream:
        results['__source__'] = stream.read()

    # Record the matrices handed to np.dot and numpy.linalg.solve, and
    # the log messages
    calls = []
    fit_offsets_mod.np = Recorder(np, {'dot'}, calls)
    fit_offsets_mod.linalg_mod = Recorder(numpy.linalg, {'solve'}, calls)
    messages = []

    class ListHandler(logging.Handler):
        def emit(self, record):
            messages.append(record.getMessage())

    fit_offsets_mod.LOG.addHandler(ListHandler())
    fit_offsets_mod.LOG.setLevel(logging.DEBUG)

    def run_find_offsets(head_mapping):
        del calls[:], messages[:]
        head_mapping = copy.deepcopy(head_mapping)
        try:
            value = fit_offsets_mod.find_offsets(head_mapping)
            outcome = ('returned', value)
        except Exception as exc:  # pylint: disable=broad-except
            outcome = ('raised', type(exc).__name__, str(exc))
        # find_offsets edits its argument: that is observable too
        return (outcome, head_mapping, list(calls), list(messages))

    def run_series(series_list, head_step):
        del calls[:], messages[:]
        try:
            value = fit_offsets_mod.get_series_time_offsets(
                series_list, head_step
            )
            outcome = ('returned', value)
        except Exception as exc:  # pylint: disable=broad-except
            outcome = ('raised', type(exc).__name__, str(exc))
        return (outcome, list(calls), list(messages))

    f32 = np.float32
    mappings = {
        'empty': {},
        'only_singletons': {1: [(0, 1.0)], 2: [(1, 2.0)]},
        'two_series_one_head': {5: [(0, 1.5), (1, 4.25)]},
        'three_series_chain': {
            0: [(0, 0.1), (1, 1.3)],
            1: [(1, 2.7), (2, 0.9)],
            2: [(2, 5.5)],
        },
        'reference_everywhere': {
            0: [(0, 0.1), (2, 1.3)],
            1: [(1, 2.7), (2, 0.9)],
            2: [(0, 5.5), (1, 1.1), (2, 7.25)],
        },
        'reference_first_in_head': {
            0: [(2, 0.1), (0, 1.3)],
            1: [(2, 2.7), (1, 0.9), (0, 4.4)],
        },
        'reference_absent_from_a_head': {
            3: [(0, 0.3), (1, 1.7)],
            4: [(1, 2.9), (2, 0.2)],
            5: [(0, 1.0), (1, 1.0), (2, 1.0)],
        },
        'integer_times': {
            0: [(0, 1), (1, 4)],
            1: [(1, 7), (2, 3), (0, 10)],
        },
        'big_integer_times': {
            0: [(0, 2**53 + 1), (1, 4)],
            1: [(1, 7), (2, 3), (0, 2**60 + 12345)],
        },
        'mixed_int_float_times': {
            0: [(0, 1), (1, 4.5)],
            1: [(1, 7.25), (2, 3), (0, 10)],
        },
        'numpy_scalar_times': {
            0: [(0, np.float64(0.1)), (1, np.float64(1.3))],
            1: [(1, np.float64(2.7)), (2, np.float64(0.9))],
        },
        'float32_times': {
            0: [(0, f32(0.1)), (1, f32(1.3))],
            1: [(1, f32(2.7)), (2, f32(0.9)), (0, f32(0.3))],
        },
        'mixed_float32_times': {
            0: [(0, f32(0.1)), (1, 1.3)],
            1: [(1, f32(2.7)), (2, 3), (0, f32(0.3))],
        },
        'int64_times': {
            0: [(0, np.int64(5)), (1, np.int64(8))],
            1: [(1, np.int64(2)), (2, np.int64(3))],
        },
        'duplicate_series_at_head': {
            0: [(0, 0.1), (0, 1.3), (1, 2.2)],
            1: [(1, 2.7), (2, 0.9), (2, 1.9)],
        },
        'only_reference_duplicated': {0: [(5, 1.0), (5, 2.0)]},
        'disconnected': {
            0: [(0, 0.1), (1, 1.3)],
            1: [(2, 2.7), (3, 0.9)],
        },
        'string_series_ids': {
            'h0': [('a', 0.1), ('b', 1.3)],
            'h1': [('b', 2.7), ('c', 0.9), ('a', 1.0)],
        },
        'float_series_ids': {
            0.5: [(0.0, 0.1), (1.0, 1.3)],
            1.5: [(1.0, 2.7), (2.0, 0.9)],
        },
        'numpy_series_ids': {
            0: [(np.int64(0), 0.1), (np.int64(1), 1.3)],
            1: [(np.int64(1), 2.7), (np.int64(2), 0.9)],
        },
        'list_items': {
            0: [[0, 0.1], [1, 1.3]],
            1: [[1, 2.7], [2, 0.9]],
        },
        'tuple_sequences': {
            0: ((0, 0.1), (1, 1.3)),
            1: ((1, 2.7), (2, 0.9)),
        },
        'three_element_item': {0: [(0, 0.1, 'x'), (1, 1.3)]},
        'empty_sequence': {0: [], 1: [(0, 1.0), (1, 2.0)]},
        'nan_time': {
            0: [(0, float('nan')), (1, 1.3)],
            1: [(1, 2.7), (2, 0.9)],
        },
        'inf_time': {
            0: [(0, float('inf')), (1, 1.3)],
            1: [(1, 2.7), (2, 0.9)],
        },
        'string_time': {0: [(0, 'a'), (1, 1.3)]},
        'none_time': {0: [(0, None), (1, 1.3)]},
    }
    rng = np.random.default_rng(8)
    for i in range(40):
        n_series = int(rng.integers(2, 9))
        n_heads = int(rng.integers(1, 15))
        mapping = {}
        for head in rng.permutation(n_heads).tolist():
            k = int(rng.integers(1, n_series + 1))
            sids = rng.permutation(n_series)[:k].tolist()
            if i % 4 == 0:
                times = rng.integers(0, 1000, size=k).tolist()
            elif i % 4 == 1:
                times = [float(v) for v in rng.integers(0, 1000, size=k)]
            else:
                times = rng.uniform(0, 1e6, size=k).tolist()
            mapping[head - 3] = list(zip(sids, times))
        mappings['random_{}'.format(i)] = mapping
    for name, mapping in mappings.items():
        results['find_offsets/' + name] = attempt(run_find_offsets, mapping)
    # repeated calls in one process
    results['find_offsets/repeat'] = attempt(
        lambda: [
            run_find_offsets(mappings['three_series_chain']) for _ in range(3)
        ]
    )

    # Through get_series_time_offsets
    series_sets = {
        'empty': [],
        'parallel_recessions': [
            (np.arange(6.0) + 100 * k, 9.7 - 1.3 * np.arange(6.0) + 0.4 * k)
            for k in range(4)
        ],
        'integer_dtype': [
            (np.arange(5) * 60 + 7 * k, np.array([9, 7, 6, 4, 1]) + k)
            for k in range(3)
        ],
        'non_monotonic': [
            (np.arange(7.0), np.array([5.2, 3.1, 4.4, 2.0, 2.9, 0.3, 1.1])),
            (np.arange(7.0), np.array([6.1, 5.5, 5.9, 3.3, 1.2, 2.2, 0.1])),
            (np.arange(4.0), np.array([4.0, 3.0, 3.0, 1.0])),
        ],
        'disconnected': [
            (np.arange(3.0), np.array([10.5, 9.5, 8.5])),
            (np.arange(3.0), np.array([10.2, 9.1, 8.3])),
            (np.arange(3.0), np.array([2.5, 1.5, 0.5])),
        ],
        'no_crossings': [
            (np.arange(3.0), np.array([0.5, 0.4, 0.3])),
            (np.arange(3.0), np.array([0.6, 0.4, 0.2])),
        ],
        'ties_in_initial_head': [
            (np.arange(4.0), np.array([5.5, 4.1, 2.2, 0.3])),
            (np.arange(4.0) + 3, np.array([5.5, 3.1, 2.8, 1.3])),
            (np.arange(4.0) + 9, np.array([5.5, 4.9, 1.8, 0.9])),
        ],
    }
    for name, series_list in series_sets.items():
        for head_step in (1.0, 0.5):
            results['series/{}/{}'.format(name, head_step)] = attempt(
                run_series, series_list, head_step
            )

    # The sample data, through the callers
    results.update(sample_data_results())
    with open(out_path, 'wb') as stream:
        pickle.dump(results, stream)


def dump_database(connection):
    """Every table and view, rows in natural order, floats exact"""
    cursor = connection.cursor()
    names = [
        name
        for name, in cursor.execute(
            "SELECT name FROM sqlite_master "
            "WHERE type IN ('table', 'view') ORDER BY name"
        ).fetchall()
    ]
    return [
        (name, cursor.execute('SELECT * FROM "{}"'.format(name)).fetchall())
        for name in names
    ]


def sample_path(kind, sample):
    return os.path.join(
        os.environ['PYTHONPATH'],
        'spowtd',
        'test',
        'sample_data',
        '{}_{}.txt'.format(kind, sample),
    )


def load_sample(connection, sample, time_zone_name='Africa/Lagos'):
    """Load one of the sample data sets, as the test fixtures do"""
    import spowtd.load as load_mod

    files = [
        open(sample_path(kind, sample), 'rt', encoding='utf-8-sig')
        for kind in ('precipitation', 'evapotranspiration', 'water_level')
    ]
    try:
        load_mod.load_data(connection, *files, time_zone_name=time_zone_name)
    finally:
        for stream in files:
            stream.close()


def sample_data_results():
    """Run the CLI steps load .. rise on both sample data sets"""
    import sqlite3
    import spowtd.classify as classify_mod
    import spowtd.recession as recession_mod
    import spowtd.rise as rise_mod
    import spowtd.zeta_grid as zeta_grid_mod

    results = {}
    for sample in (1, 2):
        connection = sqlite3.connect(':memory:')
        load_sample(connection, sample)
        results['sample_{}/loaded'.format(sample)] = (
            'ok',
            canon(dump_database(connection)),
            [],
        )
        classify_mod.classify_intervals(
            connection,
            storm_rain_threshold_mm_h=8.0,
            rising_jump_threshold_mm_h=5.0,
        )
        zeta_grid_mod.populate_zeta_grid(connection, grid_interval_mm=1.0)
        recession_mod.find_recession_offsets(connection)
        rise_mod.find_rise_offsets(connection)
        results['sample_{}/dump'.format(sample)] = (
            'ok',
            canon(dump_database(connection)),
            [],
        )
        connection.close()
    return results


if __name__ == '__main__':
    if len(sys.argv) == 3 and sys.argv[1] == '--worker':
        # import the package from PYTHONPATH, not from the script's directory
        sys.path[:] = [
            entry
            for entry in sys.path
            if os.path.abspath(entry or os.curdir) != ROOT
        ]
        worker(sys.argv[2])
    else:
        main()
