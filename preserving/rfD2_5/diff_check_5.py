"""Differential check for refactor5.diff (pestfiles.py, generate_curves_ins_file)

Generates the curves instruction file (directly, through
generate_curves_pestfiles and through the CLI) and, for completeness, all
other PEST files, on both sample data sets at several pipeline stages, and on
hand-made databases (duplicates, NULLs, mixed storage classes, empty tables,
missing tables, a Row row-factory), with the original and the refactored
package; asserts that the text written and any exception are identical.
"""

import io
import os
import shutil
import sqlite3
import tempfile
import warnings

import _dc_harness


def worker():
    import spowtd.pestfiles as pestfiles_mod
    import spowtd.user_interface as cli_mod
    from spowtd.test import conftest

    warnings.simplefilter('ignore')
    capture = _dc_harness.capture
    results = {}

    def ins_direct(connection):
        outfile = io.StringIO()
        outcome = capture(
            pestfiles_mod.generate_curves_ins_file,
            connection=connection,
            parameters=None,
            configuration={},
            outfile=outfile,
            precision=17,
        )
        return (outcome, outfile.getvalue())

    def all_pestfiles(connection):
        out = {}
        for kind, generate in (
            ('rise', pestfiles_mod.generate_rise_pestfiles),
            ('curves', pestfiles_mod.generate_curves_pestfiles),
        ):
            for parameterization in ('spline', 'peatclsm'):
                for outfile_type in ('tpl', 'ins', 'pst', 'bad'):
                    outfile = io.StringIO()
                    with open(
                        conftest.get_parameter_file_path(parameterization),
                        'rt',
                    ) as parameter_file:
                        outcome = capture(
                            generate,
                            connection=connection,
                            parameter_file=parameter_file,
                            outfile_type=outfile_type,
                            configuration_file=None,
                            outfile=outfile,
                        )
                    out[(kind, parameterization, outfile_type)] = (
                        outcome, outfile.getvalue()
                    )
        return out

    # --- sample data at several stages ---------------------------------------
    tmpdir = tempfile.mkdtemp(prefix='rfD_dc5_')
    for sample in (1, 2):
        connection = _dc_harness.build_database(sample)
        results['full_{}_direct'.format(sample)] = ins_direct(connection)
        results['full_{}_all'.format(sample)] = all_pestfiles(connection)
        # with a Row row-factory
        connection.row_factory = sqlite3.Row
        results['full_{}_row_factory'.format(sample)] = ins_direct(connection)
        connection.row_factory = None
        # through the CLI, on a file database
        db_path = os.path.join(tmpdir, 'sample_{}.sqlite3'.format(sample))
        connection.commit()  # backup() waits for ever on an open transaction
        file_db = sqlite3.connect(db_path)
        connection.backup(file_db)
        file_db.close()
        for parameterization in ('spline', 'peatclsm'):
            for outfile_type in ('ins', 'tpl', 'pst'):
                out_path = os.path.join(
                    tmpdir,
                    'out_{}_{}.{}'.format(
                        sample, parameterization, outfile_type
                    ),
                )
                outcome = capture(
                    cli_mod.main,
                    [
                        'pestfiles',
                        'curves',
                        db_path,
                        conftest.get_parameter_file_path(parameterization),
                        outfile_type,
                        '-o',
                        out_path,
                    ],
                )
                with open(out_path, 'rt') as f:
                    text = f.read()
                results[
                    'cli_{}_{}_{}'.format(
                        sample, parameterization, outfile_type
                    )
                ] = (outcome, text)
        # rows removed: only rise, only recession
        cursor = connection.cursor()
        cursor.execute('PRAGMA foreign_keys = OFF')
        cursor.execute('DELETE FROM recession_interval_zeta')
        results['full_{}_no_recession'.format(sample)] = ins_direct(
            connection
        )
        cursor.execute('DELETE FROM rising_interval_zeta WHERE zeta_number > 5')
        results['full_{}_few_rise'.format(sample)] = ins_direct(connection)
        cursor.close()
        connection.close()

        for stage in ('classified', 'loaded'):
            connection = _dc_harness.build_database(sample, stage=stage)
            results['{}_{}_direct'.format(stage, sample)] = ins_direct(
                connection
            )
            connection.close()

    # --- hand-made databases --------------------------------------------------
    # no schema at all
    connection = sqlite3.connect(':memory:')
    results['no_schema'] = ins_direct(connection)
    # only the first table present
    connection.execute(
        'CREATE TABLE rising_interval_zeta (start_epoch, zeta_number)'
    )
    results['one_table_missing'] = ins_direct(connection)
    connection.execute(
        'CREATE TABLE recession_interval_zeta (start_epoch, zeta_number)'
    )
    results['empty_tables'] = ins_direct(connection)
    # duplicates, NULLs, mixed storage classes (no NOT NULL constraint here)
    connection.executemany(
        'INSERT INTO rising_interval_zeta VALUES (?, ?)',
        [(1, 3), (2, 3), (3, 4), (4, None), (5, None), (6, 4.0), (7, '4'),
         (8, -2), (9, 5.5), (10, b'x')],
    )
    connection.executemany(
        'INSERT INTO recession_interval_zeta VALUES (?, ?)',
        [(1, None), (2, 10), (3, 10), (4, 11), (5, 12), (6, 12)],
    )
    results['hand_made'] = ins_direct(connection)
    connection.execute('DELETE FROM rising_interval_zeta')
    results['hand_made_rise_empty'] = ins_direct(connection)
    connection.execute(
        'DELETE FROM recession_interval_zeta WHERE zeta_number IS NOT NULL'
    )
    results['hand_made_only_nulls'] = ins_direct(connection)
    # the column is missing
    connection.execute('DROP TABLE rising_interval_zeta')
    connection.execute('CREATE TABLE rising_interval_zeta (start_epoch)')
    results['column_missing'] = ins_direct(connection)
    connection.close()
    # closed connection / not a connection
    results['closed_connection'] = ins_direct(connection)
    results['none_connection'] = ins_direct(None)
    # many levels
    connection = sqlite3.connect(':memory:')
    connection.execute(
        'CREATE TABLE rising_interval_zeta (start_epoch, zeta_number)'
    )
    connection.execute(
        'CREATE TABLE recession_interval_zeta (start_epoch, zeta_number)'
    )
    connection.executemany(
        'INSERT INTO rising_interval_zeta VALUES (?, ?)',
        [(i, i % 137) for i in range(1000)],
    )
    connection.executemany(
        'INSERT INTO recession_interval_zeta VALUES (?, ?)',
        [(i, -(i % 211)) for i in range(1000)],
    )
    results['many_levels'] = ins_direct(connection)
    connection.close()
    shutil.rmtree(tmpdir, ignore_errors=True)
    return results


if __name__ == '__main__':
    _dc_harness.main(__file__, 'refactor5.diff', worker)
