"""Differential check for refactor4.diff (spowtd/simulate_recession.py)

compute_recession_curve: spline and PEATCLSM parameterizations on regular,
random, ascending, one- and two-point grids with several ET / curvature
values, plus inputs that reach the assertions and the indexing errors.
simulate_recession / dump_simulated_recession: on databases built from both
sample data sets and synthetic variants, with and without curvature, both
parameter files (PEATCLSM goes through the m2/s wrapper branch), parameter
files with missing entries, both output modes, and through the CLI.

"""

import dc_common as dc


def collect():
    import gc
    import io
    import os
    import sqlite3
    import tempfile
    import warnings

    import numpy as np
    import yaml

    import spowtd.recession as recession_mod
    import spowtd.set_curvature as set_curvature_mod
    import spowtd.simulate_recession as simulate_recession_mod
    import spowtd.specific_yield as specific_yield_mod
    import spowtd.transmissivity as transmissivity_mod
    import spowtd.user_interface as cli_mod
    import spowtd.zeta_grid as zeta_grid_mod
    from spowtd.test import conftest

    warnings.simplefilter('ignore')
    results = {}

    def functions(parameterization):
        with open(
            conftest.get_parameter_file_path(parameterization), 'rt'
        ) as handle:
            parameters = yaml.safe_load(handle)
        return (
            specific_yield_mod.create_specific_yield_function(
                parameters['specific_yield']
            ),
            transmissivity_mod.create_transmissivity_function(
                parameters['transmissivity']
            ),
        )

    rng = np.random.default_rng(927)
    grids = {
        'test-grid': np.linspace(0, -400, 10),
        'fine': np.linspace(5.0, -280.0, 286),
        'ascending': np.linspace(-250, 0, 12),
        'random': -np.sort(rng.uniform(0, 280, size=23)),
        'one-point': np.array([-12.5]),
        'two-points': np.array([-3.0, -100.0]),
        'empty': np.array([], dtype=float),
        'list': [-1.0, -2.0, -3.0],
    }
    settings = {
        'test-values': dict(
            mean_elapsed_time_d=19.0, curvature_km=2.36e-3, et_mm_d=4.15
        ),
        'no-et': dict(
            mean_elapsed_time_d=np.float64(3.5), curvature_km=1e-2, et_mm_d=0
        ),
        'flat': dict(mean_elapsed_time_d=0.0, curvature_km=0.0, et_mm_d=2.5),
        'flat-no-et': dict(
            mean_elapsed_time_d=1.0, curvature_km=0.0, et_mm_d=0.0
        ),
        'negative-et': dict(
            mean_elapsed_time_d=1.0, curvature_km=1e-3, et_mm_d=-0.1
        ),
        'negative-curvature': dict(
            mean_elapsed_time_d=1.0, curvature_km=-1e-3, et_mm_d=0.1
        ),
    }
    for parameterization in ('spline', 'peatclsm'):
        for grid_label, grid in grids.items():
            for setting_label, setting in settings.items():
                (specific_yield, transmissivity) = functions(parameterization)
                results[
                    ('curve', parameterization, grid_label, setting_label)
                ] = dc.canon(
                    dc.attempt(
                        simulate_recession_mod.compute_recession_curve,
                        specific_yield,
                        transmissivity,
                        grid,
                        **setting
                    )
                )

    def parameter_text(parameterization, drop=None):
        with open(
            conftest.get_parameter_file_path(parameterization), 'rt'
        ) as handle:
            parameters = yaml.safe_load(handle)
        if drop is not None:
            section = parameters
            for key in drop[:-1]:
                section = section[key]
            del section[drop[-1]]
        return yaml.dump(parameters)

    parameter_files = {
        'spline': parameter_text('spline'),
        'peatclsm': parameter_text('peatclsm'),
        'no-transmissivity': parameter_text('spline', ('transmissivity',)),
        'no-transmissivity-type': parameter_text(
            'peatclsm', ('transmissivity', 'type')
        ),
        'no-specific-yield': parameter_text('peatclsm', ('specific_yield',)),
        'no-specific-yield-type': parameter_text(
            'spline', ('specific_yield', 'type')
        ),
    }

    def simulate(connection, text):
        return dc.attempt(
            simulate_recession_mod.simulate_recession,
            connection,
            io.StringIO(text),
        )

    def dump(connection, text, observations_only):
        outfile = io.StringIO()
        outcome = dc.attempt(
            simulate_recession_mod.dump_simulated_recession,
            connection,
            io.StringIO(text),
            outfile,
            observations_only,
        )
        return (outcome, outfile.getvalue())

    for label, connection in dc.classified_sources():
        zeta_grid_mod.populate_zeta_grid(connection, 1.0)
        recession_mod.find_recession_offsets(connection)
        results[('simulate', label, 'no-curvature')] = dc.canon(
            simulate(connection, parameter_files['spline'])
        )
        for curvature_m_km2 in (2.36, 0.0):
            curved = dc.clone(connection)
            set_curvature_mod.set_curvature(curved, curvature_m_km2)
            curved.commit()
            for name, text in parameter_files.items():
                results[
                    ('simulate', label, curvature_m_km2, name)
                ] = dc.canon(simulate(curved, text))
                for observations_only in (False, True):
                    results[
                        ('dump', label, curvature_m_km2, name, observations_only)
                    ] = dc.canon(dump(curved, text, observations_only))
            if curvature_m_km2:
                with tempfile.TemporaryDirectory() as tmp:
                    db_path = os.path.join(tmp, 'spowtd.sqlite3')
                    on_disk = sqlite3.connect(db_path)
                    curved.backup(on_disk)
                    on_disk.close()
                    for flags in ([], ['--observations']):
                        out_path = os.path.join(tmp, 'out.yml')
                        status = cli_mod.main(
                            [
                                'simulate',
                                'recession',
                                db_path,
                                conftest.get_parameter_file_path('spline'),
                                '-o',
                                out_path,
                            ]
                            + flags
                        )
                        gc.collect()
                        with open(out_path, 'rt') as handle:
                            results[('cli', label, tuple(flags))] = dc.canon(
                                (status, handle.read())
                            )
            curved.close()
        connection.close()
    return results


if __name__ == '__main__':
    dc.main(4, __file__, collect)
