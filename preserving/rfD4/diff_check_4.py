"""Differential check for refactor4.diff (spowtd/user_interface.py: main)"""

import diff_common

if __name__ == '__main__':
    diff_common.compare('refactor4.diff', diff_common.CLI_PROBE)
