"""Differential check for refactor3.diff (spowtd/transmissivity.py)"""

import diff_common

PROBE = diff_common.CLI_SOURCE + r'''
import warnings
import yaml
import spowtd.transmissivity as t_mod
import spowtd.plot_transmissivity as t_plot_mod


def load_params(name):
    with open(os.path.join(SAMPLES, name + '_parameters.yml')) as f:
        return yaml.safe_load(f)['transmissivity']


def probe():
    warnings.simplefilter('ignore')
    out = {}
    rng = np.random.default_rng(99)
    # --- factory -------------------------------------------------------
    for name in ('peatclsm', 'spline'):
        params = load_params(name)
        obj = attempt(t_mod.create_transmissivity_function, params)
        out['factory_type_' + name] = type(obj).__name__
        out['factory_params_left_' + name] = sorted(params)
    for k, params in enumerate([
            {}, {'Ksmacz0': 1}, {'type': 'nope'}, {'type': None},
            {'type': ['spline']}, {'type': 'spline'},
            {'type': 'peatclsm', 'Ksmacz0': 1},
            {'type': 'peatclsm', 'Ksmacz0': 1, 'alpha': 3,
             'zeta_max_cm': 1, 'extra': 2},
            {'type': 'spline', 'zeta_knots_mm': [0, 0, 1, 2],
             'K_knots_km_d': [1, 2, 3, 4],
             'minimum_transmissivity_m2_d': 1.0},
            {'type': 'spline', 'zeta_knots_mm': [0, 1, 2, 3],
             'K_knots_km_d': [1, -2, 3, 4],
             'minimum_transmissivity_m2_d': 1.0}]):
        result = attempt(t_mod.create_transmissivity_function, params)
        out['factory_bad_{}'.format(k)] = (
            result if isinstance(result, BaseException)
            else type(result).__name__)
        out['factory_bad_left_{}'.format(k)] = sorted(params)
    # --- SplineTransmissivity -----------------------------------------
    splines = {'sample': load_params('spline')}
    splines['flat_top'] = dict(
        type='spline', zeta_knots_mm=[-500., -100., 0., 50.],
        K_knots_km_d=[1e-3, 1e-1, 5., 5.], minimum_transmissivity_m2_d=0.0)
    splines['int_knots'] = dict(
        type='spline', zeta_knots_mm=[-3, -2, 0, 4, 9],
        K_knots_km_d=[1, 2, 3, 5, 8], minimum_transmissivity_m2_d=2)
    knots = np.cumsum(rng.uniform(5, 200, 7)) - 600
    splines['random'] = dict(
        type='spline', zeta_knots_mm=[float(v) for v in knots],
        K_knots_km_d=[float(v) for v in np.exp(rng.normal(0, 3, 7))],
        minimum_transmissivity_m2_d=float(rng.uniform(0, 10)))
    for name, params in splines.items():
        T = t_mod.create_transmissivity_function(dict(params))
        lo = float(T.zeta_knots_mm.min())
        hi = float(T.zeta_knots_mm.max())
        scalars = [lo - 100, lo - 1e-9, lo, lo + 1e-9, 0.5 * (lo + hi),
                   hi - 1e-6, hi, hi + 1, float('nan'), float('inf'),
                   float('-inf'), int(lo) + 1, np.float64(lo + 3.5),
                   np.float32(lo + 2.25), True]
        scalars += [float(v) for v in rng.uniform(lo - 10, hi, 10)]
        for k, value in enumerate(scalars):
            out['spline_{}_call_{}'.format(name, k)] = attempt(T, value)
            out['spline_{}_scalar_{}'.format(name, k)] = attempt(
                T.call_scalar, value)
            out['spline_{}_K_{}'.format(name, k)] = attempt(
                T.conductivity, value)
        vectors = [np.linspace(lo - 50, hi - 1, 41), [lo, lo + 1.0],
                   (lo - 1, lo + 2), [], np.array([]),
                   np.linspace(lo, hi - 1, 6).reshape(2, 3),
                   np.linspace(lo, hi + 5, 5), np.array(lo + 1.0), None,
                   'abc', [None], iter([lo + 1.0, lo + 2.0]),
                   [float('nan'), lo + 1]]
        for k, value in enumerate(vectors):
            out['spline_{}_vec_{}'.format(name, k)] = attempt(T, value)
    # --- PeatclsmTransmissivity ----------------------------------------
    peat = {'sample': load_params('peatclsm'),
            'alpha_float': dict(type='peatclsm', Ksmacz0=2.5, alpha=2.5,
                                zeta_max_cm=5.0),
            'alpha_one': dict(type='peatclsm', Ksmacz0=2.5, alpha=1,
                              zeta_max_cm=5.0),
            'alpha_small': dict(type='peatclsm', Ksmacz0=2.5, alpha=0.5,
                                zeta_max_cm=0),
            'bad': dict(type='peatclsm', Ksmacz0='k', alpha=3,
                        zeta_max_cm=1.0),
            'bad_zmax': dict(type='peatclsm', Ksmacz0=1.0, alpha=3,
                             zeta_max_cm=None)}
    for name, params in peat.items():
        T = t_mod.create_transmissivity_function(dict(params))
        inputs = [-1000., -10., 0., 9.999, 10.0, 10.0000001, 50., 51.,
                  float('nan'), float('inf'), float('-inf'), -7, 10, True,
                  np.float32(-3.3), np.linspace(-800, 10, 33),
                  np.linspace(-800, 60, 33), [-5, -4, 3], [], [[-1., -2.]],
                  np.array([10., np.nan]), 'abc', None, [None, 1.0]]
        for k, value in enumerate(inputs):
            out['peat_{}_{}'.format(name, k)] = attempt(T, value)
    # --- recession curve as computed in the test-suite -------------------
    import spowtd.simulate_recession as sim_mod
    import spowtd.specific_yield as sy_mod
    for name in ('peatclsm', 'spline'):
        with open(os.path.join(SAMPLES, name + '_parameters.yml')) as f:
            parameters = yaml.safe_load(f)
        sy = sy_mod.create_specific_yield_function(
            parameters['specific_yield'])
        T = t_mod.create_transmissivity_function(
            parameters['transmissivity'])
        for k, grid in enumerate([np.linspace(0, -400, 10),
                                  np.linspace(5, -250, 23)]):
            out['recession_curve_{}_{}'.format(name, k)] = attempt(
                sim_mod.compute_recession_curve, sy, T, grid,
                mean_elapsed_time_d=19.0, curvature_km=2.36e-3,
                et_mm_d=4.15)
    # --- dump step of the CLI on the sample parameter files --------------
    with tempfile.TemporaryDirectory() as workdir:
        for name in ('peatclsm', 'spline'):
            for k, (lo_cm, hi_cm) in enumerate([(-80, 0.5), (-25, 15),
                                                (-40, 200)]):
                path = os.path.join(workdir, 'dump')
                result = run_cli(
                    ['plot', 'transmissivity',
                     os.path.join(SAMPLES, name + '_parameters.yml'),
                     str(lo_cm), str(hi_cm), '-n', '37', '-d', path])
                out['cli_dump_{}_{}'.format(name, k)] = [
                    result[0], result[1], read_file(path)]
                os.remove(path)
        # --- simulate recession on the sample data ---------------------
        for sample in (1, 2):
            db = build_pipeline(sample, workdir, out)
            for name in ('peatclsm', 'spline'):
                for flag in ([], ['--observations']):
                    path = os.path.join(workdir, 'recession_out')
                    result = run_cli(
                        ['simulate', 'recession', db,
                         os.path.join(SAMPLES, name + '_parameters.yml'),
                         '-o', path] + flag)
                    out['simulate_recession_{}_{}_{}'.format(
                        sample, name, len(flag))] = [
                            result[0], result[1], read_file(path)]
                    os.remove(path)
    return out
'''

if __name__ == '__main__':
    diff_common.compare('refactor3.diff', PROBE)
