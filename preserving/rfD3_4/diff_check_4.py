"""Differential check for refactor4.diff: pestfiles.generate_rise_pst_file"""

import sys

sys.path.insert(0, '/tmp/rf_D')
import dc_common  # noqa: E402  (removes /tmp/rf_D from sys.path again)


def worker():
    import io
    import os
    import sqlite3
    import tempfile

    import numpy as np

    import spowtd.load as load_mod
    import spowtd.pestfiles as pestfiles_mod
    import spowtd.user_interface as cli_mod
    from spowtd.test import conftest

    attempt = dc_common.attempt
    results = {}
    tmpdir = tempfile.mkdtemp(prefix='dc4_', dir=os.getcwd())

    def via_wrapper(connection, parameterization, **kwargs):
        outfile = io.StringIO()
        with open(
            conftest.get_parameter_file_path(parameterization), 'rt'
        ) as parameter_file:
            ret = pestfiles_mod.generate_rise_pestfiles(
                connection,
                parameter_file=parameter_file,
                outfile_type='pst',
                configuration_file=None,
                outfile=outfile,
                **kwargs
            )
        return [ret, outfile.getvalue()]

    def direct(connection, parameters, precision=17, configuration=None):
        outfile = io.StringIO()
        try:
            ret = pestfiles_mod.generate_rise_pst_file(
                connection, parameters, configuration, outfile, precision
            )
        except Exception as exc:  # pylint: disable=broad-except
            ret = exc
        # Also what was written (nothing, if it failed)
        return [ret, outfile.getvalue()]

    synthetic_parameters = [
        {'specific_yield': {'type': 'peatclsm'}},
        {'specific_yield': {'type': 'spline', 'sy_knots': []}},
        {'specific_yield': {'type': 'spline', 'sy_knots': [0.3]}},
        {'specific_yield': {'type': 'spline', 'sy_knots': list(range(11))}},
        {'specific_yield': {'type': 'spline', 'sy_knots': 'abc'}},
        {'specific_yield': {'type': 'spline'}},  # KeyError
        {'specific_yield': {'type': 'spline', 'sy_knots': None}},  # TypeError
        {'specific_yield': {'type': 'other', 'sy_knots': [1]}},  # ValueError
        {'specific_yield': {'type': None}},
        {'specific_yield': {}},
        {},
    ]

    # 1. Sample data sets, through the library pipeline
    for sample in (1, 2):
        path = os.path.join(tmpdir, 'sample{}.sqlite3'.format(sample))
        connection = sqlite3.connect(path)
        dc_common.build_sample_db(connection, sample, recession=False)
        before = dc_common.dump_db(connection)
        res = []
        for parameterization in ('peatclsm', 'spline'):
            res.append(attempt(via_wrapper, connection, parameterization))
            for precision in (17, 6, 1, 0, 30, 'x', None):
                res.append(
                    attempt(
                        via_wrapper,
                        connection,
                        parameterization,
                        precision=precision,
                    )
                )
        for parameters in synthetic_parameters:
            res.append(attempt(direct, connection, parameters))
            res.append(attempt(direct, connection, parameters, 5, {'a': 1}))
        results['sample{}'.format(sample)] = res
        # The function must not modify the database
        assert dc_common.dump_db(connection) == before
        assert not connection.in_transaction
        connection.close()
        # ... and through the command line
        cli = []
        for parameterization in ('peatclsm', 'spline'):
            out_path = os.path.join(tmpdir, 'out.pst')
            ret = attempt(
                cli_mod.main,
                [
                    'pestfiles',
                    'rise',
                    path,
                    conftest.get_parameter_file_path(parameterization),
                    'pst',
                    '-o',
                    out_path,
                ],
            )
            # argparse's FileType handle is never closed explicitly
            import gc

            gc.collect()
            with open(out_path, 'rt') as f:
                cli.append([ret, f.read()])
        results['cli{}'.format(sample)] = cli

    # 2. Synthetic databases
    def new_db():
        connection = sqlite3.connect(':memory:')
        with open(load_mod.SCHEMA_PATH, 'rt') as schema_file:
            connection.executescript(schema_file.read())
        connection.execute('PRAGMA foreign_keys = 0')
        return connection

    # 2a. schema only, no rows: no observations
    connection = new_db()
    results['empty'] = [
        attempt(direct, connection, p) for p in synthetic_parameters
    ]
    # 2b. no schema at all
    results['noschema'] = [
        attempt(direct, sqlite3.connect(':memory:'), p)
        for p in synthetic_parameters
    ]
    results['noconnection'] = [
        attempt(direct, None, p) for p in synthetic_parameters
    ]
    # 2c. hand-filled tables: negative and unordered zeta numbers, a
    # non-unit grid interval, levels crossed by several storms
    rng = np.random.default_rng(11)
    for n, grid_interval_mm in enumerate((1.0, 2.5, -1.0, 0.0)):
        connection = new_db()
        connection.execute(
            'INSERT INTO zeta_grid (grid_interval_mm) VALUES (?)',
            (grid_interval_mm,),
        )
        zeta_numbers = [int(z) for z in rng.permutation(np.arange(-7, 9))]
        connection.executemany(
            'INSERT INTO discrete_zeta (zeta_number) VALUES (?)',
            [(z,) for z in zeta_numbers],
        )
        for start_epoch in range(100, 106):
            connection.execute(
                'INSERT INTO rising_interval '
                '(start_epoch, rain_depth_offset_mm) VALUES (?, ?)',
                (start_epoch, float(rng.normal(scale=30))),
            )
            crossed = rng.choice(zeta_numbers[:12], size=5, replace=False)
            connection.executemany(
                'INSERT INTO rising_interval_zeta VALUES (?, ?, ?)',
                [
                    (start_epoch, int(z), float(rng.uniform(0, 40)))
                    for z in crossed
                ],
            )
        connection.commit()
        res = [attempt(direct, connection, p) for p in synthetic_parameters]
        res += [
            attempt(direct, connection, synthetic_parameters[0], precision)
            for precision in (3, 12, 17, 25)
        ]
        results['synthetic{}'.format(n)] = res
        assert not connection.in_transaction
    return results


if __name__ == '__main__':
    dc_common.run(4, __file__)
