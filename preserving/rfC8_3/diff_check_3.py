"""Differential check for refactor3.diff (spowtd/simulate_rise.py:
compute_rise_curve).

Loads simulate_rise.py from HEAD and HEAD+refactor3.diff side by side, runs
both on the same inputs and asserts bit-identical results, identical call
sequences into the specific-yield object and identical exceptions.

Run: cd /tmp/rf_C && PYTHONPATH=/tmp/rf_C /venv/bin/python diff_check_3.py
"""
import importlib.util
import io
import os

os.environ.setdefault('OMP_NUM_THREADS', '1')
os.environ.setdefault('OPENBLAS_NUM_THREADS', '1')
import sqlite3
import subprocess
import tempfile
import warnings

import numpy as np
import yaml

ROOT = '/tmp/rf_C'
MODULE = 'spowtd/simulate_rise.py'
PATCH = os.path.join(ROOT, 'refactor3.diff')


def load_variants():
    tmp = tempfile.mkdtemp(prefix='rfC_dc3_')
    mods = {}
    for name in ('old', 'new'):
        base = os.path.join(tmp, name)
        os.makedirs(os.path.join(base, 'spowtd'))
        src = subprocess.check_output(
            ['git', '-C', ROOT, 'show', 'HEAD:' + MODULE])
        with open(os.path.join(base, MODULE), 'wb') as f:
            f.write(src)
        if name == 'new':
            subprocess.check_call(['patch', '-s', '-p1', '-d', base, '-i', PATCH])
        spec = importlib.util.spec_from_file_location(
            'simulate_rise_' + name, os.path.join(base, MODULE))
        mod = importlib.util.module_from_spec(spec)
        spec.loader.exec_module(mod)
        mods[name] = mod
    assert open(mods['old'].__file__).read() != open(mods['new'].__file__).read()
    return mods['old'], mods['new']


OLD, NEW = load_variants()

import spowtd.classify as classify_mod  # noqa: E402
import spowtd.load as load_mod  # noqa: E402
import spowtd.rise as rise_mod  # noqa: E402
import spowtd.specific_yield as specific_yield_mod  # noqa: E402
import spowtd.zeta_grid as zeta_grid_mod  # noqa: E402

SAMPLE = os.path.join(ROOT, 'spowtd/test/sample_data')
N_CASES = 0


def freeze(value):
    """Exact, type-aware description of a value"""
    if isinstance(value, np.ndarray):
        return ('ndarray', value.dtype.str, value.shape, value.tobytes(),
                value.flags.writeable, value.flags.owndata)
    if isinstance(value, np.generic):
        return (type(value).__name__, value.tobytes())
    if isinstance(value, float):
        return ('float', value.hex())
    return (type(value).__name__, repr(value))


class Recorder:
    """Specific yield wrapper logging every access and call, exactly"""

    def __init__(self, inner, fail_at=None, result=None):
        self.inner = inner
        self.log = []
        self.fail_at = fail_at
        self.result = result

    def __getattr__(self, name):
        self.log.append(('getattr', name))
        if name != 'integrate':
            raise AttributeError(name)
        return self._integrate

    def __call__(self, x):
        self.log.append(('call', freeze(x)))
        return self.inner(x)

    def _integrate(self, a, b):
        self.log.append(('integrate', freeze(a), freeze(b)))
        if self.fail_at is not None and len(
                [e for e in self.log if e[0] == 'integrate']) == self.fail_at:
            raise RuntimeError('requested failure %d' % self.fail_at)
        if self.result is not None:
            return self.result(a, b)
        return self.inner.integrate(a, b)


def run(mod, make_sy, grid, *args, **kwargs):
    sy = make_sy()
    grid_before = freeze(grid) if isinstance(grid, np.ndarray) else None
    with warnings.catch_warnings(record=True) as caught:
        warnings.simplefilter('always')
        try:
            result = mod.compute_rise_curve(sy, grid, *args, **kwargs)
            status = ('ok', freeze(result))
            assert result is not grid
        except BaseException as exc:  # pylint: disable=broad-except
            status = ('exc', type(exc).__name__, str(exc))
    if grid_before is not None:
        assert freeze(grid) == grid_before, 'caller array modified'
    return (status, getattr(sy, 'log', None),
            [(w.category.__name__, str(w.message)) for w in caught])


def compare(label, make_sy, grid, *args, **kwargs):
    global N_CASES
    expect = kwargs.pop('expect', None)
    a = run(OLD, make_sy, grid, *args, **kwargs)
    b = run(NEW, make_sy, grid, *args, **kwargs)
    assert a == b, (label, a[0][:2], b[0][:2])
    if expect == '*':
        pass  # exotic input: equality of behaviour is all that is checked
    elif expect is None:
        assert a[0][0] == 'ok', (label, a[0])
    else:
        assert a[0][0] == 'exc' and a[0][1] == expect, (label, a[0])
    N_CASES += 1
    print('  %-62s %s' % (label, 'ok' if a[0][0] == 'ok' else a[0][1]))


def make_real(sy_type):
    def make():
        with open(os.path.join(SAMPLE, sy_type + '_parameters.yml')) as f:
            params = yaml.safe_load(f)['specific_yield']
        return specific_yield_mod.create_specific_yield_function(params)
    return make


def make_recorded(sy_type, **kwargs):
    real = make_real(sy_type)
    return lambda: Recorder(real(), **kwargs)


class NoIntegrate:
    """Callable without an integrate method"""
    def __call__(self, x):
        return 0.2


def sample_db(sample):
    conn = sqlite3.connect(':memory:')
    def path(kind):
        return os.path.join(SAMPLE, '%s_%d.txt' % (kind, sample))
    with open(path('precipitation'), encoding='utf-8-sig') as p, \
            open(path('evapotranspiration'), encoding='utf-8-sig') as e, \
            open(path('water_level'), encoding='utf-8-sig') as z:
        load_mod.load_data(connection=conn, precipitation_data_file=p,
                           evapotranspiration_data_file=e,
                           water_level_data_file=z,
                           time_zone_name='Africa/Lagos')
    classify_mod.classify_intervals(conn, storm_rain_threshold_mm_h=8.0,
                                    rising_jump_threshold_mm_h=5.0)
    zeta_grid_mod.populate_zeta_grid(conn, grid_interval_mm=1.0)
    rise_mod.find_rise_offsets(conn)
    return conn


def main():
    grids = {
        'test grid': np.linspace(-865, 50, 10),
        'fine grid': np.linspace(-1200.0, 1300.0, 501),
        'inside spline domain': np.linspace(-290.0, 90.0, 39),
        'single element': np.array([12.5]),
        'two elements': np.array([-3.0, 8.0]),
        'integer-valued floats': np.arange(-600.0, 200.0, 25.0),
        'int64 dtype': np.arange(-600, 200, 25),
        'int32 dtype': np.arange(-600, 200, 50, dtype=np.int32),
        'float32 dtype': np.linspace(-500, 100, 13, dtype=np.float32),
        'decreasing': np.linspace(50, -865, 10),
        'ties': np.array([-100.0, -100.0, -50.0, -50.0, -50.0, 3.0, 3.0]),
        'zigzag': np.array([0.0, -30.0, 20.0, -700.0, 1500.0, -1500.0, 2.0]),
        'all equal': np.full(5, -42.0),
        'non-contiguous view': np.linspace(-865, 50, 40)[::3],
        'reversed view': np.linspace(-865, 50, 17)[::-1],
        'read-only': np.linspace(-865, 50, 10),
        'huge': np.array([-1e300, -1e5, 0.0, 1e5, 1e300]),
        'random': np.sort(np.random.default_rng(7).normal(size=200) * 400),
        'random unsorted': np.random.default_rng(8).normal(size=60) * 400,
    }
    grids['read-only'].setflags(write=False)
    print('real specific yield functions')
    for sy_type in ('spline', 'peatclsm'):
        for name, grid in grids.items():
            compare('%s, %s' % (sy_type, name), make_real(sy_type), grid, 7.0)
            compare('%s, %s (recorded calls)' % (sy_type, name),
                    make_recorded(sy_type), grid, 7.0)
        grid = grids['test grid']
        compare(sy_type + ', default mean', make_real(sy_type), grid)
        compare(sy_type + ', keyword mean', make_real(sy_type), grid,
                mean_storage_mm=-3.25)
        for mean in (0, 3, np.float32(1.5), np.int64(4), -0.0, 1e300,
                     float('inf'), float('nan'), True):
            compare('%s, mean %r' % (sy_type, mean), make_real(sy_type), grid,
                    mean)
        compare(sy_type + ', mean None', make_real(sy_type), grid, None,
                expect='TypeError')
        compare(sy_type + ', mean array', make_real(sy_type), grid,
                np.arange(10.0))
        compare(sy_type + ', mean array of wrong length', make_real(sy_type),
                grid, np.arange(3.0), expect='ValueError')
        # special inputs
        compare(sy_type + ', empty grid', make_recorded(sy_type),
                np.array([], dtype=float), 7.0, expect='IndexError')
        compare(sy_type + ', 0-d grid', make_recorded(sy_type),
                np.array(3.0), 7.0, expect='IndexError')
        compare(sy_type + ', 2-d grid', make_recorded(sy_type),
                np.linspace(-100, 20, 12).reshape(4, 3), 7.0,
                expect='ValueError')
        compare(sy_type + ', 2-d grid with one row', make_recorded(sy_type),
                np.linspace(-100, 20, 3).reshape(1, 3), 7.0)
        compare(sy_type + ', 2-d grid with one column', make_recorded(sy_type),
                np.linspace(-100, 20, 5).reshape(5, 1), 7.0, expect='*')
        compare(sy_type + ', list grid', make_recorded(sy_type),
                [1.0, 2.0, 3.0], 7.0, expect='AttributeError')
        compare(sy_type + ', nan in grid', make_recorded(sy_type),
                np.array([-10.0, float('nan'), 5.0]), 7.0,
                expect='AssertionError')
        compare(sy_type + ', inf in grid', make_recorded(sy_type),
                np.array([-10.0, float('inf'), 5.0]), 7.0, expect='*')
        compare(sy_type + ', object grid', make_recorded(sy_type),
                np.array([-10.0, 4, 5.5], dtype=object), 7.0, expect='*')
        compare(sy_type + ', string grid', make_recorded(sy_type),
                np.array(['a', 'b']), 7.0, expect='*')
        for fail_at in (1, 2, 9):
            compare('%s, integrate fails at call %d' % (sy_type, fail_at),
                    make_recorded(sy_type, fail_at=fail_at), grid, 7.0,
                    expect='RuntimeError')
        # integrate returning other types
        for rname, result in (
                ('python int', lambda a, b: 2),
                ('0-d array', lambda a, b: np.array(b - a)),
                ('1-element array', lambda a, b: np.array([b - a])),
                ('float32', lambda a, b: np.float32(b - a)),
                ('bool', lambda a, b: True),
        ):
            compare('%s, integrate returns %s' % (sy_type, rname),
                    make_recorded(sy_type, result=result), grid, 7.0,
                    expect='*')
        compare(sy_type + ', integrate returns None',
                make_recorded(sy_type, result=lambda a, b: [None]), grid, 7.0,
                expect='*')
        compare(sy_type + ', integrate returns a pair',
                make_recorded(sy_type, result=lambda a, b: (1.0, 2.0)), grid,
                7.0, expect='*')
    compare('no integrate method, several levels', NoIntegrate,
            np.linspace(0, 1, 4), expect='AttributeError')
    compare('no integrate method, single level', NoIntegrate, np.array([2.0]),
            1.0)
    compare('no integrate method, empty', NoIntegrate, np.array([]),
            expect='IndexError')

    print('repeated calls on one object')
    for sy_type in ('spline', 'peatclsm'):
        sy_old, sy_new = make_real(sy_type)(), make_real(sy_type)()
        for name, grid in list(grids.items()) * 2:
            a = OLD.compute_rise_curve(sy_old, grid, 1.25)
            b = NEW.compute_rise_curve(sy_new, grid, 1.25)
            assert freeze(a) == freeze(b), (sy_type, name)
        print('  %s ok' % sy_type)

    print('simulate_rise on the sample data')
    for sample in (1, 2):
        conn = sample_db(sample)
        for sy_type in ('spline', 'peatclsm'):
            for observations_only in (False, True):
                outputs = []
                for mod in (OLD, NEW):
                    out = io.StringIO()
                    with open(os.path.join(
                            SAMPLE, sy_type + '_parameters.yml')) as params:
                        try:
                            mod.simulate_rise(conn, params, out,
                                              observations_only)
                            outputs.append(('ok', out.getvalue()))
                        except BaseException as exc:  # noqa
                            outputs.append(('exc', type(exc).__name__,
                                            str(exc), out.getvalue()))
                assert outputs[0] == outputs[1], (sample, sy_type)
                global N_CASES
                N_CASES += 1
                print('  sample %d %s observations_only=%s: %s, %d bytes'
                      % (sample, sy_type, observations_only, outputs[0][0],
                         len(outputs[0][-1])))
    print('diff_check_3: %d comparisons identical' % N_CASES)


if __name__ == '__main__':
    main()
