"""Differential check for refactor1.diff (classify_intervals split over two
modules, populate_zeta_interval inlined).

Runs the shared scenario set (sample data 1 and 2 with several thresholds,
40 random synthetic databases with 1-3 data intervals, databases with no /
one-row / nonuniform / incomplete data intervals, classify twice, CLI load +
classify) against the pristine package and against the patched copy and
asserts bit-identical outcomes, table contents (with rowids), log records and
exceptions.  populate_zeta_interval no longer exists, so the cases that call
it directly are run on the original only and left out of the comparison.
"""
import dc_common

orig, new = dc_common.main(
    1, skip_keys={
        "cursor/populate_zeta_interval/{}/{}".format(case, interval)
        for case in range(12)
        for interval in (0, 1, 5)
    },
)
# the thresholds row and the "no data intervals" error come from the new module
assert orig["no-intervals"][0] == ("exc", "ValueError", "No valid data intervals found")
assert new["no-intervals"] == orig["no-intervals"]
