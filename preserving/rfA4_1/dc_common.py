"""Shared harness for the differential checks diff_check_K.py

Usage from diff_check_K.py:  dc_common.main(K)

main(K) builds /tmp/rf_A/_new_K (pristine copy of the package + refactorK.diff
applied with patch(1)), then runs this file as a worker twice, once with
PYTHONPATH=/tmp/rf_A/_orig and once with PYTHONPATH=/tmp/rf_A/_new_K, each
writing a pickle of normalised results, and asserts that the two are equal.
"""

import copy
import io
import logging
import os
import pickle
import shutil
import sqlite3
import subprocess
import sys

ROOT = "/tmp/rf_A"
ORIG = os.path.join(ROOT, "_orig")
PYTHON = "/venv/bin/python"


# ---------------------------------------------------------------- normalise
def norm(obj):
    """Turn results into a picklable structure that keeps types and bits"""
    import numpy as np

    if isinstance(obj, np.ndarray):
        return ("ndarray", str(obj.dtype), obj.shape, [norm(v) for v in obj.tolist()])
    if isinstance(obj, np.generic):
        return ("npscalar", str(obj.dtype), norm(obj.item()))
    if isinstance(obj, bool):
        return ("bool", obj)
    if isinstance(obj, float):
        return ("float", obj.hex())
    if isinstance(obj, int):
        return ("int", obj)
    if isinstance(obj, (str, bytes)) or obj is None:
        return obj
    if isinstance(obj, tuple):
        return ("tuple", [norm(v) for v in obj])
    if isinstance(obj, list):
        return ("list", [norm(v) for v in obj])
    if isinstance(obj, dict):
        # keep insertion order: it matters
        return ("dict", [(norm(k), norm(v)) for k, v in obj.items()])
    if isinstance(obj, (set, frozenset)):
        return ("set", sorted(repr(norm(v)) for v in obj))
    if hasattr(obj, "__iter__"):
        return ("iter", [norm(v) for v in obj])
    return ("repr", repr(obj))


def attempt(func, *args, **kwargs):
    """Call and return ('ok', result) or ('exc', type name, message)"""
    try:
        return ("ok", norm(func(*args, **kwargs)))
    except BaseException as exc:  # pylint: disable=broad-except
        return ("exc", type(exc).__name__, str(exc))


class ListHandler(logging.Handler):
    def __init__(self):
        super().__init__()
        self.records = []

    def emit(self, record):
        self.records.append((record.name, record.levelname, record.getMessage()))


# ---------------------------------------------------------------- databases
CLASSIFY_TABLES = (
    "thresholds",
    "grid_time_flags",
    "zeta_interval",
    "storm",
    "zeta_interval_storm",
)


def dump_db(connection):
    out = {}
    for table in CLASSIFY_TABLES:
        out[table] = connection.execute(
            "SELECT rowid, * FROM {} ORDER BY rowid".format(table)
        ).fetchall()
        out[table + "/natural"] = connection.execute(
            "SELECT * FROM {}".format(table)
        ).fetchall()
    return norm(out)


_SAMPLE_CACHE = {}


def sample_connection(sample):
    """Fresh in-memory copy of the loaded sample database (loaded once)"""
    if sample not in _SAMPLE_CACHE:
        _SAMPLE_CACHE[sample] = _load_sample(sample)
    connection = sqlite3.connect(":memory:")
    _SAMPLE_CACHE[sample].backup(connection)
    connection.execute("PRAGMA foreign_keys = 1")
    return connection


def _load_sample(sample):
    import spowtd.load as load_mod

    data_dir = os.path.join(ORIG, "spowtd", "test", "sample_data")
    connection = sqlite3.connect(":memory:")

    def path(kind):
        return os.path.join(data_dir, "{}_{}.txt".format(kind, sample))

    with open(path("precipitation"), "rt", encoding="utf-8-sig") as precip_f, open(
        path("evapotranspiration"), "rt", encoding="utf-8-sig"
    ) as et_f, open(path("water_level"), "rt", encoding="utf-8-sig") as zeta_f:
        load_mod.load_data(
            connection=connection,
            precipitation_data_file=precip_f,
            evapotranspiration_data_file=et_f,
            water_level_data_file=zeta_f,
            time_zone_name="Africa/Lagos",
        )
    return connection


def synthetic_connection(series, time_step_s=3600, epochs=None):
    """Build a database directly

    series: list of (data_interval or None, rain_mm_h, zeta_mm) per grid time.
    """
    schema_path = os.path.join(ORIG, "spowtd", "schema.sql")
    connection = sqlite3.connect(":memory:")
    with open(schema_path, "rt") as schema_file:
        connection.executescript(schema_file.read())
    cursor = connection.cursor()
    cursor.execute(
        "INSERT INTO time_grid (time_step_s, source_time_zone) VALUES (?, 'UTC')",
        (time_step_s,),
    )
    if epochs is None:
        epochs = [1000000 + i * time_step_s for i in range(len(series) + 1)]
    for i, epoch in enumerate(epochs):
        interval = series[i][0] if i < len(series) else None
        cursor.execute(
            "INSERT INTO grid_time (epoch, data_interval) VALUES (?, ?)",
            (epoch, interval),
        )
    for i, (_, rain, zeta) in enumerate(series):
        if rain is not None:
            cursor.execute(
                "INSERT INTO rainfall_intensity VALUES (?, ?, ?)",
                (epochs[i], epochs[i + 1], rain),
            )
        if zeta is not None:
            cursor.execute(
                "INSERT INTO water_level VALUES (?, ?)", (epochs[i], zeta)
            )
    cursor.close()
    connection.commit()
    return connection


def random_series(rng, n_steps, n_intervals=1, gap=3):
    """Random rain / water level with storms that lift the water level"""
    series = []
    zeta = -200.0
    for interval in range(n_intervals):
        for _ in range(n_steps):
            u = rng.random()
            if u < 0.25:
                rain = float(rng.choice([0.0, 1.5, 5.0, 9.0, 12.5, 30.0]))
            elif u < 0.4:
                rain = float(np_round(rng.exponential(6.0)))
            else:
                rain = 0.0
            v = rng.random()
            if rain > 0 and v < 0.8:
                zeta += rain * float(rng.choice([0.5, 1.0, 2.0, 3.0]))
            elif v < 0.05:
                zeta += float(rng.choice([6.0, 10.0, 25.0]))  # mystery jump
            else:
                zeta -= float(rng.choice([0.0, 0.25, 0.5, 1.0]))
            series.append((interval, rain, zeta))
        if interval != n_intervals - 1:
            for _ in range(gap):
                series.append((None, None, None))
    return series


def np_round(value):
    import numpy as np

    return np.round(value, 2)


THRESHOLDS = [(8.0, 5.0), (4.0, 8.0), (2.0, 2.0), (20.0, 20.0), (0.5, 1.0), (0.0, 0.0)]


def classify_db_cases(results, handler):
    import numpy as np
    import spowtd.classify as classify_mod

    def run(label, make_connection, **kwargs):
        connection = make_connection()
        del handler.records[:]
        outcome = attempt(classify_mod.classify_intervals, connection, **kwargs)
        results[label] = (outcome, dump_db(connection), list(handler.records))
        connection.close()

    for sample in (1, 2):
        for storm_thr, jump_thr in THRESHOLDS:
            run(
                "sample{}/{}/{}".format(sample, storm_thr, jump_thr),
                lambda sample=sample: sample_connection(sample),
                storm_rain_threshold_mm_h=storm_thr,
                rising_jump_threshold_mm_h=jump_thr,
            )
        run("sample{}/defaults".format(sample), lambda sample=sample: sample_connection(sample))
    # classify twice on the same database -> IntegrityError on thresholds
    connection = sample_connection(1)
    first = attempt(classify_mod.classify_intervals, connection, 8.0, 5.0)
    second = attempt(classify_mod.classify_intervals, connection, 8.0, 5.0)
    results["sample1/twice"] = (first, second, dump_db(connection))
    connection.close()

    rng = np.random.default_rng(20240927)
    for case in range(40):
        n_intervals = int(rng.integers(1, 4))
        n_steps = int(rng.integers(2, 60))
        series = random_series(rng, n_steps, n_intervals)
        step = int(rng.choice([3600, 1800, 600]))
        for storm_thr, jump_thr in ((4.0, 8.0), (1.0, 2.0), (8.0, 5.0), (-1.0, 0.0)):
            run(
                "synthetic{}/{}/{}".format(case, storm_thr, jump_thr),
                lambda: synthetic_connection(series, step),
                storm_rain_threshold_mm_h=storm_thr,
                rising_jump_threshold_mm_h=jump_thr,
            )
    # Edge cases
    run("no-intervals", lambda: synthetic_connection([(None, None, None)] * 4))
    run("one-row-interval", lambda: synthetic_connection([(0, 1.0, 3.0)]))
    run(
        "two-rows-dry",
        lambda: synthetic_connection([(0, 0.0, 3.0), (0, 0.0, 2.0)]),
    )
    run(
        "all-rain",
        lambda: synthetic_connection([(0, 9.0, float(10 * i)) for i in range(6)]),
    )
    run(
        "all-dry",
        lambda: synthetic_connection([(0, 0.0, float(-i)) for i in range(6)]),
    )
    nonuniform = [1000000, 1003600, 1007200, 1014400, 1018000, 1021600]
    run(
        "nonuniform",
        lambda: synthetic_connection(
            [(0, 0.0, 1.0), (0, 5.0, 9.0), (0, 0.0, 8.0), (0, 0.0, 7.0), (0, 0.0, 6.0)],
            epochs=nonuniform,
        ),
    )
    run(
        "missing-water-level",
        lambda: synthetic_connection(
            [(0, 0.0, 1.0), (0, 5.0, None), (0, 0.0, 8.0), (0, 0.0, 7.0)]
        ),
    )
    run(
        "interval-without-any-water-level",
        lambda: synthetic_connection(
            [(0, 0.0, 1.0), (0, 0.0, 0.5), (None, None, None), (1, 3.0, None), (1, 0.0, None)]
        ),
    )
    # time_grid disagrees with the actual spacing of the epochs, every step
    # counts as storm: a rise starts where an interstorm starts, so the
    # INSERT of the rise fails part-way through match_all_storms
    run(
        "inconsistent-time-grid",
        lambda: synthetic_connection(
            [
                (0, 0.0, 0.0),
                (0, 3.0, 0.0),
                (0, 3.0, 20.0),
                (0, 0.0, 20.0),
                (0, 0.0, 19.0),
                (0, 1.0, 18.0),
                (0, 0.0, 18.0),
                (0, 0.0, 20.0),
                (0, 0.0, 20.0),
                (0, 0.0, 19.0),
            ],
            time_step_s=600,
            epochs=[1000000 + 3600 * i for i in range(11)],
        ),
        storm_rain_threshold_mm_h=2.0,
        rising_jump_threshold_mm_h=6.0,
    )
    run(
        "inconsistent-time-grid-all-storm",
        lambda: synthetic_connection(
            [
                (0, 0.0, 0.0),
                (0, 3.0, 0.0),
                (0, 3.0, 20.0),
                (0, 0.0, 20.0),
                (0, 0.0, 19.0),
                (0, 1.0, 18.0),
                (0, 0.0, 18.0),
                (0, 0.0, 20.0),
                (0, 0.0, 20.0),
                (0, 0.0, 19.0),
            ],
            time_step_s=600,
            epochs=[1000000 + 3600 * i for i in range(11)],
        ),
        storm_rain_threshold_mm_h=-1.0,
        rising_jump_threshold_mm_h=6.0,
    )
    run(
        "storm-shared-by-two-rises",
        lambda: synthetic_connection(
            [
                (0, 0.0, 0.0),
                (0, 9.0, 0.0),
                (0, 9.0, 20.0),
                (0, 9.0, 20.0),
                (0, 9.0, 40.0),
                (0, 0.0, 60.0),
                (0, 0.0, 59.0),
                (0, 9.0, 58.0),
                (0, 0.0, 80.0),
                (0, 0.0, 79.0),
            ]
        ),
    )


def classify_cursor_cases(results, handler):
    """Call the cursor-level functions directly, if they exist"""
    import numpy as np
    import spowtd.classify as classify_mod

    rng = np.random.default_rng(77)
    for case in range(12):
        series = random_series(rng, int(rng.integers(2, 40)), 2)
        for name, extra in (
            ("classify_interstorms", (6.0,)),
            ("match_all_storms", (3.0, 6.0)),
            ("populate_zeta_interval", (3.0, 6.0)),
        ):
            func = getattr(classify_mod, name, None)
            if func is None:
                continue
            for data_interval in (0, 1, 5):
                connection = synthetic_connection(series)
                cursor = connection.cursor()
                del handler.records[:]
                outcome = attempt(func, cursor, data_interval, *extra)
                results["cursor/{}/{}/{}".format(name, case, data_interval)] = (
                    outcome,
                    dump_db(connection),
                    list(handler.records),
                )
                connection.close()


def cursor_edge_cases(results, handler):
    """Bad input handed directly to the cursor-level functions"""
    import spowtd.classify as classify_mod

    databases = {
        "nonuniform": lambda: synthetic_connection(
            [(0, 0.0, 1.0), (0, 5.0, 9.0), (0, 0.0, 8.0), (0, 0.0, 7.0), (0, 0.0, 6.0)],
            epochs=[1000000, 1003600, 1007200, 1014400, 1018000, 1021600],
        ),
        "one-row": lambda: synthetic_connection([(0, 1.0, 3.0)]),
        "no-time-grid": lambda: _without_time_grid(
            synthetic_connection([(0, 0.0, 1.0), (0, 5.0, 9.0), (0, 0.0, 8.0)])
        ),
    }
    for label, make_connection in databases.items():
        for name, extra in (
            ("classify_interstorms", (6.0,)),
            ("match_all_storms", (3.0, 6.0)),
        ):
            func = getattr(classify_mod, name)
            connection = make_connection()
            del handler.records[:]
            outcome = attempt(func, connection.cursor(), 0, *extra)
            results["cursor-edge/{}/{}".format(name, label)] = (
                outcome,
                dump_db(connection),
                list(handler.records),
            )
            connection.close()


def _without_time_grid(connection):
    connection.execute("DELETE FROM time_grid")
    return connection


def array_cases(results, handler):
    import numpy as np
    import spowtd.classify as classify_mod

    rng = np.random.default_rng(4242)
    for case in range(300):
        n = int(rng.integers(2, 50))
        rain = np.where(rng.random(n) < 0.35, np.round(rng.exponential(8.0, n), 1), 0.0)
        increments = np.where(
            rng.random(n) < 0.6,
            rain * rng.choice([0.0, 0.5, 1.0, 2.0], n),
            rng.choice([-1.0, -0.5, 0.0, 7.0], n),
        )
        if case % 3 == 0:
            # delayed response: rises lag storms by one step
            increments = np.roll(increments, 1)
        head = np.cumsum(increments)
        for rain_thr, jump_thr in ((4.0, 3.0), (0.0, 0.0), (10.0, 6.0)):
            del handler.records[:]
            outcome = attempt(classify_mod.match_storms, rain, head, rain_thr, jump_thr)
            results["match_storms/{}/{}/{}".format(case, rain_thr, jump_thr)] = (
                outcome,
                list(handler.records),
            )
    # integer-valued and bad inputs
    results["match_storms/int"] = attempt(
        classify_mod.match_storms,
        np.array([0, 9, 9, 0, 0, 9, 0]),
        np.array([0, 0, 10, 20, 20, 20, 30]),
        4,
        5,
    )
    results["match_storms/length-mismatch"] = attempt(
        classify_mod.match_storms,
        np.array([0.0, 9.0, 0.0]),
        np.array([0.0, 0.0, 10.0, 10.0, 10.0]),
        4.0,
        5.0,
    )
    results["match_storms/empty"] = attempt(
        classify_mod.match_storms, np.array([]), np.array([]), 4.0, 5.0
    )
    results["match_storms/lists"] = attempt(
        classify_mod.match_storms, [0.0, 9.0, 0.0], [0.0, 0.0, 10.0], 4.0, 5.0
    )

    # get_candidate_match_intervals, valid and invalid
    func = getattr(classify_mod, "get_candidate_match_intervals", None)
    if func is not None:
        head = np.array([0.0, 0.0, 10.0, 20.0, 20.0, 19.0, 30.0, 30.0])
        is_raining = np.array([False, True, True, False, False, True, False, False])
        rain_masks = list(classify_mod.get_true_interval_masks(is_raining))
        jump_masks = list(classify_mod.get_true_interval_masks(np.diff(head) > 5.0))
        bad_rain_mask = np.array([False, True, False, False, False, False, False, False])
        bad_jump_mask = np.array([False, True, False, False, False, False, False])
        wide_jump_mask = np.array([True, True, True, False, False, False, False])
        late_jump_mask = np.array([False, False, True, False, False, False, False])
        empty_mask = np.zeros(8, bool)
        k = 0
        late_rain_mask = np.array([False, False, True, False, False, False, False, False])
        for masks in (
            rain_masks,
            [bad_rain_mask],
            [late_rain_mask],
            [empty_mask],
            [~is_raining],
        ):
            for jump_mask in jump_masks + [
                bad_jump_mask,
                wide_jump_mask,
                late_jump_mask,
                empty_mask[:-1],
            ]:
                for storm_index in range(len(masks)):
                    for thr in (5.0, 15.0):
                        results["candidate/{}".format(k)] = attempt(
                            func, head, thr, is_raining, masks, jump_mask, storm_index
                        )
                        k += 1
        results["candidate/index-error"] = attempt(
            func, head, 5.0, is_raining, rain_masks, jump_masks[0], 7
        )

    # disambiguate_matching on random many-to-many relations
    for case in range(400):
        n_storms = int(rng.integers(1, 7))
        n_jumps = int(rng.integers(1, 7))
        storm_starts = sorted(rng.choice(60, n_storms, replace=False))
        jump_starts = sorted(rng.choice(60, n_jumps, replace=False))
        storms = [(s, s + rng.integers(1, 6)) for s in storm_starts]
        jumps = [(j, j + rng.integers(2, 7)) for j in jump_starts]
        if case % 2:
            storms = [(int(a), int(b)) for a, b in storms]
            jumps = [(int(a), int(b)) for a, b in jumps]
        n_pairs = int(rng.integers(0, 12))
        rain_intervals = []
        jump_intervals = []
        for _ in range(n_pairs):
            rain_intervals.append(storms[int(rng.integers(n_storms))])
            jump_intervals.append(jumps[int(rng.integers(n_jumps))])
        results["disambiguate/{}".format(case)] = attempt(
            classify_mod.disambiguate_matching, rain_intervals, jump_intervals
        )
    results["disambiguate/mismatch"] = attempt(
        classify_mod.disambiguate_matching, [(0, 1)], []
    )
    results["disambiguate/bad-item"] = attempt(
        classify_mod.disambiguate_matching, [(0, 1, 2)], [(0, 2)]
    )
    results["disambiguate/empty"] = attempt(classify_mod.disambiguate_matching, [], [])

    # find_stable_matching on random preference structures; inputs are
    # mutated, so record them afterwards too
    for case in range(400):
        n_storms = int(rng.integers(0, 7))
        n_jumps = int(rng.integers(1, 7))
        storm_candidates = {}
        jump_preferences = {j: {} for j in range(100, 100 + n_jumps)}
        for storm in rng.permutation(n_storms):
            storm = int(storm)
            count = int(rng.integers(0, n_jumps + 1))
            candidates = [int(j) + 100 for j in rng.permutation(n_jumps)[:count]]
            storm_candidates[storm] = candidates
            for jump in candidates:
                jump_preferences[jump][storm] = -float(rng.integers(0, 4))
        candidates_arg = copy.deepcopy(storm_candidates)
        preferences_arg = copy.deepcopy(jump_preferences)
        outcome = attempt(
            classify_mod.find_stable_matching, candidates_arg, preferences_arg
        )
        results["stable/{}".format(case)] = (
            outcome,
            norm(candidates_arg),
            norm(preferences_arg),
        )
    results["stable/missing-preference"] = attempt(
        classify_mod.find_stable_matching, {1: [5], 2: [5]}, {5: {1: 0.0}}
    )

    # small helpers
    for name, args in (
        ("check_for_uniform_time_steps", (np.array([0, 1, 2, 4]),)),
        ("check_for_uniform_time_steps", (np.array([0, 1, 2, 3]),)),
        ("check_for_uniform_time_steps", (np.array([5]),)),
        ("assert_equal", (1, 2, "msg")),
        ("assert_equal", (1, 2)),
        ("assert_equal", (1, 1)),
        ("convert_epoch_to_datetime_text", (1000000,)),
        ("get_true_interval_masks", (np.array([True, False, True, True]),)),
        ("get_true_interval_masks", (np.array([1, 0]),)),
        (
            "get_mystery_jump_mask",
            (
                np.array([False, True, False, False, True]),
                np.array([True, False, False, True, False]),
            ),
        ),
        ("get_mystery_jump_mask", (np.array([False]), np.array([True, False]))),
    ):
        func = getattr(classify_mod, name, None)
        if func is not None:
            results["helper/{}/{}".format(name, norm(args))] = attempt(func, *args)


def module_surface(results):
    """Names that were public in the original module must still resolve"""
    import spowtd.classify as classify_mod

    for name in (
        "classify_intervals",
        "classify_interstorms",
        "match_all_storms",
        "match_storms",
        "get_candidate_match_intervals",
        "disambiguate_matching",
        "find_stable_matching",
        "check_for_uniform_time_steps",
        "get_mystery_jump_mask",
        "get_true_interval_masks",
        "assert_equal",
        "convert_epoch_to_datetime_text",
    ):
        results["has/" + name] = callable(getattr(classify_mod, name, None))


def cli_cases(results):
    """Run the command-line steps load + classify on files"""
    import tempfile
    import spowtd.user_interface as cli_mod

    data_dir = os.path.join(ORIG, "spowtd", "test", "sample_data")
    for sample in (2,):
        with tempfile.TemporaryDirectory(dir="/tmp") as tmp:
            db_path = os.path.join(tmp, "s.sqlite3")
            load = attempt(
                cli_mod.main,
                [
                    "load",
                    db_path,
                    "-p",
                    os.path.join(data_dir, "precipitation_{}.txt".format(sample)),
                    "-e",
                    os.path.join(data_dir, "evapotranspiration_{}.txt".format(sample)),
                    "-z",
                    os.path.join(data_dir, "water_level_{}.txt".format(sample)),
                    "--timezone",
                    "Africa/Lagos",
                ],
            )
            classify = attempt(
                cli_mod.main, ["classify", db_path, "-s", "8.0", "-j", "5.0"]
            )
            again = attempt(
                cli_mod.main, ["classify", db_path, "-s", "8.0", "-j", "5.0"]
            )
            connection = sqlite3.connect(db_path)
            results["cli/{}".format(sample)] = (load, classify, again, dump_db(connection))
            connection.close()


def worker(out_path):
    import spowtd.classify as classify_mod

    assert os.path.dirname(os.path.dirname(classify_mod.__file__)) == os.environ[
        "DC_EXPECT_ROOT"
    ], classify_mod.__file__
    handler = ListHandler()
    logging.getLogger("spowtd").addHandler(handler)
    logging.getLogger("spowtd").setLevel(logging.DEBUG)
    results = {}
    module_surface(results)
    classify_db_cases(results, handler)
    classify_cursor_cases(results, handler)
    cursor_edge_cases(results, handler)
    array_cases(results, handler)
    cli_cases(results)
    with open(out_path, "wb") as out_file:
        pickle.dump(results, out_file)


def main(k, skip_keys=()):
    new_root = os.path.join(ROOT, "_new_{}".format(k))
    if os.path.exists(new_root):
        shutil.rmtree(new_root)
    shutil.copytree(ORIG, new_root)
    with open(os.path.join(ROOT, "refactor{}.diff".format(k)), "rb") as patch_file:
        subprocess.run(
            ["patch", "-p1", "-s", "-d", new_root], stdin=patch_file, check=True
        )
    pickles = []
    processes = []
    for label, root in (("orig", ORIG), ("new", new_root)):
        out_path = os.path.join(ROOT, "_dc_{}_{}.pickle".format(k, label))
        env = dict(os.environ, PYTHONPATH=root, DC_EXPECT_ROOT=root)
        env["PYTHONHASHSEED"] = "0"
        with open(out_path + ".stderr", "wb") as err_file:
            processes.append(
                (
                    out_path,
                    subprocess.Popen(
                        [PYTHON, os.path.abspath(__file__), "--worker", out_path],
                        env=env,
                        cwd="/tmp",
                        stderr=err_file,
                    ),
                )
            )
    for out_path, process in processes:
        if process.wait() != 0:
            with open(out_path + ".stderr", "rt") as err_file:
                sys.stderr.write(err_file.read()[-3000:])
            raise AssertionError("worker failed")
        with open(out_path, "rb") as in_file:
            pickles.append(pickle.load(in_file))
    orig, new = pickles
    assert list(orig) == list(new) or set(skip_keys), (
        set(orig) ^ set(new)
    )
    n_compared = 0
    n_exceptions = 0
    for key, value in orig.items():
        if key in skip_keys:
            continue
        assert key in new, "missing in refactored run: {}".format(key)
        assert new[key] == value, "DIFFERENCE at {}:\n{}\n{}".format(
            key, value, new[key]
        )
        n_compared += 1
        if "'exc'" in repr(value):
            n_exceptions += 1
    for key in new:
        assert key in orig or key in skip_keys, "extra in refactored run: " + key
    print(
        "diff_check_{}: {} cases identical ({} of them involve an exception)".format(
            k, n_compared, n_exceptions
        )
    )
    shutil.rmtree(new_root)
    return orig, new


if __name__ == "__main__":
    if sys.argv[1] == "--worker":
        # the script directory holds the work tree's package: drop it
        sys.path = [p for p in sys.path if os.path.abspath(p or ".") != ROOT]
        worker(sys.argv[2])
