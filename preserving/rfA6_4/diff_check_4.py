"""Differential check for refactor4.diff (get_true_interval_masks)

Loads spowtd/classify.py twice, once from git HEAD and once from HEAD with
refactor4.diff applied (in a temporary directory), and compares

 - get_true_interval_masks (type of the returned iterator, number, dtype,
   shape and bytes of the masks, or the exception) on hand-written and
   random boolean vectors (empty, all True, all False, alternating, views,
   read-only) and on bad input (integer / float dtype, list, 2-D, 0-d);
 - its users classify_interstorms / match_storms through classify_intervals
   on the two sample data sets and on synthetic databases (full database
   dump compared), and match_storms on random series.

Run as:  cd /tmp/rf_A && PYTHONPATH=/tmp/rf_A /venv/bin/python diff_check_4.py
"""

import copy
import importlib.util
import os
import random
import shutil
import sqlite3
import subprocess
import sys
import tempfile

import numpy as np

HERE = os.path.dirname(os.path.abspath(__file__))
K = 4


def load_variants():
    """Return (original module, refactored module)"""
    tmp = tempfile.mkdtemp(prefix="diffcheck_", dir=HERE)
    try:
        source = subprocess.check_output(
            ["git", "-C", HERE, "show", "HEAD:spowtd/classify.py"]
        )
        modules = []
        for name in ("orig", "new"):
            os.makedirs(os.path.join(tmp, name, "spowtd"))
            path = os.path.join(tmp, name, "spowtd", "classify.py")
            with open(path, "wb") as f:
                f.write(source)
            if name == "new":
                with open(os.path.join(HERE, f"refactor{K}.diff"), "rb") as patch:
                    subprocess.check_call(
                        ["patch", "-s", "-p1", "-d", os.path.join(tmp, name)],
                        stdin=patch,
                    )
                with open(path, "rb") as f:
                    assert f.read() != source, "patch changed nothing"
            spec = importlib.util.spec_from_file_location(f"classify_{name}", path)
            module = importlib.util.module_from_spec(spec)
            spec.loader.exec_module(module)
            modules.append(module)
        return tuple(modules)
    finally:
        shutil.rmtree(tmp)


def describe(obj):
    """Exact, type-revealing description of a nested result"""
    if isinstance(obj, dict):
        return ("dict", [(describe(k), describe(v)) for k, v in obj.items()])
    if isinstance(obj, (list, tuple)):
        return (type(obj).__name__, [describe(v) for v in obj])
    if isinstance(obj, np.ndarray):
        return ("ndarray", str(obj.dtype), obj.shape, obj.tobytes())
    return (type(obj).__name__, repr(obj))


def outcome(function, *args):
    """Result or exception of a call"""
    try:
        return ("ok", describe(function(*args)))
    except Exception as exc:  # pylint: disable=broad-except
        return ("raised", type(exc).__name__, str(exc))


def random_series(rng):
    """Random rain and head series with overlapping storms and rises"""
    n = rng.randint(2, 120)
    rain = np.zeros(n)
    head = np.zeros(n)
    level = 0.0
    raining = False
    rising = False
    for i in range(n):
        if rng.random() < 0.25:
            raining = not raining
        if rng.random() < 0.3:
            rising = not rising
        rain[i] = rng.choice([5.0, 9.0, 20.0]) if raining else rng.choice([0.0, 1.0])
        level += rng.choice([2.0, 3.0, 7.0]) if rising else rng.choice([-0.5, 0.0, 0.5])
        head[i] = level
    return rain, head



SCHEMA_PATH = os.path.join(HERE, "spowtd", "schema.sql")
DATA_DIR = os.path.join(HERE, "spowtd", "test", "sample_data")


def dump(connection):
    """All tables, all rows, in rowid order"""
    tables = [
        row[0]
        for row in connection.execute(
            "SELECT name FROM sqlite_master WHERE type = 'table' ORDER BY name"
        )
    ]
    return {
        table: [
            tuple((type(v).__name__, repr(v)) for v in row)
            for row in connection.execute(f"SELECT rowid, * FROM {table} ORDER BY rowid")
        ]
        for table in tables
    }


def load_sample(path, sample):
    """Create a database file with a sample data set loaded"""
    import spowtd.load as load_mod  # unchanged by the patch

    connection = sqlite3.connect(path)
    with open(
        os.path.join(DATA_DIR, f"precipitation_{sample}.txt"),
        "rt",
        encoding="utf-8-sig",
    ) as precip_f, open(
        os.path.join(DATA_DIR, f"evapotranspiration_{sample}.txt"),
        "rt",
        encoding="utf-8-sig",
    ) as et_f, open(
        os.path.join(DATA_DIR, f"water_level_{sample}.txt"),
        "rt",
        encoding="utf-8-sig",
    ) as zeta_f:
        load_mod.load_data(
            connection=connection,
            precipitation_data_file=precip_f,
            evapotranspiration_data_file=et_f,
            water_level_data_file=zeta_f,
            time_zone_name="Africa/Lagos",
        )
    connection.commit()
    connection.close()


def build_synthetic(path, segments, rng, time_step_s=3600):
    """Create a database with the given (label or None, length) segments"""
    connection = sqlite3.connect(path)
    cursor = connection.cursor()
    with open(SCHEMA_PATH, "rt") as schema_file:
        cursor.executescript(schema_file.read())
    cursor.execute(
        "INSERT INTO time_grid (source_time_zone, time_step_s) VALUES ('UTC', ?)",
        (time_step_s,),
    )
    epoch = 1_600_000_000
    grid = []
    for label, length in segments:
        rain, head = random_series(rng)
        if length is None:
            length = len(rain)
        while len(rain) < length:
            more_rain, more_head = random_series(rng)
            rain = np.concatenate((rain, more_rain))
            head = np.concatenate((head, more_head + head[-1]))
        rain, head = rain[:length], head[:length]
        for k in range(length):
            grid.append((epoch, label, float(rain[k]), float(head[k])))
            epoch += time_step_s
    grid.append((epoch, None, 0.0, 0.0))
    cursor.executemany(
        "INSERT INTO grid_time (epoch, data_interval) VALUES (?, ?)",
        [(t, label) for t, label, _, _ in grid],
    )
    cursor.executemany(
        "INSERT INTO rainfall_intensity (from_epoch, thru_epoch, "
        "rainfall_intensity_mm_h) VALUES (?, ?, ?)",
        [(t, t + time_step_s, rain) for t, _, rain, _ in grid[:-1]],
    )
    cursor.executemany(
        "INSERT INTO water_level (epoch, zeta_mm) VALUES (?, ?)",
        [(t, head) for t, label, _, head in grid if label is not None],
    )
    connection.commit()
    connection.close()


def run(module, template, workdir, name, thresholds, calls=1):
    """classify_intervals on a copy of template; outcome and dumps"""
    path = os.path.join(workdir, name + ".sqlite3")
    shutil.copyfile(template, path)
    connection = sqlite3.connect(path)
    connection.execute("PRAGMA foreign_keys = 1")
    outcomes = []
    for _ in range(calls):
        try:
            outcomes.append(("ok", repr(module.classify_intervals(connection, *thresholds))))
        except Exception as exc:  # pylint: disable=broad-except
            outcomes.append(("raised", type(exc).__name__, str(exc)))
    same_connection = dump(connection)
    other = sqlite3.connect(path)
    committed = dump(other)
    other.close()
    connection.close()
    os.remove(path)
    return (outcomes, same_connection, committed)



def masks_outcome(module, vector):
    """Type of the iterator and the masks it yields, or the exception"""
    try:
        result = module.get_true_interval_masks(vector)
        return ("ok", type(result).__name__, describe(list(result)))
    except Exception as exc:  # pylint: disable=broad-except
        return ("raised", type(exc).__name__, str(exc))


def main():
    orig, new = load_variants()
    rng = random.Random(20260927)
    n_cases = 0

    vectors = [
        np.array([], dtype=bool),
        np.array([True]),
        np.array([False]),
        np.ones(7, bool),
        np.zeros(7, bool),
        np.array([True, False] * 9),
        np.array([False, True] * 9),
        np.array([True, True, False, False, True, False, True, True, True]),
        np.array([False, True, True, False])[::-1],  # view
        np.arange(10) % 3 == 0,
        # bad input
        np.array([0, 1, 1, 0]),
        np.array([0.0, 1.0]),
        np.array([], dtype=float),
        [True, False],
        np.array([[True, False], [False, True]]),
        np.array(True),
        np.array([True, None], dtype=object),
        None,
    ]
    read_only = np.array([True, False, True, True])
    read_only.setflags(write=False)
    vectors.append(read_only)
    for vector in vectors:
        a = masks_outcome(orig, vector)
        b = masks_outcome(new, vector)
        assert a == b, (vector, a, b)
        n_cases += 1
    for _ in range(6000):
        n = rng.choice([1, 2, 3, 5, 8, 40, 300])
        p = rng.choice([0.05, 0.3, 0.5, 0.9])
        vector = np.array([rng.random() < p for _ in range(n)], dtype=bool)
        before = vector.copy()
        a = masks_outcome(orig, vector)
        b = masks_outcome(new, vector)
        assert a == b, (vector, a, b)
        assert a[0] == "ok" and a[1] == "generator"
        assert (vector == before).all()
        n_cases += 1

    for _ in range(1000):
        rain, head = random_series(rng)
        args = (rain, head, rng.choice([4.0, 8.0]), rng.choice([1.0, 2.5, 5.0]))
        a = outcome(orig.match_storms, *args)
        b = outcome(new.match_storms, *args)
        assert a == b, (rain, head, a, b)
        n_cases += 1

    workdir = tempfile.mkdtemp(prefix="diffcheck_db_", dir=HERE)
    try:
        template = os.path.join(workdir, "template.sqlite3")

        def compare(thresholds):
            nonlocal n_cases
            a = run(orig, template, workdir, "orig", thresholds)
            b = run(new, template, workdir, "new", thresholds)
            assert a == b, (thresholds, a[0], b[0])
            n_cases += 1
            return a

        for sample in (1, 2):
            load_sample(template, sample)
            for thresholds in [(8.0, 5.0), (), (1.0, 1.0)]:
                result = compare(thresholds)
                assert result[0] == [("ok", "None")], result[0]
                assert result[2]["zeta_interval"], "nothing classified"
            os.remove(template)
        for _ in range(40):
            labels = rng.sample(range(0, 40), rng.randint(1, 4))
            layout = []
            for label in labels:
                if rng.random() < 0.5:
                    layout.append((None, rng.randint(1, 5)))
                layout.append((label, None))
            build_synthetic(template, layout, rng)
            compare((rng.choice([4.0, 8.0]), rng.choice([1.0, 2.5, 5.0])))
            os.remove(template)
    finally:
        shutil.rmtree(workdir)
    print(f"diff_check_{K}: OK ({n_cases} cases identical)")


if __name__ == "__main__":
    sys.exit(main())
