"""Differential check for refactor5 (user_interface.main: run_step helper opens the database).

Usage: PYTHONPATH=/tmp/rf_D /venv/bin/python diff_check_5.py [-v]
"""
import copy
import os
import pickle
import subprocess
import sys
import tempfile

HERE = os.path.dirname(os.path.abspath(__file__))


def norm(value):
    """Exact, picklable representation of a result"""
    import numpy as np
    if isinstance(value, np.ndarray):
        return ('ndarray', str(value.dtype), value.shape, value.tobytes())
    if isinstance(value, np.generic):
        return ('npscalar', str(value.dtype), value.tobytes())
    if isinstance(value, float):
        return ('float', value.hex())
    if isinstance(value, (list, tuple)):
        return (type(value).__name__, [norm(v) for v in value])
    if isinstance(value, dict):
        return ('dict', [(norm(k), norm(v)) for k, v in value.items()])
    return (type(value).__name__, repr(value))


def attempt(func):
    try:
        return ('ok', norm(func()))
    except BaseException as exc:  # pylint: disable=broad-except
        return ('exc', type(exc).__name__, str(exc), repr(exc.args))


def scenarios():
    import contextlib
    import io
    import sqlite3
    import tempfile
    import warnings
    os.environ['MPLBACKEND'] = 'Agg'
    warnings.simplefilter('ignore')
    import numpy as np
    import matplotlib
    matplotlib.use('Agg')
    import matplotlib.pyplot as plt
    import spowtd.user_interface as ui_mod
    import spowtd
    sample = os.path.join(os.path.dirname(spowtd.__file__), 'test', 'sample_data')
    results = []
    figures = []

    def record_show(*args, **kwargs):
        """Stand-in for plt.show: record what was drawn"""
        drawn = []
        for number in plt.get_fignums():
            for axes in plt.figure(number).axes:
                for line in axes.lines:
                    for data in (line.get_xdata(), line.get_ydata()):
                        data = np.asarray(data)
                        if data.dtype == object:
                            drawn.append([repr(v) for v in data])
                        else:
                            drawn.append(data)
                drawn.append([axes.get_xlabel(), axes.get_ylabel()])
        figures.append(drawn)
        plt.close('all')

    plt.show = record_show

    def dump(db_path):
        if not os.path.exists(db_path):
            return None
        connection = sqlite3.connect(db_path)
        try:
            return list(connection.iterdump())
        finally:
            connection.close()

    def cli(argv, db_path=None, out_path=None):
        """Run the CLI; record return value or exception, stdout,
        database contents and any output file"""
        stdout = io.StringIO()
        stderr = io.StringIO()
        del figures[:]
        with contextlib.redirect_stdout(stdout), \
                contextlib.redirect_stderr(stderr):
            outcome = attempt(lambda: ui_mod.main(argv))
        record = [outcome, stdout.getvalue(), norm(list(figures))]
        if outcome[0] == 'exc' and outcome[1] == 'SystemExit':
            record.append(stderr.getvalue())
        if db_path is not None:
            record.append(dump(db_path))
        if out_path is not None and os.path.exists(out_path):
            with open(out_path, 'rb') as f:
                record.append(f.read())
        return record

    @contextlib.contextmanager
    def fixed_directory():
        """Scratch directory with the same name in both runs, so that
        paths appearing in messages compare equal"""
        import shutil
        path = os.path.join(HERE, '_work5')
        shutil.rmtree(path, ignore_errors=True)
        os.mkdir(path)
        try:
            yield path
        finally:
            shutil.rmtree(path, ignore_errors=True)

    for sample_no in (1, 2):
        with fixed_directory() as tmp:
            db = os.path.join(tmp, 'data.sqlite3')
            data = {key: os.path.join(sample, '%s_%d.txt' % (key, sample_no))
                    for key in ('precipitation', 'evapotranspiration',
                                'water_level')}
            load_argv = ['load', db, '-p', data['precipitation'],
                         '-e', data['evapotranspiration'],
                         '-z', data['water_level'],
                         '--timezone', 'Africa/Lagos']

            def step(name, argv, out_path=None):
                results.append((sample_no, name, ('ok', norm(
                    cli(argv, db, out_path)))))
            # Steps run out of order fail and leave the database as it was
            step('classify-before-load',
                 ['classify', db, '-s', '8.0', '-j', '5.0'])
            step('rise-before-load', ['rise', db])
            step('load', load_argv)
            step('load-again', load_argv)
            step('recession-before-classify', ['recession', db])
            step('classify', ['classify', db, '-s', '8.0', '-j', '5.0'])
            step('classify-again', ['classify', db, '-s', '4.0', '-j', '5.0'])
            step('set-zeta-grid', ['set-zeta-grid', db, '-d', '1.0'])
            step('recession', ['recession', db, '-vv', '--logfile',
                               os.path.join(tmp, 'log.txt')])
            step('rise', ['rise', db, '-r', '-100.0'])
            # Sample 1 has no grid point at -100 mm, so the step above
            # fails there and is rolled back; this one then succeeds.
            step('rise-default', ['rise', db])
            step('set-curvature', ['set-curvature', db, '1.5'])
            step('set-curvature-again', ['set-curvature', db, '2.5'])
            for kind in ('peatclsm', 'spline'):
                pars = os.path.join(sample, kind + '_parameters.yml')
                out = os.path.join(tmp, 'out-%s.txt' % kind)
                step('simulate-rise-' + kind,
                     ['simulate', 'rise', db, pars, '-o', out], out)
                step('simulate-rise-obs-' + kind,
                     ['simulate', 'rise', db, pars, '--observations',
                      '-o', out], out)
                if kind == 'spline':
                    step('simulate-recession-' + kind,
                         ['simulate', 'recession', db, pars, '-o', out], out)
                    step('simulate-recession-obs-' + kind,
                         ['simulate', 'recession', db, pars,
                          '--observations', '-o', out], out)
                for target in ('rise', 'curves'):
                    for file_type in ('tpl', 'ins', 'pst'):
                        step('pestfiles-%s-%s-%s' % (target, file_type, kind),
                             ['pestfiles', target, db, pars, file_type,
                              '-o', out], out)
                step('pestfiles-stdout-' + kind,
                     ['pestfiles', 'rise', db, pars, 'ins'])
                step('plot-sy-dump-' + kind,
                     ['plot', 'specific-yield', pars, '-40', '10', '-n', '7',
                      '--dump', out], out)
                if kind == 'spline':
                    step('plot-T-dump-' + kind,
                         ['plot', 'transmissivity', pars, '-25', '10', '-n',
                          '5', '--dump', out], out)
                    step('plot-sy-' + kind,
                         ['plot', 'specific-yield', pars, '-40', '10', '-n',
                          '7'])
                    step('plot-rise-' + kind, ['plot', 'rise', db, '-p', pars])
            step('plot-time-series', ['plot', 'time-series', db, '-f'])
            step('plot-recession', ['plot', 'recession', db])
            step('plot-rise', ['plot', 'rise', db])
            step('plot-conductivity',
                 ['plot', 'conductivity',
                  os.path.join(sample, 'spline_parameters.yml'), '-40', '10'])
            # Missing sub-commands, bad arguments
            for argv in (['plot'], ['simulate'], ['pestfiles'], [],
                         ['--version'], ['bogus'], ['simulate', 'bogus', db],
                         ['pestfiles', 'rise', db], ['set-curvature', db],
                         ['classify', db]):
                step('argv-%r' % (argv[:2],), argv)
            # Database that cannot be opened
            missing = os.path.join(tmp, 'no', 'such', 'dir.sqlite3')
            for argv in (['rise', missing], ['set-curvature', missing, '1'],
                         ['plot', 'time-series', missing],
                         ['simulate', 'rise', missing,
                          os.path.join(sample, 'spline_parameters.yml')],
                         ['pestfiles', 'curves', missing,
                          os.path.join(sample, 'spline_parameters.yml'),
                          'ins'],
                         ['set-zeta-grid', missing],
                         ['classify', missing, '-s', '1', '-j', '1'],
                         ['recession', missing]):
                step('missing-db-%r' % (argv[:2],), argv)
            results.append((sample_no, 'files', ('ok', norm(
                sorted(os.listdir(tmp))))))
    return results


def main():
    if len(sys.argv) == 4 and sys.argv[1] == 'run':
        # The script directory is sys.path[0]; make sure the requested
        # copy of the package is the one imported.
        sys.path[:] = [sys.argv[3]] + [
            p for p in sys.path if os.path.abspath(p or '.') != HERE]
        import spowtd
        assert os.path.dirname(os.path.dirname(
            os.path.abspath(spowtd.__file__))) == sys.argv[3], spowtd.__file__
        with open(sys.argv[2], 'wb') as f:
            pickle.dump(scenarios(), f)
        return 0
    outputs = []
    with tempfile.TemporaryDirectory() as tmp:
        for label, root in (('orig', os.path.join(HERE, 'orig_pkg')),
                            ('new', os.environ.get('RF_NEW_ROOT', HERE))):
            out = os.path.join(tmp, label + '.pkl')
            env = dict(os.environ, PYTHONPATH=root,
                       PYTHONDONTWRITEBYTECODE='1')
            subprocess.check_call(
                [sys.executable, os.path.abspath(__file__), 'run', out, root],
                env=env, cwd=tmp)
            with open(out, 'rb') as f:
                outputs.append(pickle.load(f))
    orig, new = outputs
    assert len(orig) == len(new)
    for a, b in zip(orig, new):
        assert a == b, (repr(a)[:2000], repr(b)[:2000])
    if '-v' in sys.argv:
        for r in orig:
            print(r[:2], repr(r[2][1][1][0])[:300]
                  if r[2][1][0] == 'list' else 'ok')
    n_exc = sum(1 for r in orig if r[2][0] == 'exc')
    print('diff_check_5: {} scenarios identical ({} raise)'.format(
        len(orig), n_exc))
    return 0


if __name__ == '__main__':
    sys.exit(main())
