"""Differential check for refactor3.diff (match_all_storms)"""
import diff_common as dc

orig, new = dc.load_variants(3)


def direct(base, label, calls, prepare=None, patch=None):
    """match_all_storms alone on copies of base; compare outcome, logs, tables"""
    results = []
    for module in (orig, new):
        connection = dc.clone(base)
        cursor = connection.cursor()
        if prepare is not None:
            prepare(cursor)
        saved = module.match_storms
        if patch is not None:
            module.match_storms = patch
        try:
            outcomes = [dc.run(module.match_all_storms, cursor, *args) for args in calls]
        finally:
            module.match_storms = saved
        results.append((outcomes, dc.dump(connection)))
        connection.close()
    assert results[0] == results[1], (label, results[0][0], results[1][0])
    print(
        f"  {label}:",
        [o[0][0] if o[0][0] == "ok" else o[0][1:] for o in results[0][0]],
        len(results[0][1]["storm"]), "storms",
    )
    return results[0]


print("match_all_storms alone:")
for sample in (1, 2):
    base = dc.sample_db(sample)
    direct(base, f"sample {sample}", [(1, 8.0, 5.0), (2, 8.0, 5.0), (77, 8.0, 5.0)])
    direct(base, f"sample {sample} defaults", [(1, 4.0, 8.0), (2, 4.0, 8.0)])
    base.close()
for seed in range(10):
    base = dc.synthetic_db(seed, gap=seed % 2 == 0)
    direct(base, f"synthetic {seed}", [(1, 8.0, 5.0), (2, 8.0, 5.0)])
    direct(base, f"synthetic {seed} low", [(1, 0.5, 0.2), (2, 0.5, 0.2)])
    # after interstorm classification, as in production
    direct(
        base, f"synthetic {seed} after interstorms", [(1, 8.0, 5.0)],
        prepare=lambda cursor: orig.classify_interstorms(cursor, 1, 5.0),
    )
    base.close()

print("duplicate-storm branches:")
base = dc.synthetic_db(3, gap=False)
reference = direct(base, "reference", [(1, 8.0, 5.0)])
storms = [eval(row) for row in reference[1]["storm"]]  # (rowid, start, thru)
for which in (0, len(storms) // 2, len(storms) - 1):
    _, start, thru = storms[which]

    def same(cursor, start=start, thru=thru):
        cursor.execute("INSERT INTO storm (start_epoch, thru_epoch) VALUES (?, ?)", (start, thru))

    def other_thru(cursor, start=start, thru=thru):
        cursor.execute(
            "INSERT INTO storm (start_epoch, thru_epoch) VALUES (?, ?)", (start, thru + 1800)
        )

    def other_start(cursor, start=start, thru=thru):
        cursor.execute(
            "INSERT INTO storm (start_epoch, thru_epoch) VALUES (?, ?)", (start - 1800, thru)
        )

    out = direct(base, f"storm {which} already present", [(1, 8.0, 5.0)], prepare=same)
    assert out[0][0][0][1] == "AssertionError" and "more than one rise" in out[0][0][0][2]
    out = direct(base, f"storm {which} same start only", [(1, 8.0, 5.0)], prepare=other_thru)
    assert out[0][0][0][1] == "IntegrityError"
    out = direct(base, f"storm {which} same thru only", [(1, 8.0, 5.0)], prepare=other_start)
    assert out[0][0][0][0] == "ok"


def zeta_interval_taken(cursor):
    (epoch,) = cursor.execute("SELECT min(epoch) FROM water_level").fetchone()
    cursor.execute(
        "INSERT INTO zeta_interval SELECT epoch, 'interstorm', epoch + 1800 "
        "FROM water_level WHERE epoch < (SELECT max(epoch) FROM water_level)"
    )


out = direct(base, "zeta_interval occupied", [(1, 8.0, 5.0)], prepare=zeta_interval_taken)
assert out[0][0][0][1] == "IntegrityError"

print("assertions on intervals (match_storms replaced):")
out = direct(
    base, "rain interval with a dry step", [(1, 8.0, 5.0)],
    patch=lambda rain, head, a, b: ([(0, len(rain))], [(0, 2)]),
)
assert out[0][0][0][1] == "AssertionError" and "includes only raining" in out[0][0][0][2]
rain_start = None


def bad_jump(rain, head, rain_threshold, jump_threshold):
    import numpy as np
    i = int(np.nonzero(rain > rain_threshold)[0][0])
    j = int(np.nonzero(np.diff(head) <= jump_threshold)[0][0])
    return ([(i, i + 1)], [(j, j + 2)])


out = direct(base, "jump interval below threshold", [(1, 8.0, 5.0)], patch=bad_jump)
assert out[0][0][0][1:] == ("AssertionError", "")
out = direct(base, "no matches", [(1, 8.0, 5.0)], patch=lambda *a: ([], []))
assert out[0][0][0][0] == "ok" and not out[1]["storm"]
out = direct(base, "bad thresholds", [(1, None, 5.0), (1, 8.0, None), (None, 8.0, 5.0)])

print("end-to-end classify_intervals:")
dc.standard_db_checks(orig, new)
dc.cleanup()
print("diff_check_3 OK")
