"""Differential check for refactor2.diff (recession.compute_offsets)

Runs find_recession_offsets on both full sample data sets and, for speed,
on databases trimmed to the first interstorm intervals with many
variations (grids, reference levels, error paths, primary-key conflicts
part-way through the inserts), against the original and the refactored
package; compares full database dumps (also the partial dump after a
failure) and exception type + message exactly.

"""

import os
import sys

sys.path.insert(0, os.path.dirname(os.path.abspath(__file__)))
import dc_harness as H  # noqa: E402


N_KEEP = 70


def trim(connection):
    """Keep only the first N_KEEP interstorm intervals"""
    connection.execute('PRAGMA foreign_keys = OFF')
    connection.execute(
        """
    DELETE FROM zeta_interval
    WHERE interval_type = 'interstorm'
      AND start_epoch > (
        SELECT start_epoch FROM zeta_interval
        WHERE interval_type = 'interstorm'
        ORDER BY start_epoch LIMIT 1 OFFSET {})""".format(
            N_KEEP
        )
    )
    connection.commit()
    connection.execute(
        'PRAGMA foreign_keys = {}'.format(1 if H.FOREIGN_KEYS else 0)
    )


def build_results(results, tree):
    import numpy as np
    import spowtd.recession as recession_mod
    import spowtd.zeta_grid as zeta_grid_mod

    def run(connection_factory, reference_zeta_mm=None, mutate=()):
        def func():
            connection = connection_factory()
            for mutation in mutate:
                mutation(connection)
            try:
                recession_mod.find_recession_offsets(
                    connection, reference_zeta_mm
                )
            except BaseException:
                func.partial = H.dump_db(connection)
                raise
            return H.dump_db(connection)

        return func

    def record(name, func):
        H.scenario(results, name, func)
        if results[name][0] == 'exc':
            results[name] = results[name] + (getattr(func, 'partial', None),)

    # Full sample data (what the test suite and CLI do)
    for sample in (1, 2):
        record(
            'full-sample{}-grid1-noref'.format(sample),
            run(lambda s=sample: H.classified_connection(tree, s, 1.0)),
        )

    for sample in (1, 2):
        for grid in (1.0, 2.5, 2):
            record(
                'sample{}-grid{}-noref'.format(sample, grid),
                run(
                    lambda s=sample, g=grid: H.classified_connection(
                        tree, s, g
                    ),
                    mutate=(trim,),
                ),
            )
        connection = H.classified_connection(tree, sample, 2.5)
        trim(connection)
        recession_mod.find_recession_offsets(connection)
        numbers = [
            row[0]
            for row in connection.execute(
                'SELECT DISTINCT zeta_number FROM recession_interval_zeta '
                'ORDER BY zeta_number'
            )
        ]
        existing_interval = connection.execute(
            'SELECT start_epoch FROM recession_interval '
            'ORDER BY start_epoch LIMIT 1 OFFSET 3'
        ).fetchone()[0]
        existing_crossing = connection.execute(
            'SELECT start_epoch, zeta_number FROM recession_interval_zeta '
            'LIMIT 1 OFFSET 40'
        ).fetchone()
        connection.close()
        assert len(numbers) > 3
        for number in (numbers[0], numbers[len(numbers) // 2], numbers[-1]):
            for ref in (number * 2.5, np.float64(number * 2.5)):
                record(
                    'sample{}-grid2.5-ref{!r}'.format(sample, ref),
                    run(
                        lambda s=sample: H.classified_connection(tree, s, 2.5),
                        reference_zeta_mm=ref,
                        mutate=(trim,),
                    ),
                )
        record(
            'sample{}-grid1-intref'.format(sample),
            run(
                lambda s=sample: H.classified_connection(tree, s, 1.0),
                reference_zeta_mm=int(numbers[len(numbers) // 2] * 2.5),
                mutate=(trim,),
            ),
        )
        for ref in (0.5, -101.3, np.float64(7.25)):
            record(
                'sample{}-grid2.5-offgrid{!r}'.format(sample, ref),
                run(
                    lambda s=sample: H.classified_connection(tree, s, 2.5),
                    reference_zeta_mm=ref,
                    mutate=(trim,),
                ),
            )
        record(
            'sample{}-ref-not-in-mapping'.format(sample),
            run(
                lambda s=sample: H.classified_connection(tree, s, 2.5),
                reference_zeta_mm=250000.0,
                mutate=(trim,),
            ),
        )
        record(
            'sample{}-ref-string'.format(sample),
            run(
                lambda s=sample: H.classified_connection(tree, s, 2.5),
                reference_zeta_mm='10',
                mutate=(trim,),
            ),
        )
        record(
            'sample{}-nogrid'.format(sample),
            run(
                lambda s=sample: H.classified_connection(tree, s, grid=False),
                mutate=(trim,),
            ),
        )

        def loaded_with_grid(s=sample):
            connection = H.loaded_connection(tree, s)
            zeta_grid_mod.populate_zeta_grid(connection, 1.0)
            return connection

        record('sample{}-unclassified'.format(sample), run(loaded_with_grid))

        def make_inf(connection):
            connection.execute(
                'UPDATE water_level SET zeta_mm = 9e999 '
                'WHERE epoch = (SELECT min(epoch) FROM water_level)'
            )

        record(
            'sample{}-inf-zeta'.format(sample),
            run(
                lambda s=sample: H.classified_connection(tree, s),
                mutate=(trim, make_inf),
            ),
        )

        # Interval boundaries that are not water level epochs: the two
        # assertions with formatted messages, and the IndexError when no
        # water level falls within the interval
        for column, shift in (
            ('start_epoch', -1),
            ('thru_epoch', 1),
            ('both', 0),
        ):

            def move_boundary(connection, column=column, shift=shift):
                connection.execute('PRAGMA foreign_keys = OFF')
                (start, thru) = connection.execute(
                    "SELECT start_epoch, thru_epoch FROM zeta_interval "
                    "WHERE interval_type = 'interstorm' "
                    "ORDER BY start_epoch LIMIT 1 OFFSET 2"
                ).fetchone()
                if column == 'both':
                    # Empty interval strictly between two epochs
                    connection.execute(
                        'UPDATE zeta_interval SET start_epoch = ?, '
                        'thru_epoch = ? WHERE start_epoch = ?',
                        (start + 1, start + 2, start),
                    )
                else:
                    connection.execute(
                        'UPDATE zeta_interval SET {0} = {0} + ? '
                        'WHERE start_epoch = ?'.format(column),
                        (shift, start),
                    )
                del thru

            record(
                'sample{}-moved-{}'.format(sample, column),
                run(
                    lambda s=sample: H.classified_connection(tree, s),
                    mutate=(trim, move_boundary),
                ),
            )

        # Primary-key conflicts part-way through each group of inserts
        def preinsert_interval(connection, epoch=existing_interval):
            connection.execute(
                'INSERT INTO recession_interval (start_epoch, time_offset_s) '
                'VALUES (?, 0.0)',
                (epoch,),
            )

        record(
            'sample{}-conflict-recession_interval'.format(sample),
            run(
                lambda s=sample: H.classified_connection(tree, s, 2.5),
                mutate=(trim, preinsert_interval),
            ),
        )

        def preinsert_crossing(connection, row=existing_crossing):
            connection.execute('PRAGMA foreign_keys = OFF')
            connection.execute(
                'INSERT INTO recession_interval_zeta '
                '(start_epoch, zeta_number, mean_crossing_time) '
                'VALUES (?, ?, 0.0)',
                row,
            )

        record(
            'sample{}-conflict-recession_interval_zeta'.format(sample),
            run(
                lambda s=sample: H.classified_connection(tree, s, 2.5),
                mutate=(trim, preinsert_crossing),
            ),
        )

    record('empty-db', run(lambda: H.empty_connection(tree)))

    # compute_offsets leaves the cursor it is given open and usable
    def cursor_state():
        connection = H.classified_connection(tree, 1, 5.0)
        trim(connection)
        cursor = connection.cursor()
        result = recession_mod.compute_offsets(cursor, None)
        return (result, cursor.execute('SELECT 1').fetchall())

    record('cursor-state', cursor_state)


if __name__ == '__main__':
    H.main(
        os.path.abspath(__file__), 2, H.both_foreign_key_modes(build_results)
    )
