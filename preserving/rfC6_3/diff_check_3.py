"""Differential check for refactor3.diff (simulate_rise.simulate_rise:
reading of the measured curve and assembly of the output table)

Run as:  cd /tmp/rf_C && /venv/bin/python diff_check_3.py

"""

import io
import os
import sqlite3
import sys
import tempfile

sys.path.insert(0, os.path.dirname(os.path.abspath(__file__)))
import dc_common as dc  # noqa: E402


def parameter_text(tree, kind):
    path = os.path.join(
        tree,
        'spowtd',
        'test',
        'sample_data',
        '{}_parameters.yml'.format(kind),
    )
    with open(path, 'rt') as f:
        return f.read()


def run_simulation(connection, parameters, observations_only):
    """Outcome and text written by simulate_rise"""
    import spowtd.simulate_rise as simulate_rise_mod

    outfile = io.StringIO()
    result = dc.outcome(
        simulate_rise_mod.simulate_rise,
        connection,
        io.StringIO(parameters),
        outfile,
        observations_only,
    )
    return (result, ('str', outfile.getvalue()), connection.in_transaction)


def handmade(tree, grid_interval_mm, offsets, crossings):
    """Database with a hand-made rising curve

    offsets: {start_epoch: rain_depth_offset_mm}
    crossings: [(start_epoch, zeta_number, mean_crossing_depth_mm)]

    """
    connection = dc.empty_schema_db(tree)
    connection.execute('PRAGMA foreign_keys = 0')
    connection.execute(
        'INSERT INTO zeta_grid (grid_interval_mm) VALUES (?)',
        (grid_interval_mm,),
    )
    connection.executemany(
        'INSERT OR IGNORE INTO discrete_zeta (zeta_number) VALUES (?)',
        [(number,) for (_, number, _) in crossings],
    )
    connection.executemany(
        """INSERT INTO rising_interval (start_epoch, rain_depth_offset_mm)
           VALUES (?, ?)""",
        list(offsets.items()),
    )
    connection.executemany(
        """INSERT INTO rising_interval_zeta
           (start_epoch, zeta_number, mean_crossing_depth_mm)
           VALUES (?, ?, ?)""",
        crossings,
    )
    connection.commit()
    return connection


def scenarios(tree):
    import spowtd.rise as rise_mod
    import spowtd.user_interface as cli_mod

    results = {}
    kinds = ('spline', 'peatclsm')
    for sample in (1, 2):
        for grid in (1.0, 0.5, 2.5):
            reference_mm = None
            for reference in (None, 'median'):
                connection = dc.gridded(tree, sample, grid)
                rise_mod.find_rise_offsets(connection, reference_mm)
                for kind in kinds:
                    for observations_only in (False, True):
                        key = 'sample{}-grid{}-ref{}-{}-{}'.format(
                            sample, grid, reference, kind, observations_only
                        )
                        results[key] = run_simulation(
                            connection,
                            parameter_text(tree, kind),
                            observations_only,
                        )
                # An on-grid reference for the second round
                numbers = [
                    row[0]
                    for row in connection.execute(
                        '''SELECT DISTINCT zeta_number
                           FROM rising_interval_zeta ORDER BY 1'''
                    )
                ]
                reference_mm = numbers[len(numbers) // 2] * grid
                if grid == 1.0 and reference is None:
                    # Through the command line, database in a file
                    handle, path = tempfile.mkstemp(
                        suffix='.sqlite3', dir=tree
                    )
                    os.close(handle)
                    os.unlink(path)
                    file_db = sqlite3.connect(path)
                    connection.backup(file_db)
                    file_db.close()
                    for kind in kinds:
                        for flags in ([], ['--observations']):
                            out_path = path + '.out.yml'
                            parameter_path = os.path.join(
                                tree,
                                'spowtd',
                                'test',
                                'sample_data',
                                '{}_parameters.yml'.format(kind),
                            )
                            result = dc.outcome(
                                cli_mod.main,
                                ['simulate', 'rise', path, parameter_path]
                                + ['-o', out_path]
                                + flags,
                            )
                            with open(out_path, 'rt') as f:
                                text = f.read()
                            os.unlink(out_path)
                            results[
                                'cli-sample{}-{}-{}'.format(
                                    sample, kind, flags
                                )
                            ] = (result, ('str', text))
                    os.unlink(path)
                connection.close()
        # Rise step not run: the measured curve is empty
        connection = dc.gridded(tree, sample, 1.0)
        for observations_only in (False, True):
            results[
                'sample{}-no-rise-{}'.format(sample, observations_only)
            ] = run_simulation(
                connection, parameter_text(tree, 'spline'), observations_only
            )
        connection.close()

    # Hand-made curves: one level, two levels, several intervals per
    # level, levels inserted out of order, negative and fractional
    # grid intervals, values that are stored as integers
    cases = {
        'empty': (1.0, {}, []),
        'one-level': (1.0, {600: 2.5}, [(600, -3, 10.25)]),
        'two-levels': (
            1.0,
            {600: 2.5},
            [(600, -3, 10.25), (600, -2, 12.0)],
        ),
        'out-of-order': (
            2.5,
            {600: 2.5, 1200: -1.125, 7200: 0},
            [
                (600, 4, 30.1),
                (600, -3, 10.25),
                (1200, -40, 0.1),
                (1200, 4, 28),
                (7200, 3, 21.7),
                (7200, -3, 11),
                (1200, 3, 22.9),
                (600, 3, 19.3),
                (1200, 0, 15),
            ],
        ),
        'negative-grid': (
            -0.5,
            {600: 2.5, 1200: -1.125},
            [
                (600, 4, 30.1),
                (600, -3, 10.25),
                (1200, -40, 0.1),
                (1200, 4, 28),
                (1200, 3, 22.9),
                (600, 3, 19.3),
            ],
        ),
        'tiny-grid': (
            0.1,
            {600: 2.5, 1200: -1.125},
            [(600, n, 0.3 * n) for n in range(-30, 40, 3)]
            + [(1200, n, 0.3 * n + 1) for n in range(-10, 60, 2)],
        ),
        'orphan-crossings': (1.0, {}, [(600, -3, 10.25), (600, -2, 12.0)]),
    }
    for name, (grid, offsets, crossings) in cases.items():
        for kind in kinds:
            for observations_only in (False, True):
                connection = handmade(tree, grid, offsets, crossings)
                results[
                    'handmade-{}-{}-{}'.format(name, kind, observations_only)
                ] = run_simulation(
                    connection, parameter_text(tree, kind), observations_only
                )
                connection.close()
    # Bad parameters
    connection = handmade(tree, *cases['two-levels'])
    for name, text in (
        ('no-sy', 'transmissivity: {type: spline}'),
        ('bad-type', 'specific_yield: {type: nonesuch}'),
        ('not-yaml', '{'),
    ):
        results['bad-parameters-' + name] = run_simulation(
            connection, text, False
        )
    connection.close()
    return results


if __name__ == '__main__':
    if len(sys.argv) > 1 and sys.argv[1] == '--child':
        dc.child_main(scenarios)
    else:
        dc.run_driver(
            os.path.abspath(__file__),
            'refactor3.diff',
            'spowtd/simulate_rise.py',
        )
