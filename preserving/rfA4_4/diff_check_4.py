"""Differential check for refactor4.diff (match_storms hands a list of
(rain_interval, head_interval) pairs from the new find_candidate_matches to
disambiguate_matching; get_candidate_match_intervals delegates to
get_storm_slice and get_jump_slice).

Shared scenario set, pristine package against patched copy.  Relevant here:
match_storms on 300 random rain / head series x 3 threshold pairs (immediate
and lagged rises, several storms under one rise and the reverse), integer
input, empty input, length mismatch, list input;
get_candidate_match_intervals on valid masks and on masks that trip each of
its assertions in turn (rain before / after the slice, dry step in the storm,
jump below threshold, jump continuing before / after the slice, empty masks,
bad storm index) -- assertion texts are compared; plus everything that
reaches match_storms through match_all_storms / classify_intervals.  Returned
intervals are compared with element types (np.int64 vs int) and order.
"""
import dc_common

orig, new = dc_common.main(4)
messages = {
    value[2].split(":")[0].split(" [")[0]
    for key, value in orig.items()
    if key.startswith("candidate/") and value[0] == "exc"
}
for expected in (
    "Storm includes only raining time steps",
    "No heavy rain at end of slice",
    "No heavy rain just before slice",
    "Head pair",
    "Jump <= 5.0 starts at jump_start",
    "Jump > 5.0 ends at jump_stop",
):
    assert expected in messages, (expected, messages)
