"""Differential check for refactor4: fit_offsets.get_series_time_offsets,
fit_offsets.build_head_mapping, fit_offsets.find_offsets."""
import os
import sys

sys.path.insert(0, os.path.dirname(os.path.abspath(__file__)))
import dc_common  # noqa: E402
from dc_common import attempt, dump_db  # noqa: E402


def worker():
    import copy
    import logging

    import numpy as np

    import spowtd.classify as classify_mod
    import spowtd.fit_offsets as fit_offsets_mod
    import spowtd.recession as recession_mod
    import spowtd.rise as rise_mod
    import spowtd.zeta_grid as zeta_grid_mod

    # Capture log records (message template and arguments)
    records = []

    class Capture(logging.Handler):
        def emit(self, record):
            records.append((record.name, record.levelname, record.msg,
                            repr(record.args), record.getMessage()))

    logging.getLogger('spowtd').addHandler(Capture())
    logging.getLogger('spowtd').setLevel(logging.DEBUG)

    results = {}
    # Sample data through the steps that use fit_offsets
    for sample in (1, 2):
        connection = dc_common.load_sample(sample)
        classify_mod.classify_intervals(
            connection,
            storm_rain_threshold_mm_h=8.0,
            rising_jump_threshold_mm_h=5.0,
        )
        zeta_grid_mod.populate_zeta_grid(connection, grid_interval_mm=1.0)
        recession_mod.find_recession_offsets(connection)
        rise_mod.find_rise_offsets(connection)
        results[f'sample{sample}_db'] = dump_db(connection)
        # Rebuild the series as recession.py does, call directly
        cursor = connection.cursor()
        cursor.execute(
            """
        SELECT start_epoch, thru_epoch FROM zeta_interval
        WHERE interval_type = 'interstorm' ORDER BY start_epoch"""
        )
        series = []
        for start, thru in cursor.fetchall():
            cursor.execute(
                """
            SELECT epoch, zeta_mm FROM water_level
            WHERE epoch >= ? AND epoch <= ? ORDER BY epoch""",
                (start, thru),
            )
            epoch, zeta = (np.array(v, dtype='float64')
                           for v in zip(*cursor))
            series.append((epoch, zeta))
        for head_step in (1.0, 2.5, 10):
            results[f'sample{sample}_direct_{head_step}'] = attempt(
                lambda: fit_offsets_mod.get_series_time_offsets(
                    series, head_step
                )
            )
            results[f'sample{sample}_mapping_{head_step}'] = attempt(
                lambda: fit_offsets_mod.build_head_mapping(series, head_step)
            )

    rng = np.random.default_rng(7)

    def falling(start, stop, n, t0=0.0, noise=0.0):
        t = t0 + np.cumsum(rng.uniform(0.5, 1.5, n))
        H = np.linspace(start, stop, n) + noise * rng.normal(size=n)
        return (t, H)

    def gsto(series_list, head_step):
        return attempt(
            lambda: fit_offsets_mod.get_series_time_offsets(
                series_list, head_step
            )
        )

    overlapping = [
        falling(10, 2, 20, 100),
        falling(14, 6, 15, 5),
        falling(7, -3, 30, 50),
        falling(12.5, 0.5, 25, 1000),
    ]
    results['overlapping'] = gsto(overlapping, 1.0)
    results['overlapping_step'] = gsto(overlapping, 0.37)
    results['overlapping_reversed'] = gsto(overlapping[::-1], 1)
    results['noisy'] = gsto(
        [falling(10, 0, 40, noise=0.8), falling(12, 3, 40, noise=0.8),
         falling(9, -4, 40, noise=0.8)],
        1.0,
    )
    results['rising'] = gsto(
        [falling(0, 9, 20), falling(3, 14, 20), falling(-5, 4, 20)], 1.0
    )
    results['equal_initial_head'] = gsto(
        [falling(10, 2, 20), falling(10, 4, 15), falling(10, -3, 30)], 1.0
    )
    results['two_components'] = gsto(
        overlapping + [falling(112, 100, 20), falling(108, 95, 20)], 1.0
    )
    results['two_components_equal_size'] = gsto(
        [falling(10, 5.5, 20), falling(9, 4.5, 20),
         falling(110, 105.5, 20), falling(109, 104.5, 20)],
        1.0,
    )
    results['isolated_series'] = gsto(overlapping + [falling(50, 45, 9)], 1.0)
    results['single_series'] = gsto([falling(10, 2, 20)], 1.0)
    results['no_crossings'] = gsto(
        [falling(0.2, 0.8, 5), falling(0.3, 0.7, 5)], 1.0
    )
    results['disjoint_pair'] = gsto([falling(10, 5, 9), falling(3, 0, 9)], 1.0)
    results['empty'] = gsto([], 1.0)
    results['tuple_input'] = gsto(tuple(overlapping), 1.0)
    results['list_series'] = gsto([([0, 1, 2], [3, 2, 1])], 1.0)
    results['empty_series'] = gsto(
        [(np.array([]), np.array([])), falling(5, 1, 5)], 1.0
    )
    results['nan_head'] = gsto(
        [falling(10, 2, 20), (np.arange(3.0), np.array([1.0, np.nan, 0.0]))],
        1.0,
    )
    results['unequal_lengths'] = gsto(
        [(np.arange(4.0), np.arange(3.0)), falling(5, 1, 5)], 1.0
    )
    results['zero_head_step'] = gsto(overlapping, 0)
    results['negative_head_step'] = gsto(overlapping, -1.0)
    results['bad_element'] = gsto([falling(10, 2, 20), None], 1.0)

    def bhm(series, *args):
        outcome = attempt(
            lambda: fit_offsets_mod.build_head_mapping(series, *args)
        )
        if outcome[0] == 'ok':
            outcome += (type(outcome[1]).__name__,)
        return outcome

    results['bhm_default_step'] = bhm(overlapping)
    results['bhm_step'] = bhm(overlapping, 0.5)
    results['bhm_nonmonotonic'] = bhm(
        [(np.arange(9.0), np.array([5, 3.2, 4.1, 2.2, 3.3, 1, 2.5, 0.1, -1])),
         falling(6, 0, 12, noise=1.0)]
    )
    results['bhm_empty'] = bhm([])
    results['bhm_generator'] = bhm(iter(overlapping))
    results['bhm_bad'] = bhm([(1, 2, 3)])

    def fo(head_mapping):
        mapping = copy.deepcopy(head_mapping)
        outcome = attempt(lambda: fit_offsets_mod.find_offsets(mapping))
        # find_offsets mutates its argument: record what is left
        return (outcome, mapping)

    base = fit_offsets_mod.build_head_mapping(overlapping, 1.0)
    results['fo_base'] = fo(base)
    results['fo_string_heads'] = fo(
        {
            'a': [(0, 1.0), (1, 3.5), (2, 0.25)],
            'b': [(1, 2.0)],
            'c': [(2, 4.0), (0, 1.5)],
            'd': [(3, 0.0), (0, 0.1)],
        }
    )
    results['fo_string_series'] = fo(
        {1: [('x', 1.0), ('y', 3.5)], 2: [('z', 2.0), ('y', 0.5)],
         3: [('x', 9.0)]}
    )
    results['fo_arrays'] = fo(
        {1: np.array([(0, 1.0), (1, 3.5)]), 2: np.array([(1, 2.0), (2, 7.0)])}
    )
    results['fo_tuples'] = fo(
        {1: ((0, 1.0), (1, 3.5)), 2: ((1, 2.0), (2, 7.0), (0, 3.0))}
    )
    results['fo_same_series_twice'] = fo({1: [(0, 1.0), (0, 2.0)]})
    results['fo_disconnected'] = fo(
        {1: [(0, 1.0), (1, 2.0)], 2: [(2, 1.0), (3, 2.0)]}
    )
    results['fo_all_singletons'] = fo({1: [(0, 1.0)], 2: [(1, 2.0)]})
    results['fo_empty'] = fo({})
    results['fo_empty_seq_after_singleton'] = fo(
        {1: [(0, 1.0)], 2: [], 3: [(1, 2.0)]}
    )
    results['fo_triples'] = fo({1: [(0, 1.0, 5), (1, 2.0, 5)]})
    results['fo_mixed_ids'] = fo({1: [(0, 1.0), ('a', 2.0)]})
    results['fo_int_times'] = fo({1: [(0, 1), (1, 4)], 2: [(0, 2), (1, 3)]})
    results['log_records'] = records
    return results


if __name__ == '__main__':
    dc_common.run(__file__, worker, 4)
