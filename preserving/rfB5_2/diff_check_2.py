"""Differential check for refactor2: load.populate_grid_time,
load.populate_rainfall_intensity, load.populate_evapotranspiration."""
import os
import sys

sys.path.insert(0, os.path.dirname(os.path.abspath(__file__)))
import dc_common  # noqa: E402
from dc_common import attempt, dump_db  # noqa: E402


def worker():
    import sqlite3

    import pytz

    import spowtd.load as load_mod

    results = {}
    for sample in (1, 2):
        results[f'sample{sample}'] = dump_db(dc_common.load_sample(sample))

    with open(load_mod.SCHEMA_PATH, 'rt') as schema_file:
        schema = schema_file.read()

    def staged(precip, et, zeta):
        connection = sqlite3.connect(':memory:')
        connection.executescript(schema)
        for table, column, rows in (
            ('rainfall_intensity_staging', 'rainfall_intensity_mm_h', precip),
            ('evapotranspiration_staging', 'evapotranspiration_mm_h', et),
            ('water_level_staging', 'zeta_mm', zeta),
        ):
            connection.executemany(
                f'INSERT INTO {table} (epoch, {column}) VALUES (?, ?)', rows
            )
        return connection

    def pipeline(precip, et, zeta, tz_name='Africa/Lagos', tz='same',
                 step_override=None, grid_override=None):
        """Run the three functions in order, recording each outcome"""
        connection = staged(precip, et, zeta)
        cursor = connection.cursor()
        out = []
        grid = attempt(
            lambda: load_mod.populate_grid_time(cursor, tz_name)
        )
        out.append(grid)
        out.append(dump_db(connection))
        if grid[0] == 'ok':
            assert type(grid[1]) is tuple
            time_grid, time_step = grid[1]
            if step_override is not None:
                time_step = step_override
            if grid_override is not None:
                time_grid = grid_override
            out.append(
                attempt(
                    lambda: load_mod.populate_rainfall_intensity(
                        cursor, time_grid, time_step
                    )
                )
            )
            out.append(dump_db(connection))
            out.append(
                attempt(
                    lambda: load_mod.populate_evapotranspiration(
                        cursor,
                        time_grid,
                        time_step,
                        tz=pytz.timezone(tz_name) if tz == 'same' else tz,
                    )
                )
            )
            out.append(dump_db(connection))
        return out

    hour = 3600
    t0 = 1425168000
    precip = [(t0 + i * hour, (i % 5) * 1.5) for i in range(40)]
    shuffled = precip[::3] + precip[1::3] + precip[2::3]
    et = [(t0 + i * hour, 0.1 + (i % 7) * 0.01) for i in range(-3, 50)]
    zeta = [(t0 + 2 * hour + i * 1800, 100.0 - i / 3) for i in range(60)]
    results['ok'] = pipeline(precip, et, zeta)
    results['shuffled'] = pipeline(shuffled, et[::-1], zeta[::-1])
    results['tz_ny'] = pipeline(precip, et, zeta, tz_name='America/New_York')
    results['zeta_covers_all'] = pipeline(
        precip, et, [(t0 - 5 * hour, 1.0), (t0 + 100 * hour, 2.0)]
    )
    results['zeta_exact_bounds'] = pipeline(
        precip, et, [(t0 + 3 * hour, 1.0), (t0 + 9 * hour, 2.0)]
    )
    results['no_zeta'] = pipeline(precip, et, [])
    results['no_precip'] = pipeline([], et, zeta)
    results['one_precip_in_range'] = pipeline(
        precip, et, [(t0 + 3 * hour - 5, 1.0), (t0 + 3 * hour + 5, 2.0)]
    )
    results['two_in_range'] = pipeline(
        precip, et, [(t0 + 3 * hour, 1.0), (t0 + 4 * hour, 2.0)]
    )
    results['nonuniform'] = pipeline(
        precip + [(t0 + 45 * hour, 1.0), (t0 + 45 * hour + 60, 1.0)],
        et,
        [(t0, 1.0), (t0 + 100 * hour, 2.0)],
    )
    results['et_missing_some'] = pipeline(precip, et[:20] + et[25:], zeta)
    results['et_missing_last'] = pipeline(
        precip, [row for row in et if row[0] < t0 + 32 * hour], zeta
    )
    results['et_missing_all'] = pipeline(precip, [], zeta)
    results['et_missing_tz_none'] = pipeline(precip, et[:20], zeta, tz=None)
    results['et_missing_tz_utc'] = pipeline(precip, et[:20], zeta, tz=pytz.utc)
    results['et_missing_tz_bad'] = pipeline(precip, et[:20], zeta, tz='x')
    results['et_missing_out_of_range'] = pipeline(
        [(t0 + i * 10 ** 15, 1.0) for i in range(6)],
        [(t0, 1.0)],
        [(t0, 1.0), (t0 + 10 ** 16, 2.0)],
    )
    results['negative_epochs'] = pipeline(
        [(i * hour, 1.0) for i in range(-10, 10)],
        [(i * hour, 1.0) for i in range(-10, 11)],
        [(-8 * hour, 1.0), (8 * hour, 2.0)],
    )
    results['step_zero'] = pipeline(precip, et, zeta, step_override=0)
    results['step_negative'] = pipeline(precip, et, zeta, step_override=-hour)
    results['step_half'] = pipeline(precip, et, zeta, step_override=1800)
    results['step_list'] = pipeline(precip, et, zeta, step_override=[1])
    results['step_none'] = pipeline(precip, et, zeta, step_override=None)
    results['grid_short'] = pipeline(precip, et, zeta, grid_override=[t0])
    results['grid_empty'] = pipeline(precip, et, zeta, grid_override=[])
    results['grid_bad_type'] = pipeline(
        precip, et, zeta, grid_override=[[1], [2], [3]]
    )
    results['grid_tuple'] = pipeline(
        precip, et, zeta, grid_override=(t0, t0 + 5 * hour, t0 + 6 * hour)
    )
    results['tz_name_none'] = pipeline(precip, et, zeta, tz_name=None, tz=None)
    results['tz_name_list'] = pipeline(precip, et, zeta, tz_name=[1], tz=None)

    # Singleton time_grid table already populated
    connection = staged(precip, et, zeta)
    connection.execute(
        "INSERT INTO time_grid (source_time_zone, time_step_s) VALUES ('x', 1)"
    )
    results['time_grid_exists'] = (
        attempt(
            lambda: load_mod.populate_grid_time(
                connection.cursor(), 'Africa/Lagos'
            )
        ),
        dump_db(connection),
    )
    return results


if __name__ == '__main__':
    dc_common.run(__file__, worker, 2)
