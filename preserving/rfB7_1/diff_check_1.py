"""Differential check for refactor1.diff (load.populate_grid_time SQL)"""

import sys

sys.path.insert(0, '/tmp/rf_B')
import dc_common as dc  # noqa: E402

tmp, orig_pkg, new_pkg = dc.build(1)
orig = dc.load_module(orig_pkg, 'load', 'orig_load')
new = dc.load_module(new_pkg, 'load', 'new_load')
assert 'BETWEEN' in open(new.__file__).read()
assert 'BETWEEN' not in open(orig.__file__).read()
failures = []

print('load_data paths')
dc.check_load_data_paths(orig, new, failures)


def direct(load_mod, rain, zeta, tz_name='Africa/Lagos', foreign_keys=True,
           pre=None, calls=1, commit_first=False):
    """Call populate_grid_time directly on hand-staged tables"""
    connection, tracer = dc.new_db(load_mod, foreign_keys=foreign_keys)
    dc.stage(connection, rain=rain, zeta=zeta)
    if pre:
        for statement in pre:
            connection.execute(statement)
    if commit_first:
        connection.commit()
    cursor = connection.cursor()
    outcomes = []
    for _ in range(calls):
        outcomes.append(
            dc.attempt(load_mod.populate_grid_time, cursor, tz_name)
        )
    observation = dc.observe(connection, tracer, tuple(outcomes))
    connection.close()
    return observation


rain10 = [(1000 + 600 * i, 0.5 * i) for i in range(10)]
cases = {
    # inclusive at both ends: span equals first/last rain epoch exactly
    'inclusive_both': dict(rain=rain10, zeta=[(1600, 1.0), (5800, 2.0)]),
    'inclusive_low_only': dict(rain=rain10, zeta=[(1600, 1.0), (5799, 2.0)]),
    'inclusive_high_only': dict(rain=rain10, zeta=[(1601, 1.0), (5800, 2.0)]),
    'off_by_one_outside': dict(rain=rain10, zeta=[(1599, 1.0), (5801, 2.0)]),
    'span_all': dict(rain=rain10, zeta=[(-5, 1.0), (10**7, 2.0)]),
    'span_one_zeta_row': dict(rain=rain10, zeta=[(2200, 1.0)]),
    'span_two_epochs': dict(rain=rain10, zeta=[(2200, 1.0), (2800, 1.0)]),
    'empty_zeta': dict(rain=rain10, zeta=[]),
    'empty_rain': dict(rain=[], zeta=[(1600, 1.0), (5800, 2.0)]),
    'both_empty': dict(rain=[], zeta=[]),
    'negative_epochs': dict(
        rain=[(-3000 + 600 * i, 1.0) for i in range(10)],
        zeta=[(-2400, 1.0), (600, 2.0)],
    ),
    'large_epochs': dict(
        rain=[(2**62 + 3 * i, 1.0) for i in range(6)],
        zeta=[(2**62, 1.0), (2**62 + 15, 2.0)],
    ),
    'nonuniform': dict(
        rain=[(0, 1.0), (600, 1.0), (1300, 1.0), (1800, 1.0)],
        zeta=[(0, 1.0), (1800, 2.0)],
    ),
    'fk_off': dict(rain=rain10, zeta=[(1600, 1.0), (5800, 2.0)],
                   foreign_keys=False),
    'tz_none': dict(rain=rain10, zeta=[(1600, 1.0), (5800, 2.0)],
                    tz_name=None),
    'tz_int': dict(rain=rain10, zeta=[(1600, 1.0), (5800, 2.0)], tz_name=17),
    'tz_bytes': dict(rain=rain10, zeta=[(1600, 1.0), (5800, 2.0)],
                     tz_name=b'UTC'),
    # unsupported parameter types: same binding error, same parameter index
    'tz_list': dict(rain=rain10, zeta=[(1600, 1.0), (5800, 2.0)],
                    tz_name=['UTC']),
    'tz_object': dict(rain=rain10, zeta=[(1600, 1.0), (5800, 2.0)],
                      tz_name=object),
    'tz_float': dict(rain=rain10, zeta=[(1600, 1.0), (5800, 2.0)],
                     tz_name=1.5),
    'called_twice': dict(rain=rain10, zeta=[(1600, 1.0), (5800, 2.0)],
                         calls=2),
    'called_twice_committed': dict(
        rain=rain10, zeta=[(1600, 1.0), (5800, 2.0)], calls=2,
        commit_first=True,
    ),
    # grid_time already holds an epoch in the middle of the grid: the
    # executemany fails part-way, earlier rows stay in the open transaction
    'grid_time_collision': dict(
        rain=rain10, zeta=[(1600, 1.0), (5800, 2.0)],
        pre=['INSERT INTO grid_time (epoch) VALUES (3400)'],
    ),
    'grid_time_collision_last': dict(
        rain=rain10, zeta=[(1600, 1.0), (5800, 2.0)],
        pre=['INSERT INTO grid_time (epoch, data_interval) VALUES (6400, 9)'],
        commit_first=True,
    ),
    'time_grid_present': dict(
        rain=rain10, zeta=[(1600, 1.0), (5800, 2.0)],
        pre=["INSERT INTO time_grid (time_step_s, source_time_zone) "
             "VALUES (1, 'x')"],
    ),
}
print('direct populate_grid_time')
for name, kwargs in sorted(cases.items()):
    a = direct(orig, **kwargs)
    b = direct(new, **kwargs)
    dc.compare('direct_' + name, a, b, failures)
    print('  direct', name, '->', [dc.summarize(o) for o in a[0]])

# The grid query alone, on the staged sample data: same rows, same order
for sample in (1, 2):
    rows = []
    for mod in (orig, new):
        connection, tracer, outcome = dc.run_load_sample(mod, sample, keep=True)
        assert outcome[0] == 'ok'
        rows.append(dc.dump(connection))
        connection.close()
    assert rows[0] == rows[1]

dc.cleanup(tmp)
if failures:
    print('FAILED:', failures)
    sys.exit(1)
print('diff_check_1: all comparisons identical')
