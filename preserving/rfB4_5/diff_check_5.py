"""Differential check for refactor5.diff (regrid split; closure -> function)"""

import warnings

import diffcheck_harness as H


def points(x, y, *args, **kwargs):
    """Exhaust regrid; keep the points produced before any error

    Also records whether the call itself (before iteration) raised.
    """
    import spowtd.regrid as regrid_mod

    out = []
    stage = ['call']

    def run():
        generator = regrid_mod.regrid(x, y, *args, **kwargs)
        stage[0] = 'iterate'
        for point in generator:
            out.append(point)
        stage[0] = 'done'
        return out

    with warnings.catch_warnings(record=True) as caught:
        warnings.simplefilter('always')
        outcome = H.capture(run)
    messages = [(w.category.__name__, str(w.message)) for w in caught]
    return (outcome, stage[0], H.norm(out), H.norm(messages))


def scenarios():
    import numpy as np

    yield 'pipeline sample 1', lambda: H.sample_pipeline(1, record_series=True)
    yield 'pipeline sample 2', lambda: H.sample_pipeline(2, record_series=True)
    demo_y = np.array([2.0, 5.2, -1.3, -1.2, 10.0])
    demo_x = list(range(len(demo_y)))
    kinds = (
        'linear',
        'nearest',
        'zero',
        'slinear',
        'quadratic',
        'cubic',
        'previous',
        'next',
        'nearest-up',
        'no-such-kind',
        3,
    )
    for kind in kinds:
        yield 'demo {}'.format(kind), lambda kind=kind: points(
            demo_x, demo_y, 1.0, interpolant=kind
        )
        yield 'demo positional {}'.format(kind), lambda kind=kind: points(
            np.array(demo_x) * 0.25, demo_y, 0.7, kind
        )
    for kind_of_series in ('recession', 'rise', 'wiggly'):
        for index, (t, h) in enumerate(
            H.random_series(11, 6, kind=kind_of_series)
        ):
            for step in (1.0, 2.5, -0.3, 100.0):
                yield '{} {} step {}'.format(
                    kind_of_series, index, step
                ), lambda t=t, h=h, step=step: points(t, h, step)
            yield '{} {} cubic'.format(
                kind_of_series, index
            ), lambda t=t, h=h: points(t, h, 1.0, 'cubic')
    x = np.arange(6) * 10.0
    # Heads exactly on multiples of the step, flat stretches, reversals
    yield 'exact multiples', lambda: points(
        x, np.array([3.0, 2.0, 2.0, 0.0, 1.0, 1.0]), 1.0
    )
    yield 'exact multiples, step 0.5', lambda: points(
        x, np.array([3.0, 2.0, 2.0, 0.0, 1.0, 1.0]), 0.5
    )
    yield 'all flat', lambda: points(x, np.full(6, 0.5), 1.0)
    yield 'integer y, integer step', lambda: points(
        x, np.array([7, 3, 3, 9, -2, 0]), 2
    )
    yield 'integer y, true division', lambda: points(
        np.arange(6), np.array([7, 3, 3, 9, -2, 0]), 4
    )
    yield 'big jump', lambda: points(x[:2], np.array([-250.3, 249.9]), 1.0)
    yield 'float32 y', lambda: points(
        x, np.array([0.3, 2.7, 1.1, -4.2, 0.0, 0.9], dtype='float32'), 1.0
    )
    # Degenerate and bad input
    yield 'empty arrays', lambda: points(np.array([]), np.array([]), 1.0)
    yield 'empty lists', lambda: points([], [], 1.0)
    yield 'empty, zero step', lambda: points([], [], 0)
    yield 'one point', lambda: points(np.array([1.0]), np.array([2.5]), 1.0)
    yield 'unequal lengths', lambda: points(x, np.arange(5.0), 1.0)
    yield 'unequal, y empty', lambda: points(x, np.array([]), 1.0)
    yield 'unsized x', lambda: points(5.0, np.arange(5.0), 1.0)
    yield 'NaN in y', lambda: points(
        x, np.array([0.0, 1.0, np.nan, 3.0, 4.0, 5.0]), 1.0
    )
    yield 'inf in y', lambda: points(
        x, np.array([0.0, 1.0, np.inf, 3.0, 4.0, 5.0]), 1.0
    )
    yield 'NaN in x', lambda: points(
        np.array([0.0, 1.0, np.nan, 3.0, 4.0, 5.0]), np.arange(6.0) * 1.5, 1.0
    )
    yield 'y a list', lambda: points(list(x), [0.5, 1.5, 2.5, 1.0, 0.0, 4.0], 1.0)
    yield 'y a list of text', lambda: points(list(x), list('abcdef'), 1.0)
    yield 'zero step', lambda: points(x, np.arange(6.0) - 2.0, 0.0)
    yield 'zero integer step', lambda: points(x, np.arange(6) - 2, 0)
    yield 'NaN step', lambda: points(x, np.arange(6.0), float('nan'))
    yield 'None step', lambda: points(x, np.arange(6.0), None)
    yield 'tiny step', lambda: points(x[:3], np.array([0.0, 1e-3, -1e-3]), 1e-5)
    yield 'unsorted x', lambda: points(
        np.array([0.0, 30.0, 10.0, 20.0]), np.array([0.2, 3.4, 1.1, 2.6]), 1.0
    )
    yield 'repeated x', lambda: points(
        np.array([0.0, 10.0, 10.0, 20.0]), np.array([0.2, 1.4, 2.6, 3.1]), 1.0
    )
    yield '2-d y', lambda: points(
        np.arange(3.0), np.arange(6.0).reshape(3, 2), 1.0
    )
    yield 'cubic, too few points', lambda: points(
        x[:3], np.array([0.2, 3.4, 1.1]), 1.0, 'cubic'
    )

    def names():
        import spowtd.regrid as regrid_mod
        import inspect

        return (
            inspect.isgeneratorfunction(regrid_mod.regrid),
            str(inspect.signature(regrid_mod.regrid)),
        )

    yield 'still a generator function', lambda: H.capture(names)


if __name__ == '__main__':
    H.main(__file__, 'refactor5.diff', scenarios)
