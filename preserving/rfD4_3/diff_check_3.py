"""Differential check for refactor3 (Campbell functions moved to spowtd/campbell.py, inner loop extracted).

Usage: PYTHONPATH=/tmp/rf_D /venv/bin/python diff_check_3.py [-v]
"""
import copy
import os
import pickle
import subprocess
import sys
import tempfile

HERE = os.path.dirname(os.path.abspath(__file__))


def norm(value):
    """Exact, picklable representation of a result"""
    import numpy as np
    if isinstance(value, np.ndarray):
        return ('ndarray', str(value.dtype), value.shape, value.tobytes())
    if isinstance(value, np.generic):
        return ('npscalar', str(value.dtype), value.tobytes())
    if isinstance(value, float):
        return ('float', value.hex())
    if isinstance(value, (list, tuple)):
        return (type(value).__name__, [norm(v) for v in value])
    if isinstance(value, dict):
        return ('dict', [(norm(k), norm(v)) for k, v in value.items()])
    return (type(value).__name__, repr(value))


def attempt(func):
    try:
        return ('ok', norm(func()))
    except BaseException as exc:  # pylint: disable=broad-except
        return ('exc', type(exc).__name__, str(exc), repr(exc.args))


def scenarios():
    import warnings
    import numpy as np
    import yaml
    import spowtd.specific_yield as sy_mod
    import spowtd
    warnings.simplefilter('ignore')
    sample = os.path.join(os.path.dirname(spowtd.__file__), 'test', 'sample_data')
    results = []
    with open(os.path.join(sample, 'peatclsm_parameters.yml')) as f:
        pars = yaml.safe_load(f)['specific_yield']
    pars.pop('type')
    levels = np.linspace(-1200, 1200, 61)
    parsets = [
        ('sample', pars),
        ('alt', dict(sd=0.05, theta_s=0.93, b=3.2, psi_s=-0.1)),
        ('int-b', dict(sd=0.3, theta_s=1, b=4, psi_s=-0.01)),
        ('pos-psi', dict(sd=0.162, theta_s=0.88, b=7.4, psi_s=0.024)),
        ('zero-b', dict(sd=0.162, theta_s=0.88, b=0, psi_s=-0.024)),
        ('zero-psi', dict(sd=0.162, theta_s=0.88, b=7.4, psi_s=0.0)),
        ('zero-sd', dict(sd=0.0, theta_s=0.88, b=7.4, psi_s=-0.024)),
        ('neg-sd', dict(sd=-0.1, theta_s=0.88, b=7.4, psi_s=-0.024)),
        ('str-theta', dict(sd=0.1, theta_s='0.88', b=7.4, psi_s=-0.024)),
        ('none-psi', dict(sd=0.1, theta_s=0.88, b=7.4, psi_s=None)),
        ('np-scalars', dict(sd=np.float64(0.2), theta_s=np.float32(0.8),
                            b=np.int64(5), psi_s=np.float64(-0.05))),
    ]
    objects = {}
    for name, kwargs in parsets:
        def build(kwargs=kwargs, name=name):
            f = sy_mod.PeatclsmSpecificYield(**kwargs)
            objects[name] = f
            return [f.zeta_knots_mm, f.sy_knots, f(levels), f(12.5),
                    f.integrate(-900.0, 700.0),
                    [f.integrate(levels[0], z) for z in levels[::6]]]
        results.append((name, 'build', attempt(build)))
    # get_Sy_soil called directly with other grids and odd arguments
    f = objects['sample']
    g = objects['alt']
    grids = [
        ('coarse', np.linspace(-1, 1, 11), np.linspace(-0.9, 1.1, 11), 11),
        ('uneven', np.array([-0.5, -0.2, 0.0, 0.4]),
         np.array([-0.3, -0.1, 0.1, 0.9]), 4),
        ('short-out', np.linspace(-1, 1, 11), np.linspace(-0.9, 1.1, 11), 7),
        ('long-out', np.linspace(-1, 1, 11), np.linspace(-0.9, 1.1, 11), 12),
        ('empty', np.array([]), np.array([]), 0),
        ('empty-in', np.array([]), np.array([]), 3),
        ('zero-dz', np.array([0.0, 0.1]), np.array([0.0, 0.2]), 2),
        ('float32', np.linspace(-1, 1, 5, dtype='float32'),
         np.linspace(-0.5, 1.5, 5, dtype='float32'), 5),
        ('ints', np.arange(-2, 3), np.arange(-1, 4), 5),
    ]
    for obj_name, obj in (('sample', f), ('alt', g)):
        for name, zl, zu, n in grids:
            def fill(obj=obj, zl=zl, zu=zu, n=n):
                out = np.full((n,), np.nan)
                ret = obj.get_Sy_soil(out, zl, zu)
                return [out, ret]
            results.append((obj_name, 'grid-' + name, attempt(fill)))

        def partial(obj=obj):
            out = np.full((7,), -1.0)
            try:
                obj.get_Sy_soil(out, np.linspace(-1, 1, 9), np.linspace(-.9, 1.1, 9))
            except IndexError as exc:
                return [out, str(exc)]
            return [out]
        results.append((obj_name, 'partial-fill', attempt(partial)))
        results.append((obj_name, 'list-out', attempt(lambda: (
            lambda out: [obj.get_Sy_soil(
                out, np.array([-.1, .1]), np.array([0., .2])), out])(
                    [None, None]))))
        results.append((obj_name, 'none-out', attempt(
            lambda: obj.get_Sy_soil(None, np.array([-.1]), np.array([0.]))))),
        results.append((obj_name, 'none-out-empty', attempt(
            lambda: obj.get_Sy_soil(None, np.array([]), np.array([])))))
        results.append((obj_name, 'list-grid', attempt(
            lambda: obj.get_Sy_soil(np.zeros(2), [-.1, .1], [0., .2]))))
        results.append((obj_name, 'mismatch', attempt(
            lambda: obj.get_Sy_soil(np.zeros(2), np.zeros(2), np.zeros(3)))))
    # campbell_1d_az as reachable from specific_yield
    values = [0.0, -0.0, 0.3, -0.3, 1.0, 0.024, -0.024, 2, np.float64(-0.5),
              np.float32(0.25), float('nan'), float('inf')]
    camp = sy_mod.campbell_1d_az
    count = 0
    for Fs in (0.0, 0.25, 1.0, np.float64(0.7), 'x'):
        for z_ in values:
            for zlu in values[:9]:
                for psi_s in (-0.024, 0.024, 0.0, np.float64(-0.1), None):
                    for b in (7.4, 3, 0, -2.0, np.float64(0.0)):
                        count += 1
                        results.append(('campbell', count, attempt(
                            lambda: camp(Fs, z_, zlu, 0.88, psi_s, b, 0.1))))
    arr = np.linspace(-1, 1, 5)
    results.append(('campbell', 'array-z', attempt(
        lambda: camp(0.5, arr, 0.0, 0.9, -0.02, 5.0, 0.1))))
    results.append(('campbell', 'array-Fs', attempt(
        lambda: camp(arr, 0.2, 0.0, 0.9, -0.02, 5.0, 0.1))))
    results.append(('campbell', 'str-theta-sat', attempt(
        lambda: camp(0.5, 0.0, 0.2, 'a', -0.02, 5.0, 0.1))))
    results.append(('campbell', 'both-bad', attempt(
        lambda: camp('x', 0.0, None, 0.9, -0.02, 5.0, 0.1))))
    results.append(('campbell', 'kwargs', attempt(
        lambda: camp(Fs=0.5, z_=0.1, zlu=0.0, theta_s=0.9, psi_s=-0.02,
                     b=5.0, sd=0.1))))
    results.append(('campbell', 'name', attempt(lambda: camp.__name__)))
    return results


def main():
    if len(sys.argv) == 4 and sys.argv[1] == 'run':
        # The script directory is sys.path[0]; make sure the requested
        # copy of the package is the one imported.
        sys.path[:] = [sys.argv[3]] + [
            p for p in sys.path if os.path.abspath(p or '.') != HERE]
        import spowtd
        assert os.path.dirname(os.path.dirname(
            os.path.abspath(spowtd.__file__))) == sys.argv[3], spowtd.__file__
        with open(sys.argv[2], 'wb') as f:
            pickle.dump(scenarios(), f)
        return 0
    outputs = []
    with tempfile.TemporaryDirectory() as tmp:
        for label, root in (('orig', os.path.join(HERE, 'orig_pkg')),
                            ('new', os.environ.get('RF_NEW_ROOT', HERE))):
            out = os.path.join(tmp, label + '.pkl')
            env = dict(os.environ, PYTHONPATH=root,
                       PYTHONDONTWRITEBYTECODE='1')
            subprocess.check_call(
                [sys.executable, os.path.abspath(__file__), 'run', out, root],
                env=env, cwd=tmp)
            with open(out, 'rb') as f:
                outputs.append(pickle.load(f))
    orig, new = outputs
    assert len(orig) == len(new)
    for a, b in zip(orig, new):
        assert a == b, (a, b)
    if '-v' in sys.argv:
        for r in orig:
            print(r[:2], r[2][:3] if r[2][0] == 'exc' else 'ok')
    n_exc = sum(1 for r in orig if r[2][0] == 'exc')
    print('diff_check_3: {} scenarios identical ({} raise)'.format(
        len(orig), n_exc))
    return 0


if __name__ == '__main__':
    sys.exit(main())
