"""Differential check for refactor2.diff (load.populate_water_level)"""

import sqlite3

import numpy as np

import dc_harness as H
from diff_check_1 import _load_sample


def _water_level_case(zeta_epochs, time_grid, zeta_values=None):
    """Stage water levels, create grid_time rows, call populate_water_level"""
    import spowtd.load as load_mod

    connection = sqlite3.connect(':memory:')
    cursor = connection.cursor()
    with open(load_mod.SCHEMA_PATH, 'rt') as schema_file:
        cursor.executescript(schema_file.read())
    if zeta_values is None:
        zeta_values = [
            -300.0 + 7.3 * np.sin(0.37 * i) + 0.1 * i
            for i in range(len(zeta_epochs))
        ]
    cursor.executemany(
        'INSERT INTO water_level_staging VALUES (?, ?)',
        list(zip(zeta_epochs, zeta_values)),
    )
    cursor.executemany(
        'INSERT INTO grid_time (epoch) VALUES (?)',
        [(int(epoch),) for epoch in time_grid],
    )
    outcome = H.capture(load_mod.populate_water_level, cursor, time_grid)
    return (outcome, H.canon(H.dump_database(connection)))


def scenarios():
    import spowtd.load as load_mod

    H.assert_tree(load_mod)
    out = {}
    for sample in (1, 2):
        out['load sample {}'.format(sample)] = _load_sample(sample)
    minute = 60
    grid = list(range(0, 48 * 1800 + 1, 1800))
    regular = list(range(0, 48 * 1800 + 1, 20 * minute))

    def without(epochs, *spans):
        return [
            e for e in epochs if not any(lo < e < hi for lo, hi in spans)
        ]

    out['no gaps'] = _water_level_case(regular, grid)
    out['no gaps, ndarray grid'] = _water_level_case(
        regular, np.array(grid, dtype='int64')
    )
    out['no gaps, int32 grid'] = _water_level_case(
        regular, np.array(grid, dtype='int32')
    )
    out['one gap'] = _water_level_case(
        without(regular, (10000, 20000)), grid
    )
    out['one gap on grid nodes'] = _water_level_case(
        without(regular, (9000, 18000)), grid
    )
    out['three gaps'] = _water_level_case(
        without(regular, (10000, 20000), (30000, 31000), (50000, 70000)),
        grid,
    )
    out['adjacent gaps'] = _water_level_case(
        without(regular, (10000, 12500), (12500, 20000)), grid
    )
    out['gap of a single missing sample'] = _water_level_case(
        without(regular, (23000, 25000)), grid
    )
    out['gap before grid start'] = _water_level_case(
        without(list(range(-36000, 86401, 1200)), (-30000, -10000)), grid
    )
    out['gap after grid end'] = _water_level_case(
        without(list(range(0, 120001, 1200)), (90000, 110000)), grid
    )
    out['gap straddling grid start'] = _water_level_case(
        without(list(range(-36000, 86401, 1200)), (-5000, 5000)), grid
    )
    out['gap straddling grid end'] = _water_level_case(
        without(list(range(0, 120001, 1200)), (80000, 95000)), grid
    )
    out['gap covering whole grid'] = _water_level_case(
        without(list(range(-36000, 120001, 1200)), (-1000, 90000)), grid
    )
    out['irregular sampling'] = _water_level_case(
        [0, 600, 1800, 2400, 3000, 9000, 9600, 10200, 20000, 86400], grid
    )
    out['two samples'] = _water_level_case([0, 86400], grid)
    out['three samples unequal'] = _water_level_case([0, 100, 86400], grid)
    out['one sample'] = _water_level_case([3600], grid)
    out['no samples'] = _water_level_case([], grid)
    out['empty grid'] = _water_level_case(regular, [])
    out['empty int grid'] = _water_level_case(
        regular, np.array([], dtype='int64')
    )
    out['grid of one'] = _water_level_case(regular, [1800])
    out['grid of two'] = _water_level_case(regular, [1800, 3600])
    out['float grid'] = _water_level_case(
        regular, np.array(grid, dtype='float64')
    )
    out['zeta shorter than grid'] = _water_level_case(
        list(range(20000, 60001, 1000)), grid
    )
    out['zeta shorter than grid, gap'] = _water_level_case(
        without(list(range(20000, 60001, 1000)), (30000, 40000)), grid
    )
    rng = np.random.RandomState(20260927)
    for trial in range(12):
        n = int(rng.randint(3, 200))
        step = int(rng.choice([300, 600, 1200, 1800]))
        epochs = (np.arange(n) * step + int(rng.randint(-5000, 5000))).tolist()
        n_gaps = int(rng.randint(0, 5))
        spans = []
        for _ in range(n_gaps):
            lo = int(rng.randint(epochs[0], epochs[-1]))
            spans.append((lo, lo + int(rng.randint(1, 20)) * step))
        kept = without(epochs, *spans)
        if len(kept) < 2:
            kept = epochs
        grid_step = int(rng.choice([1800, 3600]))
        start = (epochs[0] // grid_step + int(rng.randint(-2, 3))) * grid_step
        random_grid = list(
            range(start, epochs[-1] + int(rng.randint(-2, 3)) * grid_step,
                  grid_step)
        )
        out['random {}'.format(trial)] = _water_level_case(
            kept, random_grid, rng.normal(-200, 50, len(kept)).tolist()
        )
    return out


if __name__ == '__main__':
    H.main(2, scenarios)
