"""Differential check for refactor2.diff (Spline.__call__ clamp on a float copy)

Evaluates splines on inputs of every flavour (float, all integer
dtypes incl. extremes, bool, low/high precision floats, objects, bad
input, scalars, lists, 0-d, empty, masked, read-only, strided) with the
original and the refactored package and compares results, result
types, exceptions and warnings exactly; also checks that the caller's
arrays are never modified.

"""

import os
import sys

sys.path.insert(0, os.path.dirname(os.path.abspath(__file__)))
import dc_common  # noqa: E402


def worker(rec):
    import decimal
    import fractions
    import io
    import numpy as np
    import yaml
    import spowtd.spline as spline_mod
    import spowtd.specific_yield as sy_mod
    import spowtd.transmissivity as t_mod
    import spowtd.simulate_rise as simulate_rise_mod
    import spowtd.test.conftest as conftest

    splines = {
        'linear': spline_mod.Spline.from_points(
            [(-3.0, 1.0), (-1.0, 4.0), (0.5, 2.0), (7.0, 2.5)], order=1
        ),
        'cubic': spline_mod.Spline.from_points(
            zip(
                [-291.7, -183.1, -15.74, 10.65, 38.78, 168.3],
                [0.1358, 0.1671, 0.2541, 0.2907, 0.2892, 0.6857],
            ),
            order=3,
        ),
        # first knot exactly 0.0 (signed-zero clamp), integer-valued knots
        'zero-start': spline_mod.Spline.from_points(
            [(0, 0), (1, 2), (3, -1), (200, 5)], order=1
        ),
        'zero-end': spline_mod.Spline.from_points(
            [(-4, 0.5), (-1, 2), (0, 0)], order=1
        ),
        # hand-made tck: python-float knots, integer knots, float32 knots
        'tck-lists': spline_mod.Spline(
            ([0.1, 0.1, 1.3, 2.7, 2.7], [1.0, 3.0, 2.0, 0.0, 0.0], 1)
        ),
        'tck-int-knots': spline_mod.Spline(
            (
                np.array([0, 0, 2, 5, 5]),
                np.array([1.0, 3.0, 2.0, 0.0, 0.0]),
                1,
            )
        ),
        'tck-f32-knots': spline_mod.Spline(
            (
                np.array([0.1, 0.1, 1.3, 2.7, 2.7], dtype=np.float32),
                np.array([1.0, 3.0, 2.0, 0.0, 0.0]),
                1,
            )
        ),
        'tck-pyint-list': spline_mod.Spline(
            ([0, 0, 2, 1000, 1000], [1.0, 3.0, 2.0, 0.0, 0.0], 1)
        ),
    }

    rng = np.random.default_rng(12345)
    big = rng.uniform(-400.0, 400.0, size=1000)
    ro = np.linspace(-5, 9, 15)
    ro.setflags(write=False)
    inputs = [
        ('f8 array', np.array([-10.0, -3.0, -2.5, 0.0, 0.5, 6.9, 7.0, 99.0])),
        ('f8 random', big),
        ('f8 strided', big[::-3]),
        ('f8 2d', big[:12].reshape(3, 4)),
        ('f8 2d transposed', big[:12].reshape(3, 4).T),
        ('f8 read-only', ro),
        ('f8 special', np.array([np.nan, np.inf, -np.inf, -0.0, 0.0, 1e-320])),
        ('f8 empty', np.array([], dtype=float)),
        ('f8 0-d', np.array(0.25)),
        ('f8 0-d below', np.array(-1e9)),
        ('f8 big-endian', np.array([-9.0, 0.3, 50.0], dtype='>f8')),
        ('f4 array', np.array([-10.0, 0.1, 0.3, 1.7, 99.0], dtype=np.float32)),
        ('f2 array', np.array([-10.0, 0.1, 0.3, 1.7, 99.0], dtype=np.float16)),
        (
            'longdouble array',
            np.array([-10.0, 0.1, 0.3, 1.7, 99.0], dtype=np.longdouble),
        ),
        ('i8 array', np.arange(-12, 13)),
        ('i8 extremes', np.array([-(2 ** 63), -(2 ** 53) - 1, 2 ** 53 + 1,
                                  2 ** 63 - 1])),
        ('i8 empty', np.array([], dtype=np.int64)),
        ('i8 0-d', np.array(3)),
        ('i8 2d', np.arange(-6, 6).reshape(3, 4)),
        ('i4 array', np.arange(-12, 13, dtype=np.int32)),
        ('i4 big-endian', np.arange(-12, 13).astype('>i4')),
        ('i2 array', np.arange(-300, 300, 25, dtype=np.int16)),
        ('i1 array', np.array([-128, -1, 0, 1, 2, 127], dtype=np.int8)),
        ('u1 array', np.array([0, 1, 2, 5, 255], dtype=np.uint8)),
        ('u2 array', np.array([0, 1, 2, 5, 65535], dtype=np.uint16)),
        ('u4 array', np.array([0, 1, 2, 5, 2 ** 32 - 1], dtype=np.uint32)),
        ('u8 array', np.array([0, 1, 2 ** 53 + 1, 2 ** 64 - 1],
                              dtype=np.uint64)),
        ('bool array', np.array([True, False, True])),
        ('c16 array', np.array([1 + 2j, -5 + 0j])),
        ('object ints', np.array([1, -20, 2 ** 70], dtype=object)),
        ('object mixed', np.array([1, 0.5, fractions.Fraction(1, 3)],
                                  dtype=object)),
        ('object decimal', np.array([decimal.Decimal('0.5')], dtype=object)),
        ('object none', np.array([None, 1.0], dtype=object)),
        ('str array', np.array(['0.5', '1'])),
        ('datetime array', np.array(['2020-01-01'], dtype='M8[D]')),
        ('timedelta array', np.array([1, 2], dtype='m8[s]')),
        ('structured', np.zeros(2, dtype=[('a', 'f8'), ('b', 'i4')])),
        ('masked f8', np.ma.masked_array([-9.0, 0.3, 50.0],
                                         mask=[False, True, False])),
        ('masked i8', np.ma.masked_array([-9, 1, 50],
                                         mask=[True, False, False])),
        ('matrix', np.matrix([[-9.0, 0.3], [1.0, 50.0]])),
        ('py float', 0.75),
        ('py float below', -1e300),
        ('py float nan', float('nan')),
        ('py float -0.0', -0.0),
        ('py int', 2),
        ('py int 0', 0),
        ('py int neg', -7),
        ('py int 2**53+1', 2 ** 53 + 1),
        ('py int 2**63', 2 ** 63),
        ('py int 2**64-1', 2 ** 64 - 1),
        ('py int 2**64', 2 ** 64),
        ('py int 10**400', 10 ** 400),
        ('py bool', True),
        ('py complex', 1 + 2j),
        ('py str', '0.5'),
        ('py bad str', 'abc'),
        ('py none', None),
        ('py bytes', b'1'),
        ('fraction', fractions.Fraction(1, 3)),
        ('decimal', decimal.Decimal('0.5')),
        ('np.float64', np.float64(1.25)),
        ('np.float32', np.float32(0.1)),
        ('np.float16', np.float16(0.1)),
        ('np.longdouble', np.longdouble(0.1)),
        ('np.int64', np.int64(1)),
        ('np.int8', np.int8(-100)),
        ('np.uint64', np.uint64(2 ** 64 - 1)),
        ('np.bool', np.bool_(True)),
        ('np.complex128', np.complex128(1 + 0j)),
        ('list floats', [-10.0, 0.0, 0.5, 1.0]),
        ('list ints', [-10, 0, 1, 2, 300]),
        ('list mixed', [1, 2.5, True]),
        ('list big ints', [2 ** 63, -1]),
        ('list huge int', [2 ** 64, 1]),
        ('list f4', [np.float32(0.1), np.float32(1.7)]),
        ('list nested', [[-1, 0], [1, 2]]),
        ('list ragged', [1, [2, 3]]),
        ('list empty', []),
        ('list str', ['1', 2]),
        ('list none', [None, 2]),
        ('tuple ints', (-1, 1, 2)),
        ('tuple of arrays', (np.arange(3), np.arange(3) + 0.5)),
        ('range', range(-2, 4)),
        ('generator', (v for v in [1.0, 2.0])),
        ('set', {1.0}),
        ('dict', {1.0: 2.0}),
    ]

    def evaluate(spline, x, der):
        result = spline(x, der=der)
        return [type(result).__name__, result]

    for sname, spline in splines.items():
        rec.add('{} domain'.format(sname), list(spline.domain()))
        for xname, x in inputs:
            if xname == 'generator':
                x = (v for v in [1.0, 2.0])
            before = (
                dc_common.canon(np.array(x)) if isinstance(x, np.ndarray)
                else None
            )
            for der in (0, 1) if sname != 'cubic' else (0, 1, 2):
                rec.call(
                    '{} ({}, der={})'.format(sname, xname, der),
                    evaluate,
                    spline,
                    x,
                    der,
                )
            if before is not None:
                assert dc_common.canon(np.array(x)) == before, xname
        for a, b in [(-5.0, 9.0), (2, -400), (0, 0), (-1000, 1000), (1, 2)]:
            rec.call(
                '{} integrate({}, {})'.format(sname, a, b),
                spline.integrate,
                a,
                b,
            )

    # Users of Spline in the package, on the sample parameters
    with open(conftest.get_parameter_file_path('spline'), 'rt') as f:
        spline_pars = yaml.safe_load(f)
    with open(conftest.get_parameter_file_path('peatclsm'), 'rt') as f:
        peatclsm_pars = yaml.safe_load(f)
    levels = [
        np.linspace(-400.0, 300.0, 57),
        np.arange(-400, 300, 25),
        np.arange(-400, 300, 25, dtype=np.int16),
        -15.74,
        10,
    ]
    for name, pars in (('spline', spline_pars), ('peatclsm', peatclsm_pars)):
        sy = sy_mod.create_specific_yield_function(
            dict(pars['specific_yield'])
        )
        for n, level in enumerate(levels):
            rec.call('{} Sy levels[{}]'.format(name, n), sy, level)
        rec.call('{} Sy integrate'.format(name), sy.integrate, -250, 130.5)
    transmissivity = t_mod.create_transmissivity_function(
        dict(spline_pars['transmissivity'])
    )
    for n, level in enumerate(levels):
        rec.call('spline T levels[{}]'.format(n), transmissivity, level)
    rec.call('spline T conductivity', transmissivity.conductivity, 3)

    for sample_no in (1, 2):
        connection = dc_common.sample_connection(sample_no, recession=False)
        for kind in ('peatclsm', 'spline'):
            outfile = io.StringIO()
            with open(
                conftest.get_parameter_file_path(kind), 'rt'
            ) as parameter_file:
                rec.call(
                    'simulate_rise sample {} {}'.format(sample_no, kind),
                    simulate_rise_mod.simulate_rise,
                    connection=connection,
                    parameters=parameter_file,
                    outfile=outfile,
                    observations_only=False,
                )
            rec.add('  output', outfile.getvalue())
        connection.close()


if __name__ == '__main__':
    dc_common.main(2, worker, os.path.abspath(__file__))
