"""Differential check for refactor4.diff (simulate_recession.py)

Runs compute_recession_curve on synthetic grids (ascending, descending,
irregular, one or two points, empty, 2-D, integer dtype) with the sample
specific yield / transmissivity functions and with simple closures, and
dump_simulated_recession / simulate_recession on both sample data sets in
both output modes (and on a database without curvature), with the original
and the refactored package; asserts bit-exact equality of arrays, of the YAML
text written and of exception messages.
"""

import io
import warnings

import _dc_harness


def worker():
    import numpy as np
    import yaml

    import spowtd.simulate_recession as sr_mod
    import spowtd.specific_yield as sy_mod
    import spowtd.transmissivity as t_mod
    from spowtd.test import conftest

    warnings.simplefilter('ignore')
    np.seterr(all='ignore')
    capture = _dc_harness.capture
    results = {}

    def load_parameters(name):
        with open(conftest.get_parameter_file_path(name), 'rt') as f:
            return yaml.safe_load(f)

    # --- compute_recession_curve -------------------------------------------
    functions = {}
    for name in ('spline', 'peatclsm'):
        parameters = load_parameters(name)
        functions[name] = (
            sy_mod.create_specific_yield_function(
                parameters['specific_yield']
            ),
            t_mod.create_transmissivity_function(
                parameters['transmissivity']
            ),
        )
    calls = []

    def recording_sy(zeta_mm):
        calls.append(float(zeta_mm))
        return 0.2 + 1e-4 * zeta_mm

    functions['closures'] = (recording_sy, lambda zeta_mm: 3.0 + 0.01 * zeta_mm)

    def failing_sy(zeta_mm):
        raise RuntimeError('no specific yield at {}'.format(zeta_mm))

    functions['failing'] = (failing_sy, lambda zeta_mm: 1.0)

    rng = np.random.default_rng(4)
    grids = {
        'test_grid': np.linspace(0, -400, 10),
        'ascending': np.linspace(-380.0, -5.0, 17),
        'irregular': np.sort(rng.uniform(-280, 0, size=13)),
        'repeated_points': np.array([-50.0, -50.0, -40.0, -40.0, -10.0]),
        'two_points': np.array([-20.0, -120.0]),
        'one_point': np.array([-33.0]),
        'integer_dtype': np.arange(-200, 0, 25),
        'empty': np.array([], dtype=float),
        'two_dimensional': np.array([[-10.0, -20.0], [-30.0, -40.0]]),
        'zero_dimensional': np.array(-10.0),
        'with_nan': np.array([-10.0, float('nan'), -30.0]),
        'a_list': [-10.0, -20.0],
    }
    settings = [
        # (mean_elapsed_time_d, curvature_km, et_mm_d)
        (19.0, 2.36e-3, 4.15),
        (0.0, 0.0, 3.0),
        (5, 1, 0),
        (np.float64(-2.5), 0.5, 1e-9),
    ]
    for f_name, (specific_yield, transmissivity) in functions.items():
        for g_name, grid in grids.items():
            for k, (mean_d, curvature_km, et_mm_d) in enumerate(settings):
                if f_name in ('spline', 'peatclsm') and k > 1:
                    continue
                del calls[:]
                grid_before = np.array(grid, copy=True)
                outcome = capture(
                    sr_mod.compute_recession_curve,
                    specific_yield,
                    transmissivity,
                    grid,
                    mean_elapsed_time_d=mean_d,
                    curvature_km=curvature_km,
                    et_mm_d=et_mm_d,
                )
                results['curve_{}_{}_{}'.format(f_name, g_name, k)] = {
                    'outcome': outcome,
                    'grid_unchanged': bool(
                        np.array_equal(
                            grid_before, np.asarray(grid), equal_nan=True
                        )
                    ),
                    'integrand_calls': list(calls),
                }
    # failed preconditions; division by zero in the integrand
    spline_functions = functions['spline']
    for name, (curvature_km, et_mm_d) in {
        'negative_et': (1.0, -1.0),
        'negative_curvature': (-1.0, 1.0),
        'both_zero': (0.0, 0.0),
        'nan_et': (1.0, float('nan')),
    }.items():
        results['curve_' + name] = capture(
            sr_mod.compute_recession_curve,
            spline_functions[0],
            spline_functions[1],
            grids['test_grid'],
            mean_elapsed_time_d=1.0,
            curvature_km=curvature_km,
            et_mm_d=et_mm_d,
        )

    # --- simulate_recession / dump_simulated_recession ----------------------
    peatclsm_high_ceiling = load_parameters('peatclsm')
    peatclsm_high_ceiling['transmissivity']['zeta_max_cm'] = 25.0
    parameter_texts = {}
    for name in ('spline', 'peatclsm'):
        with open(conftest.get_parameter_file_path(name), 'rt') as f:
            parameter_texts[name] = f.read()
    parameter_texts['peatclsm_high_ceiling'] = yaml.dump(peatclsm_high_ceiling)
    parameter_texts['no_transmissivity'] = yaml.dump(
        {'specific_yield': load_parameters('spline')['specific_yield']}
    )

    for sample in (1, 2):
        connection = _dc_harness.build_database(sample)
        for name, text in parameter_texts.items():
            results['simulate_{}_{}'.format(sample, name)] = capture(
                sr_mod.simulate_recession, connection, io.StringIO(text)
            )
            for observations_only in (False, True):
                outfile = io.StringIO()
                outcome = capture(
                    sr_mod.dump_simulated_recession,
                    connection=connection,
                    parameter_file=io.StringIO(text),
                    outfile=outfile,
                    observations_only=observations_only,
                )
                results[
                    'dump_{}_{}_{}'.format(sample, name, observations_only)
                ] = (outcome, outfile.getvalue())
        connection.close()

    # curvature not set
    connection = _dc_harness.build_database(1, curvature_m_km2=None)
    for observations_only in (False, True):
        outfile = io.StringIO()
        outcome = capture(
            sr_mod.dump_simulated_recession,
            connection,
            io.StringIO(parameter_texts['spline']),
            outfile,
            observations_only,
        )
        results['dump_no_curvature_{}'.format(observations_only)] = (
            outcome, outfile.getvalue()
        )
    connection.close()

    # dump with a stubbed simulate_recession: empty curve, one row, NaN / inf
    original_simulate = sr_mod.simulate_recession
    stubs = {
        'empty': (np.array([]), np.array([]), np.array([])),
        'one_row': (np.array([1.5]), np.array([-2.0]), np.array([0.25])),
        'special_values': (
            np.array([0.0, float('nan'), 1e300]),
            np.array([-0.0, -12.34, float('inf')]),
            np.array([1e-320, -1.0, 2.0 / 3.0]),
        ),
        'unequal_lengths': (
            np.array([1.0, 2.0, 3.0]), np.array([-1.0, -2.0]),
            np.array([5.0, 6.0, 7.0, 8.0]),
        ),
        'integer_arrays': (
            np.array([1, 2]), np.array([-3, -4]), np.array([5, 6]),
        ),
    }
    try:
        for name, stub in stubs.items():
            sr_mod.simulate_recession = (
                lambda connection, parameter_file, stub=stub: stub
            )
            for observations_only in (False, True):
                outfile = io.StringIO()
                outcome = capture(
                    sr_mod.dump_simulated_recession,
                    None, None, outfile, observations_only,
                )
                results['stub_{}_{}'.format(name, observations_only)] = (
                    outcome, outfile.getvalue()
                )
    finally:
        sr_mod.simulate_recession = original_simulate
    return results


if __name__ == '__main__':
    _dc_harness.main(__file__, 'refactor4.diff', worker)
