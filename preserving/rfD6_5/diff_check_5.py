"""Differential check for refactor5.diff (pestfiles.generate_curves_pst_file)"""

import os
import sys

sys.path.insert(0, os.path.dirname(os.path.abspath(__file__)))
import diff_check_common as common  # noqa: E402


# Modifications of the sample databases that change the observation
# vectors and their lengths (or make the queries fail)
SCRIPTS = {
    'as_is': None,
    'no_rise': 'DELETE FROM rising_interval_zeta;',
    'no_recession': 'DELETE FROM recession_interval_zeta;',
    'neither': (
        'DELETE FROM rising_interval_zeta; '
        'DELETE FROM recession_interval_zeta;'
    ),
    'one_rise_level': """
        DELETE FROM rising_interval_zeta
        WHERE zeta_number != (SELECT min(zeta_number)
                              FROM rising_interval_zeta);""",
    'one_recession_level': """
        DELETE FROM recession_interval_zeta
        WHERE zeta_number != (SELECT max(zeta_number)
                              FROM recession_interval_zeta);""",
    'thinned': """
        DELETE FROM rising_interval_zeta WHERE zeta_number % 3 = 0;
        DELETE FROM recession_interval_zeta WHERE zeta_number % 7 != 0;""",
    'coarser_grid': 'UPDATE zeta_grid SET grid_interval_mm = 2.5;',
    'negative_grid': 'UPDATE zeta_grid SET grid_interval_mm = -1.0;',
    'rise_view_dropped': 'DROP VIEW average_rising_depth;',
    'recession_view_dropped': 'DROP VIEW average_recession_time;',
    # Views replaced by tables with special values: NULL, integers,
    # text, huge and tiny numbers, rows inserted out of zeta_mm order
    'special_values': """
        DROP VIEW average_rising_depth;
        DROP VIEW average_recession_time;
        CREATE TABLE average_rising_depth (zeta_mm, mean_crossing_depth_mm);
        CREATE TABLE average_recession_time (zeta_mm, elapsed_time_s);
        INSERT INTO average_rising_depth VALUES
          (3, 1e300), (1, 2), (2, -0.0), (5, 1e-300), (4, 0.1),
          (6, 123456789.123456789), (7, -7);
        INSERT INTO average_recession_time VALUES
          (1, 86400), (3, 43200.5), (2, -1), (4, 1e22), (5, 7);""",
    'null_storage': """
        DROP VIEW average_rising_depth;
        CREATE TABLE average_rising_depth (zeta_mm, mean_crossing_depth_mm);
        INSERT INTO average_rising_depth VALUES (1, 2.5), (2, NULL);""",
    'null_time': """
        DROP VIEW average_recession_time;
        CREATE TABLE average_recession_time (zeta_mm, elapsed_time_s);
        INSERT INTO average_recession_time VALUES (1, 2.5), (2, NULL);""",
    'text_time': """
        DROP VIEW average_recession_time;
        CREATE TABLE average_recession_time (zeta_mm, elapsed_time_s);
        INSERT INTO average_recession_time VALUES (1, 'soon');""",
}


class RecordingFile:
    """Output file that records every write call"""

    def __init__(self):
        self.writes = []

    def write(self, text):
        self.writes.append(text)
        return len(text)


def collect():
    import contextlib
    import copy
    import io
    import sqlite3
    import tempfile

    import yaml

    import spowtd.pestfiles as pestfiles_mod
    import spowtd.user_interface as cli_mod
    from spowtd.test import conftest

    parameters = {}
    for parameterization in ('peatclsm', 'spline'):
        with open(
            conftest.get_parameter_file_path(parameterization), 'rt'
        ) as parameter_file:
            parameters[parameterization] = yaml.safe_load(parameter_file)
    parameters['spline_one_knot'] = copy.deepcopy(parameters['spline'])
    parameters['spline_one_knot']['specific_yield']['sy_knots'] = [0.3]
    parameters['spline_one_knot']['transmissivity']['K_knots_km_d'] = []
    parameters['bad_type'] = {'specific_yield': {'type': 'other'}}
    parameters['spline_missing_T'] = {
        'specific_yield': {'type': 'spline', 'sy_knots': [1, 2]},
        'transmissivity': {'type': 'spline'},
    }

    results = {}
    for sample in (1, 2):
        base = common.build_sample_connection(sample)
        for name, script in SCRIPTS.items():
            connection = common.clone_connection(base, script)
            for pname, pars in parameters.items():
                for precision in (17, 6, 1, 0, 25, '3', None, -1, 2.5, '{}'):
                    if precision != 17 and (
                        pname not in ('peatclsm', 'spline')
                        or name
                        not in ('as_is', 'special_values', 'neither')
                    ):
                        continue
                    outfile = RecordingFile()
                    results[(sample, name, pname, repr(precision))] = (
                        common.outcome(
                            pestfiles_mod.generate_curves_pst_file,
                            connection=connection,
                            parameters=copy.deepcopy(pars),
                            configuration={},
                            outfile=outfile,
                            precision=precision,
                        ),
                        tuple(outfile.writes),
                        connection.in_transaction,
                    )
            # Through the dispatcher (default precision)
            for parameterization in ('peatclsm', 'spline'):
                outfile = io.StringIO()
                with open(
                    conftest.get_parameter_file_path(parameterization), 'rt'
                ) as parameter_file:
                    status = common.outcome(
                        pestfiles_mod.generate_curves_pestfiles,
                        connection,
                        parameter_file=parameter_file,
                        outfile_type='pst',
                        configuration_file=None,
                        outfile=outfile,
                    )
                results[(sample, name, 'dispatch', parameterization)] = (
                    status,
                    outfile.getvalue(),
                )
            # With sqlite3.Row as row factory
            connection.row_factory = sqlite3.Row
            outfile = io.StringIO()
            results[(sample, name, 'row_factory')] = (
                common.outcome(
                    pestfiles_mod.generate_curves_pst_file,
                    connection=connection,
                    parameters=copy.deepcopy(parameters['spline']),
                    configuration={},
                    outfile=outfile,
                    precision=17,
                ),
                outfile.getvalue(),
            )
            # The rise control file is generated by a sibling function;
            # it must be unaffected
            connection.row_factory = None
            outfile = io.StringIO()
            results[(sample, name, 'rise-pst')] = (
                common.outcome(
                    pestfiles_mod.generate_rise_pst_file,
                    connection=connection,
                    parameters=copy.deepcopy(parameters['peatclsm']),
                    configuration={},
                    outfile=outfile,
                    precision=17,
                ),
                outfile.getvalue(),
            )
            connection.close()
        # Through the command-line interface, on a database file
        with tempfile.TemporaryDirectory() as tmpdir:
            db_path = os.path.join(tmpdir, 'sample.sqlite3')
            file_db = sqlite3.connect(db_path)
            base.backup(file_db)
            file_db.close()
            for parameterization in ('peatclsm', 'spline'):
                captured = io.StringIO()
                with contextlib.redirect_stdout(captured):
                    status = common.outcome(
                        cli_mod.main,
                        [
                            'pestfiles',
                            'curves',
                            db_path,
                            conftest.get_parameter_file_path(parameterization),
                            'pst',
                        ],
                    )
                results[(sample, 'cli', parameterization)] = (
                    status,
                    captured.getvalue(),
                )
                assert status == ('ok', ('int', 0)), status
                assert '* observation data' in captured.getvalue()
        base.close()
    return results


if __name__ == '__main__':
    common.main(os.path.abspath(__file__), 'refactor5.diff', collect)
