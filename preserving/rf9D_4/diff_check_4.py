#!/venv/bin/python
"""Differential check for refactor4.diff (spowtd/pestfiles.py)

generate_rise_ins_file, generate_rise_pst_file,
generate_curves_ins_file, generate_curves_pst_file: counting queries
assembled from a constant, observation lines through a helper.

Builds the original module (git show HEAD:...) and the refactored one
(original + refactor4.diff) in a temporary directory, imports both
under private names and compares them exactly on both sample data
sets and on degenerate databases, parameter files and precisions:
output files, exceptions (type and message), the sequence of calls
made on the connection and its cursors (SQL text included), what had
been written when an error was raised, and database dumps.

"""

import importlib.util
import io
import os
import sqlite3
import subprocess
import sys
import tempfile

import numpy as np

HERE = os.path.dirname(os.path.abspath(__file__))
# (DIFF_CHECK_PATCH: another patch, to try the check on a mutant)
PATCH = os.environ.get(
    'DIFF_CHECK_PATCH', os.path.join(HERE, 'refactor4.diff')
)
PATHS = ['spowtd/pestfiles.py']
SAMPLE_DATA_DIR = os.path.join(HERE, 'spowtd', 'test', 'sample_data')


def build_trees():
    """Return (orig_dir, new_dir) holding original and patched files"""
    root = tempfile.mkdtemp(prefix='dc4_')
    dirs = []
    for label in ('orig', 'new'):
        top = os.path.join(root, label)
        for path in PATHS:
            dest = os.path.join(top, path)
            os.makedirs(os.path.dirname(dest), exist_ok=True)
            text = subprocess.check_output(
                ['git', 'show', 'HEAD:' + path], cwd=HERE
            )
            with open(dest, 'wb') as f:
                f.write(text)
        dirs.append(top)
    subprocess.check_call(['git', 'apply', PATCH], cwd=dirs[1])
    for path in PATHS:
        with open(os.path.join(dirs[0], path), 'rb') as f0, open(
            os.path.join(dirs[1], path), 'rb'
        ) as f1:
            assert f0.read() != f1.read(), 'patch changed nothing'
    return dirs


def load(top, path, name):
    spec = importlib.util.spec_from_file_location(
        name, os.path.join(top, path)
    )
    module = importlib.util.module_from_spec(spec)
    sys.modules[name] = module
    spec.loader.exec_module(module)
    return module


def outcome(function, *args, **kwargs):
    """Description of the return value or of the exception raised"""
    try:
        return ('returned', repr(function(*args, **kwargs)))
    except BaseException as exc:  # pylint: disable=broad-except
        return ('raised', type(exc).__name__, str(exc))


class Log(list):
    """Record of events, with a failure injected at the n'th call"""

    def __init__(self, fail_at=None):
        list.__init__(self)
        self.fail_at = fail_at
        self.n_calls = 0

    def note(self, *event):
        self.append(event)
        self.n_calls += 1
        if self.n_calls == self.fail_at:
            raise RuntimeError('injected failure at {}'.format(event))


class RecordingCursor:
    """Cursor proxy that records every call made on it"""

    def __init__(self, cursor, log):
        self._cursor = cursor
        self._log = log

    def execute(self, *args):
        self._log.note('execute', args)
        self._cursor.execute(*args)
        return self

    def fetchone(self):
        self._log.note('fetchone')
        return self._cursor.fetchone()

    def fetchall(self):
        self._log.note('fetchall')
        return self._cursor.fetchall()

    def __iter__(self):
        self._log.note('iter')
        for row in self._cursor:
            self._log.note('row')
            yield row

    def close(self):
        self._log.note('close')
        self._cursor.close()


class RecordingConnection:
    """Connection proxy that records every call made on it"""

    def __init__(self, connection, fail_at=None):
        self._connection = connection
        self.log = Log(fail_at)

    def cursor(self):
        self.log.note('cursor')
        return RecordingCursor(self._connection.cursor(), self.log)

    def __getattr__(self, name):
        self.log.note('getattr', name)
        return getattr(self._connection, name)


class RecordingFile(io.StringIO):
    """File that records, in the log, the reads and writes made on it"""

    def __init__(self, text, log, label):
        io.StringIO.__init__(self, text)
        self._log = log
        self._label = label

    def read(self, *args):
        self._log.append((self._label, 'read'))
        return io.StringIO.read(self, *args)

    def write(self, text):
        self._log.append((self._label, 'write', text))
        return io.StringIO.write(self, text)


class LoggedPrecision:
    """A precision that records each time it is formatted"""

    events = []

    def __init__(self, text, fail=False):
        self.text = text
        self.fail = fail

    def __repr__(self):
        return 'LoggedPrecision({!r}, {!r})'.format(self.text, self.fail)

    def __format__(self, spec):
        self.events.append(('precision formatted', spec))
        if self.fail:
            raise RuntimeError('precision cannot be formatted')
        return self.text


def build_database(sample):
    """Database with classified sample data and rise/recession offsets"""
    import spowtd.classify as classify_mod
    import spowtd.load as load_mod
    import spowtd.recession as recession_mod
    import spowtd.rise as rise_mod
    import spowtd.zeta_grid as zeta_grid_mod

    connection = sqlite3.connect(':memory:')

    def path(kind):
        return os.path.join(SAMPLE_DATA_DIR, '{}_{}.txt'.format(kind, sample))

    with open(path('precipitation'), 'rt', encoding='utf-8-sig') as p_f, open(
        path('evapotranspiration'), 'rt', encoding='utf-8-sig'
    ) as e_f, open(path('water_level'), 'rt', encoding='utf-8-sig') as z_f:
        load_mod.load_data(
            connection=connection,
            precipitation_data_file=p_f,
            evapotranspiration_data_file=e_f,
            water_level_data_file=z_f,
            time_zone_name='Africa/Lagos',
        )
    classify_mod.classify_intervals(
        connection,
        storm_rain_threshold_mm_h=8.0,
        rising_jump_threshold_mm_h=5.0,
    )
    zeta_grid_mod.populate_zeta_grid(connection, grid_interval_mm=1.0)
    rise_mod.find_rise_offsets(connection)
    recession_mod.find_recession_offsets(connection)
    connection.commit()
    return connection


def clone(connection, statements=()):
    """Copy of a database, with some statements applied"""
    copy = sqlite3.connect(':memory:')
    connection.backup(copy)
    for statement in statements:
        copy.execute(statement)
    copy.commit()
    return copy


def dump(connection):
    return '\n'.join(connection.iterdump())


def read(name):
    with open(os.path.join(SAMPLE_DATA_DIR, name), 'rt') as f:
        return f.read()


def replace_relation(database, name, select):
    """Statements that replace a table or view by a view"""
    kind = database.execute(
        "SELECT type FROM sqlite_master WHERE name = ?", (name,)
    ).fetchone()[0]
    return [
        'DROP {} {}'.format(kind.upper(), name),
        'CREATE VIEW {} AS {}'.format(name, select),
    ]


def drop_relation(database, name):
    """Statement that drops a table or view"""
    kind = database.execute(
        "SELECT type FROM sqlite_master WHERE name = ?", (name,)
    ).fetchone()[0]
    return ['DROP {} {}'.format(kind.upper(), name)]


def main():
    orig_dir, new_dir = build_trees()
    orig = load(orig_dir, PATHS[0], 'dc4_pestfiles_orig')
    new = load(new_dir, PATHS[0], 'dc4_pestfiles_new')
    n_cases = 0

    spline_text = read('spline_parameters.yml')
    peatclsm_text = read('peatclsm_parameters.yml')
    parameter_texts = {
        'spline': spline_text,
        'peatclsm': peatclsm_text,
        'mixed: peatclsm Sy, spline T': (
            peatclsm_text.split('transmissivity:')[0]
            + 'transmissivity:'
            + spline_text.split('transmissivity:')[1]
        ),
        'mixed: spline Sy, peatclsm T': (
            spline_text.split('transmissivity:')[0]
            + 'transmissivity:'
            + peatclsm_text.split('transmissivity:')[1]
        ),
        'empty': '',
        'list': '- 1\n- 2\n',
        'no transmissivity': spline_text.split('transmissivity:')[0],
        'no specific yield': 'transmissivity:'
        + spline_text.split('transmissivity:')[1],
        'Sy of unknown type': spline_text.replace(
            'specific_yield:\n  type: spline',
            'specific_yield:\n  type: nonesuch',
        ),
        'Sy type a list': spline_text.replace(
            'specific_yield:\n  type: spline',
            'specific_yield:\n  type: [spline]',
        ),
        'T of unknown type': spline_text.replace(
            'transmissivity:\n  type: spline',
            'transmissivity:\n  type: nonesuch',
        ),
        'Sy without knots': 'specific_yield:\n  type: spline\n'
        'transmissivity:' + spline_text.split('transmissivity:')[1],
        'T without knots': spline_text.split('transmissivity:')[0]
        + 'transmissivity:\n  type: spline\n',
        'sy_knots a number': spline_text.split('  sy_knots:')[0]
        + '  sy_knots: 3\ntransmissivity:'
        + spline_text.split('transmissivity:')[1],
        'invalid YAML': 'a: [1, 2\nb: }',
    }
    assert parameter_texts['Sy type a list'] != spline_text
    precisions = [17, 3, 1, 0, -1, 400, '5', ' 7', None, '{}', '}', 2.5, True]
    precisions += [LoggedPrecision('6'), LoggedPrecision('6', fail=True)]
    configurations = [None, '', 'a: 1\n', 'a: [1, 2\nb: }']

    def call(module, kind, database, text, outfile_type, **options):
        """Run an entry point on a recording connection"""
        connection = RecordingConnection(
            database, fail_at=options.pop('fail_at', None)
        )
        log = connection.log
        parameter_file = RecordingFile(text, log, 'parameter file')
        configuration = options.pop('configuration', None)
        configuration_file = (
            None
            if configuration is None
            else RecordingFile(configuration, log, 'configuration file')
        )
        outfile = RecordingFile('', log, 'outfile')
        changes = database.total_changes
        del LoggedPrecision.events[:]
        result = outcome(
            getattr(module, 'generate_{}_pestfiles'.format(kind)),
            connection,
            parameter_file,
            outfile_type,
            configuration_file,
            outfile,
            **options
        )
        assert database.total_changes == changes
        assert not database.in_transaction
        return (
            result,
            list(log),
            outfile.getvalue(),
            list(LoggedPrecision.events),
        )

    def compare(database, context, *args, **options):
        pair = [
            call(module, args[0], database, *args[1:], **dict(options))
            for module in (orig, new)
        ]
        assert pair[0] == pair[1], (context, args[0], args[2:], options)
        return pair[0]

    for sample in (1, 2):
        base = build_database(sample)
        variants = {
            'complete': [],
            'no rises on the grid': ["DELETE FROM rising_interval_zeta"],
            'no recessions on the grid': [
                "DELETE FROM recession_interval_zeta"
            ],
            'nothing on the grid': [
                "DELETE FROM rising_interval_zeta",
                "DELETE FROM recession_interval_zeta",
            ],
            'no rising_interval_zeta': drop_relation(
                base, 'rising_interval_zeta'
            ),
            'no recession_interval_zeta': drop_relation(
                base, 'recession_interval_zeta'
            ),
            'no average_rising_depth': drop_relation(
                base, 'average_rising_depth'
            ),
            'no average_recession_time': drop_relation(
                base, 'average_recession_time'
            ),
            'empty averages': replace_relation(
                base,
                'average_rising_depth',
                'SELECT 1 AS mean_crossing_depth_mm, 1 AS zeta_mm WHERE 0',
            )
            + replace_relation(
                base,
                'average_recession_time',
                'SELECT 1 AS elapsed_time_s, 1 AS zeta_mm WHERE 0',
            ),
            'null and text averages': replace_relation(
                base,
                'average_rising_depth',
                "SELECT NULL AS mean_crossing_depth_mm, 1 AS zeta_mm "
                "UNION ALL SELECT 2.5, 2 UNION ALL SELECT 'x', 3 "
                "UNION ALL SELECT 7, 4",
            )
            + replace_relation(
                base,
                'average_recession_time',
                "SELECT 86400 AS elapsed_time_s, 1 AS zeta_mm "
                "UNION ALL SELECT NULL, 2 UNION ALL SELECT 'x', 3",
            ),
        }
        for db_label, statements in variants.items():
            database = clone(base, statements)
            before = dump(database)
            n_returned = 0
            for kind in ('rise', 'curves'):
                for outfile_type in ('tpl', 'ins', 'pst', 'nonesuch', None):
                    texts = (
                        parameter_texts
                        if db_label in ('complete', 'empty averages')
                        and sample == 1
                        else {
                            key: parameter_texts[key]
                            for key in (
                                'spline',
                                'peatclsm',
                                'Sy of unknown type',
                                'T without knots',
                            )
                        }
                    )
                    for par_label, text in texts.items():
                        context = (sample, db_label, par_label)
                        result = compare(
                            database, context, kind, text, outfile_type
                        )
                        n_cases += 1
                        n_returned += result[0][0] == 'returned'
                        if par_label not in ('spline', 'peatclsm'):
                            continue
                        for precision in precisions:
                            result = compare(
                                database,
                                context,
                                kind,
                                text,
                                outfile_type,
                                precision=precision,
                            )
                            n_cases += 1
                        for configuration in configurations[1:]:
                            compare(
                                database,
                                context,
                                kind,
                                text,
                                outfile_type,
                                configuration=configuration,
                            )
                            n_cases += 1
                        # A failure injected at each successive call on
                        # the connection and its cursors
                        if outfile_type in ('ins', 'pst') and (
                            db_label
                            in ('complete', 'null and text averages')
                        ):
                            for fail_at in range(1, 50):
                                result = compare(
                                    database,
                                    context,
                                    kind,
                                    text,
                                    outfile_type,
                                    fail_at=fail_at,
                                )
                                n_cases += 1
                                if not (
                                    result[0][0] == 'raised'
                                    and result[0][2].startswith('injected')
                                ):
                                    break
                                assert not result[2]
                            else:
                                raise AssertionError('too many events')
            assert dump(database) == before, (sample, db_label)
            database.close()
            print(
                'sample {} / {}: {} of the plain cases returned'.format(
                    sample, db_label, n_returned
                )
            )

        # Reference files of the test suite: both produce them
        database = clone(base)
        for module in (orig, new):
            for kind in ('rise', 'curves'):
                result = call(module, kind, database, spline_text, 'ins')
                assert result[0][0] == 'returned'
                # (the reference files are numbered by the number of
                # levels, not by the sample)
                references = [
                    read('{}_calibration_{}.ins'.format(kind, n)).splitlines()
                    for n in (1, 2)
                ]
                assert result[2].splitlines() in references
                n_cases += 1
        database.close()
        base.close()

    # The helpers' SQL is the original's, byte for byte
    original_source = subprocess.check_output(
        ['git', 'show', 'HEAD:' + PATHS[0]], cwd=HERE
    ).decode()
    for table in ('rising_interval_zeta', 'recession_interval_zeta'):
        statement = new._COUNT_DISTINCT_ZETA_SQL.format(table)
        assert '"""' + statement + '"""' in original_source, statement

    # Direct calls of the helper-using generators with odd arguments
    for function, parameters in (
        ('generate_rise_pst_file', {'specific_yield': {'type': 'spline'}}),
        ('generate_rise_pst_file', {'specific_yield': {'type': ['spline']}}),
        ('generate_rise_pst_file', {}),
        ('generate_curves_pst_file', {'specific_yield': {'type': 'peatclsm'}}),
        ('generate_curves_pst_file', None),
    ):
        pair = []
        for module in (orig, new):
            database = sqlite3.connect(':memory:')
            connection = RecordingConnection(database)
            outfile = io.StringIO()
            pair.append(
                (
                    outcome(
                        getattr(module, function),
                        connection,
                        parameters,
                        {},
                        outfile,
                        17,
                    ),
                    list(connection.log),
                    outfile.getvalue(),
                )
            )
            database.close()
        assert pair[0] == pair[1], (function, parameters)
        n_cases += 1

    print('compared {} cases'.format(n_cases))
    print('OK')


if __name__ == '__main__':
    main()
