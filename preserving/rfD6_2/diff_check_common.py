"""Shared harness for diff_check_K.py

Builds two copies of the package in a temporary directory -- the
unmodified tree (git archive HEAD) and the same tree with
refactorK.diff applied -- runs a worker script once against each copy
(in a subprocess, with PYTHONPATH pointing at the copy) and compares
the pickled results for exact equality.

The worker script is the calling diff_check_K.py itself, invoked with
the argument "--worker <output pickle>".  It must define collect(),
returning a picklable structure; floats are compared by their bit
patterns (so NaN == NaN and 0.0 != -0.0), numpy arrays by dtype, shape
and bytes, exceptions by type name and message.

"""

import os
import pickle
import struct
import subprocess
import sys
import tempfile

HERE = os.path.dirname(os.path.abspath(__file__))
PYTHON = '/venv/bin/python'


def outcome(function, *args, **kwargs):
    """Call function; return ('ok', frozen result) or ('raised', type, message)"""
    try:
        result = function(*args, **kwargs)
    except BaseException as exc:  # pylint: disable=broad-except
        return ('raised', type(exc).__name__, str(exc))
    return ('ok', freeze(result))


def freeze(value):
    """Turn a value into a structure that compares exactly"""
    import numpy as np

    if isinstance(value, np.ndarray):
        if value.dtype == object:
            return (
                'ndarray-object',
                value.shape,
                tuple(freeze(item) for item in value.ravel().tolist()),
            )
        return (
            'ndarray',
            str(value.dtype),
            value.shape,
            np.ascontiguousarray(value).tobytes(),
        )
    if isinstance(value, np.generic):
        return ('npscalar', str(value.dtype), value.tobytes())
    if isinstance(value, bool) or value is None:
        return ('py', repr(value))
    if isinstance(value, float):
        return ('float', struct.pack('<d', value))
    if isinstance(value, (int, str, bytes)):
        return (type(value).__name__, value)
    if isinstance(value, (list, tuple)):
        return (type(value).__name__, tuple(freeze(item) for item in value))
    if isinstance(value, dict):
        return (
            'dict',
            tuple((freeze(key), freeze(item)) for key, item in value.items()),
        )
    raise TypeError('cannot freeze {!r}'.format(type(value)))


def build_trees(patch_name, workdir):
    """Create orig/ and new/ package trees under workdir"""
    trees = {}
    for label in ('orig', 'new'):
        root = os.path.join(workdir, label)
        os.makedirs(root)
        archive = subprocess.run(
            ['git', '-C', HERE, 'archive', 'HEAD', 'spowtd'],
            check=True,
            stdout=subprocess.PIPE,
        ).stdout
        subprocess.run(['tar', '-x', '-C', root], input=archive, check=True)
        trees[label] = root
    subprocess.run(
        [
            'git',
            'apply',
            '--unsafe-paths',
            '--directory=' + trees['new'],
            os.path.join(HERE, patch_name),
        ],
        check=True,
        cwd=trees['new'],
    )
    return trees


def main(script_path, patch_name, collect):
    """Entry point shared by the diff_check_K.py scripts"""
    if len(sys.argv) == 3 and sys.argv[1] == '--worker':
        # The script directory is the worktree itself; make sure the
        # package is imported from the tree under test (the cwd) instead
        sys.path[:] = [
            entry
            for entry in sys.path
            if os.path.realpath(entry or '.') != os.path.realpath(HERE)
        ]
        sys.path.insert(0, os.getcwd())
        import spowtd

        assert os.path.realpath(spowtd.__file__).startswith(
            os.path.realpath(os.getcwd()) + os.sep
        ), spowtd.__file__
        with open(sys.argv[2], 'wb') as out:
            pickle.dump(collect(), out)
        return
    with tempfile.TemporaryDirectory(prefix='rf_D_check_') as workdir:
        trees = build_trees(patch_name, workdir)
        # The patch must really have changed something
        changed = subprocess.run(
            ['diff', '-rq', trees['orig'], trees['new']],
            stdout=subprocess.PIPE,
            check=False,
        )
        assert changed.returncode == 1, 'patch did not change the tree'
        results = {}
        for label, root in trees.items():
            out_path = os.path.join(workdir, label + '.pickle')
            env = dict(os.environ)
            env['PYTHONPATH'] = root
            env['PYTHONDONTWRITEBYTECODE'] = '1'
            env['PYTHONWARNINGS'] = 'ignore'
            subprocess.run(
                [PYTHON, script_path, '--worker', out_path],
                check=True,
                env=env,
                cwd=root,
            )
            with open(out_path, 'rb') as infile:
                results[label] = pickle.load(infile)
    orig, new = results['orig'], results['new']
    assert orig.keys() == new.keys(), (orig.keys(), new.keys())
    mismatches = [key for key in orig if orig[key] != new[key]]
    for key in mismatches[:20]:
        print('MISMATCH', key, orig[key], new[key], sep='\n  ')
    assert not mismatches, '{} mismatches'.format(len(mismatches))
    n_raised = sum(
        1 for value in orig.values() if value and value[0] == 'raised'
    )
    print(
        '{}: OK, {} cases identical ({} of them exceptions)'.format(
            os.path.basename(script_path), len(orig), n_raised
        )
    )


def build_sample_connection(sample):
    """In-memory database for sample 1 or 2, up to rise and recession curves

    Same steps as the fixtures in spowtd/test/conftest.py and
    test_pestfiles.py, using the package under test.

    """
    import sqlite3

    import spowtd.classify as classify_mod
    import spowtd.load as load_mod
    import spowtd.recession as recession_mod
    import spowtd.rise as rise_mod
    import spowtd.zeta_grid as zeta_grid_mod
    from spowtd.test import conftest

    connection = sqlite3.connect(':memory:')
    with open(
        conftest.get_sample_file_path('precipitation', sample),
        'rt',
        encoding='utf-8-sig',
    ) as precip_f, open(
        conftest.get_sample_file_path('evapotranspiration', sample),
        'rt',
        encoding='utf-8-sig',
    ) as et_f, open(
        conftest.get_sample_file_path('water_level', sample),
        'rt',
        encoding='utf-8-sig',
    ) as zeta_f:
        load_mod.load_data(
            connection=connection,
            precipitation_data_file=precip_f,
            evapotranspiration_data_file=et_f,
            water_level_data_file=zeta_f,
            time_zone_name='Africa/Lagos',
        )
    classify_mod.classify_intervals(
        connection,
        storm_rain_threshold_mm_h=8.0,
        rising_jump_threshold_mm_h=5.0,
    )
    zeta_grid_mod.populate_zeta_grid(connection, grid_interval_mm=1.0)
    rise_mod.find_rise_offsets(connection)
    recession_mod.find_recession_offsets(connection)
    connection.commit()
    return connection


def clone_connection(connection, script=None):
    """Copy of an SQLite database in memory, optionally modified by a script"""
    import sqlite3

    copy = sqlite3.connect(':memory:')
    connection.backup(copy)
    if script is not None:
        copy.executescript(script)
        copy.commit()
    return copy
