"""Differential check for refactor2.diff (PeatclsmSpecificYield.get_Sy_soil)"""

import os
import sys

sys.path.insert(0, os.path.dirname(os.path.abspath(__file__)))
import diff_check_common as common  # noqa: E402


def collect():
    import numpy as np
    import yaml

    import spowtd.specific_yield as sy_mod
    from spowtd.test import conftest

    results = {}
    with open(conftest.get_parameter_file_path('peatclsm'), 'rt') as infile:
        sample = yaml.safe_load(infile)['specific_yield']
    sample.pop('type')

    parameter_sets = {
        'sample': sample,
        'test_suite': dict(sd=0.162, theta_s=0.88, b=7.4, psi_s=-0.024),
        'wide': dict(sd=0.5, theta_s=0.6, b=3.0, psi_s=-0.1),
        'narrow': dict(sd=0.01, theta_s=0.95, b=12.5, psi_s=-0.005),
        'int_b': dict(sd=0.2, theta_s=1, b=4, psi_s=-0.03),
        'np_types': dict(
            sd=np.float64(0.162),
            theta_s=np.float32(0.88),
            b=np.int64(7),
            psi_s=np.float64(-0.024),
        ),
    }
    # Full construction: knots, spline values, integrals
    levels = np.linspace(-1500, 1500, 61)
    for name, pars in parameter_sets.items():
        def build(pars=pars):
            sy = sy_mod.PeatclsmSpecificYield(**pars)
            return (
                sy.zeta_knots_mm,
                sy.sy_knots,
                sy(levels),
                [sy.integrate(lo, hi) for lo, hi in zip(levels, levels[5:])],
            )

        results[('construct', name)] = common.outcome(build)

    # Direct calls on synthetic grids, including odd parameters
    # (positive psi_s, negative or zero b, NaN) and mismatched lengths
    odd_sets = dict(parameter_sets)
    odd_sets.update(
        {
            'psi_positive': dict(sd=0.2, theta_s=0.8, b=5.0, psi_s=0.02),
            'b_negative': dict(sd=0.2, theta_s=0.8, b=-2.5, psi_s=-0.02),
            'b_fraction': dict(sd=0.2, theta_s=0.8, b=0.3, psi_s=-0.02),
            'theta_negative': dict(sd=0.2, theta_s=-0.8, b=3.0, psi_s=-0.02),
            'nan_sd': dict(sd=float('nan'), theta_s=0.8, b=3.0, psi_s=-0.02),
        }
    )
    rng = np.random.default_rng(6)
    grids = {
        'small': (np.linspace(-0.3, 0.3, 13), np.linspace(-0.25, 0.35, 13)),
        'uneven': (
            np.array([-1.0, -0.4, -0.1, 0.0, 0.05, 0.5]),
            np.array([-0.5, -0.2, -0.05, 0.02, 0.3, 0.9]),
        ),
        'random': (
            np.sort(rng.uniform(-1, 1, 17)),
            np.sort(rng.uniform(-1, 1, 17)) + 0.01,
        ),
        'reversed_dz': (
            np.linspace(0.3, -0.3, 7),
            np.linspace(0.2, -0.4, 7),
        ),
        'zero_dz': (np.linspace(-0.3, 0.3, 5), np.linspace(-0.3, 0.3, 5)),
        'ints': (np.arange(-3, 4), np.arange(-2, 5)),
        'float32': (
            np.linspace(-0.3, 0.3, 9).astype('float32'),
            np.linspace(-0.2, 0.4, 9).astype('float32'),
        ),
        'objects': (
            np.array([-0.3, -0.1, 0.1], dtype=object),
            np.array([-0.2, 0.0, 0.2], dtype=object),
        ),
        'single': (np.array([-0.1]), np.array([0.1])),
        'empty': (np.array([]), np.array([])),
        'zu_len1': (np.linspace(-0.3, 0.3, 5), np.array([0.4])),
        'zl_len1': (np.array([-0.4]), np.linspace(-0.3, 0.3, 5)),
        'two_d': (np.zeros((3, 2)), np.ones((3, 2))),
        'lists': ([-0.3, 0.0, 0.3], [-0.2, 0.1, 0.4]),
        'zero_d': (np.array(-0.3), np.array(0.3)),
    }

    def run(sy, out, zl_, zu_):
        try:
            returned = sy.get_Sy_soil(out, zl_, zu_)
        except BaseException as exc:  # pylint: disable=broad-except
            status = ('raised', type(exc).__name__, str(exc))
        else:
            status = ('returned', common.freeze(returned))
        # The output array is also compared after a failure
        return (status, common.freeze(out))

    for pname, pars in odd_sets.items():
        sy = sy_mod.PeatclsmSpecificYield(
            **parameter_sets['test_suite']
        )
        for attr, value in pars.items():
            setattr(sy, attr, value)
        for gname, (zl_, zu_) in grids.items():
            n = len(zl_) if np.ndim(zl_) else 3
            out_lengths = {'same': n, 'shorter': max(n - 2, 0), 'longer': n + 2}
            for lname, out_len in out_lengths.items():
                out = np.full((out_len,), np.nan, dtype='float64')
                results[('direct', pname, gname, lname)] = run(
                    sy, out, zl_, zu_
                )
        results[('direct', pname, 'list-out')] = run(
            sy, [None] * 13, *grids['small']
        )
        results[('direct', pname, 'float32-out')] = run(
            sy, np.zeros(13, dtype='float32'), *grids['small']
        )
        results[('direct', pname, 'unsized-out')] = run(
            sy, np.array(0.0), *grids['small']
        )
        results[('direct', pname, 'unsized-out-empty')] = run(
            sy, np.array(0.0), *grids['empty']
        )
    # b == 0 raises ZeroDivisionError inside campbell_1d_az
    for b_zero in (0, 0.0):
        sy = sy_mod.PeatclsmSpecificYield(**parameter_sets['test_suite'])
        sy.b = b_zero
        out = np.full((13,), np.nan)
        results[('direct', 'b_zero', repr(b_zero))] = run(
            sy, out, *grids['small']
        )
    return results


if __name__ == '__main__':
    common.main(os.path.abspath(__file__), 'refactor2.diff', collect)
