"""Shared machinery of the diff_check_K.py scripts.

main(script, patch, worker) exports the unmodified tree (git archive HEAD)
into two scratch directories, applies `patch` to the second one, runs
`worker()` in a fresh interpreter inside each of them (the script is copied
into the tree root, so `import spowtd` resolves to that tree) and asserts
that the canonicalised results are exactly equal.
"""

import io
import os
import pickle
import shutil
import sqlite3
import subprocess
import sys
import tempfile

HERE = '/tmp/rf_C'
PYTHON = '/venv/bin/python'


# ---------------------------------------------------------------------------
# canonical form: exact, NaN-safe, dtype-aware
def canon(obj):
    import numpy as np

    if isinstance(obj, np.ndarray):
        return ('nd', obj.dtype.str, obj.shape, obj.tobytes())
    if isinstance(obj, np.generic):
        return ('np', obj.dtype.str, obj.tobytes())
    if isinstance(obj, bool) or obj is None:
        return ('c', repr(obj))
    if isinstance(obj, float):
        return ('f', obj.hex())
    if isinstance(obj, int):
        return ('i', obj)
    if isinstance(obj, (str, bytes)):
        return ('s', obj)
    if isinstance(obj, tuple):
        return ('t',) + tuple(canon(v) for v in obj)
    if isinstance(obj, list):
        return ('l',) + tuple(canon(v) for v in obj)
    if isinstance(obj, dict):
        return ('d',) + tuple((canon(k), canon(v)) for k, v in obj.items())
    if isinstance(obj, BaseException):
        return ('exc', type(obj).__name__, repr(obj.args))
    raise TypeError('cannot canonicalise {!r}'.format(type(obj)))


def attempt(func, *args, **kwargs):
    """Result of the call, or the exception it raised"""
    try:
        return ('ok', func(*args, **kwargs))
    except BaseException as exc:  # pylint: disable=broad-except
        return ('raised', exc)


# ---------------------------------------------------------------------------
# database helpers used by the workers
_TEMPLATES = {}


def classified_db(
    sample, storm_threshold=8.0, jump_threshold=5.0, grid_interval_mm=1.0
):
    """Fresh in-memory copy of a loaded and classified sample database

    grid_interval_mm=None leaves zeta_grid empty.
    """
    import spowtd.classify as classify_mod
    import spowtd.load as load_mod
    import spowtd.zeta_grid as zeta_grid_mod

    key = (sample, storm_threshold, jump_threshold)
    if key not in _TEMPLATES:
        data = os.path.join(
            os.path.dirname(load_mod.__file__), 'test', 'sample_data'
        )
        template = sqlite3.connect(':memory:')
        with open(
            os.path.join(data, 'precipitation_{}.txt'.format(sample)),
            'rt',
            encoding='utf-8-sig',
        ) as precip_f, open(
            os.path.join(data, 'evapotranspiration_{}.txt'.format(sample)),
            'rt',
            encoding='utf-8-sig',
        ) as et_f, open(
            os.path.join(data, 'water_level_{}.txt'.format(sample)),
            'rt',
            encoding='utf-8-sig',
        ) as zeta_f:
            load_mod.load_data(
                connection=template,
                precipitation_data_file=precip_f,
                evapotranspiration_data_file=et_f,
                water_level_data_file=zeta_f,
                time_zone_name='Africa/Lagos',
            )
        classify_mod.classify_intervals(
            template,
            storm_rain_threshold_mm_h=storm_threshold,
            rising_jump_threshold_mm_h=jump_threshold,
        )
        template.commit()
        _TEMPLATES[key] = template
    connection = sqlite3.connect(':memory:')
    _TEMPLATES[key].backup(connection)
    if grid_interval_mm is not None:
        zeta_grid_mod.populate_zeta_grid(
            connection, grid_interval_mm=grid_interval_mm
        )
        connection.commit()
    return connection


def table_rows(connection, table):
    """All rows of a table in insertion order"""
    cursor = connection.cursor()
    cursor.execute('SELECT rowid, * FROM {} ORDER BY rowid'.format(table))
    rows = cursor.fetchall()
    cursor.close()
    return rows


def sample_parameters(kind):
    """Text of a sample parameter file"""
    import spowtd.load as load_mod

    path = os.path.join(
        os.path.dirname(load_mod.__file__),
        'test',
        'sample_data',
        '{}_parameters.yml'.format(kind),
    )
    with open(path, 'rt', encoding='utf-8') as stream:
        return stream.read()


# ---------------------------------------------------------------------------
def _export(dest, patch=None):
    archive = subprocess.run(
        ['git', '-C', HERE, 'archive', 'HEAD', 'spowtd'],
        check=True,
        stdout=subprocess.PIPE,
    ).stdout
    subprocess.run(['tar', '-x', '-C', dest], input=archive, check=True)
    if patch is not None:
        subprocess.run(
            ['git', 'apply', '--directory', dest, '--unsafe-paths', patch],
            check=True,
            cwd=dest,
        )


def _run(tree, script, out):
    shutil.copy(script, tree)
    shutil.copy(os.path.join(HERE, 'diff_harness.py'), tree)
    env = dict(os.environ)
    env.pop('PYTHONPATH', None)
    env['PYTHONDONTWRITEBYTECODE'] = '1'
    subprocess.run(
        [PYTHON, os.path.join(tree, os.path.basename(script)), '--worker', out],
        check=True,
        cwd=tree,
        env=env,
    )
    with open(out, 'rb') as stream:
        return pickle.load(stream)


def main(script, patch, worker):
    """Entry point of a diff_check script"""
    if len(sys.argv) == 3 and sys.argv[1] == '--worker':
        import spowtd

        root = os.path.dirname(os.path.abspath(script))
        assert os.path.dirname(os.path.dirname(spowtd.__file__)) == root, (
            spowtd.__file__,
            root,
        )
        result = canon(worker())
        with open(sys.argv[2], 'wb') as stream:
            pickle.dump(result, stream)
        return
    patch = os.path.join(HERE, patch)
    scratch = tempfile.mkdtemp(prefix='rf_C_check_', dir='/tmp')
    try:
        original = os.path.join(scratch, 'original')
        refactored = os.path.join(scratch, 'refactored')
        os.mkdir(original)
        os.mkdir(refactored)
        _export(original)
        _export(refactored, patch)
        changed = subprocess.run(
            ['diff', '-rq', original, refactored], stdout=subprocess.PIPE
        ).stdout.decode()
        assert changed, 'patch changed nothing'
        before = _run(original, script, os.path.join(scratch, 'a.pkl'))
        after = _run(refactored, script, os.path.join(scratch, 'b.pkl'))
        assert len(before) == len(after), (len(before), len(after))
        for index, (lhs, rhs) in enumerate(zip(before[1:], after[1:])):
            assert lhs == rhs, 'scenario {} differs:\n{!r}\n{!r}'.format(
                index, lhs, rhs
            )
        assert before == after
        print(
            'OK: {} scenarios identical ({})'.format(
                len(before) - 1, os.path.basename(patch)
            )
        )
        print(changed.strip())
    finally:
        shutil.rmtree(scratch, ignore_errors=True)


def capture_yaml(func, *args, **kwargs):
    """Run func(outfile=..) and return the text written, or the exception"""
    outfile = io.StringIO()
    outcome = attempt(func, *args, outfile=outfile, **kwargs)
    return (outcome, outfile.getvalue())


def synthetic_db(seed, grid_interval_mm=1.0, n_days=40):
    """Loaded and classified database of a synthetic hourly record"""
    import datetime

    import numpy as np

    import spowtd.classify as classify_mod
    import spowtd.load as load_mod
    import spowtd.zeta_grid as zeta_grid_mod

    rng = np.random.default_rng(seed)
    n_steps = 24 * n_days
    rain = np.zeros(n_steps)
    zeta = np.empty(n_steps)
    level = -260.0 + 40.0 * rng.random()
    step = 0
    next_storm = int(rng.integers(20, 60))
    while step < n_steps:
        if step == next_storm:
            for _ in range(int(rng.integers(2, 5))):
                if step >= n_steps:
                    break
                rain[step] = 6.0 + 10.0 * rng.random()
                level += rain[step] / 0.5
                zeta[step] = level
                step += 1
            next_storm = step + int(rng.integers(40, 120))
            continue
        zeta[step] = level
        level -= max(0.2, 0.012 * (level + 330.0)) + 0.01 * rng.random()
        step += 1
    start = datetime.datetime(2015, 3, 1)
    stamps = [
        (start + datetime.timedelta(hours=i)).strftime('%Y-%m-%d %H:%M:%S')
        for i in range(n_steps)
    ]
    precip_f = io.StringIO(
        'datetime,precipitation rate (mm/h)\n'
        + ''.join('{},{!r}\n'.format(s, float(v)) for s, v in zip(stamps, rain))
    )
    et_f = io.StringIO(
        'datetime,evapotranspiration (mm/h)\n'
        + ''.join(
            '{},{!r}\n'.format(s, float(v))
            for s, v in zip(
                stamps
                + [
                    (start + datetime.timedelta(hours=n_steps)).strftime(
                        '%Y-%m-%d %H:%M:%S'
                    )
                ],
                0.1 + 0.1 * rng.random(n_steps + 1),
            )
        )
    )
    zeta_f = io.StringIO(
        'datetime,wtd (mm)\n'
        + ''.join('{},{!r}\n'.format(s, float(v)) for s, v in zip(stamps, zeta))
    )
    connection = sqlite3.connect(':memory:')
    load_mod.load_data(
        connection=connection,
        precipitation_data_file=precip_f,
        evapotranspiration_data_file=et_f,
        water_level_data_file=zeta_f,
        time_zone_name='Africa/Lagos',
    )
    classify_mod.classify_intervals(
        connection,
        storm_rain_threshold_mm_h=4.0,
        rising_jump_threshold_mm_h=3.0,
    )
    if grid_interval_mm is not None:
        zeta_grid_mod.populate_zeta_grid(
            connection, grid_interval_mm=grid_interval_mm
        )
    connection.commit()
    return connection


ASSEMBLY_TABLES = (
    'rising_interval',
    'rising_interval_zeta',
    'recession_interval',
    'recession_interval_zeta',
)


def _assemble(make_db, rise_reference, recession_reference, direct=False):
    """Run both assemblies on a fresh database, return outcome and tables"""
    import spowtd.recession as recession_mod
    import spowtd.rise as rise_mod

    connection = make_db()
    if direct:
        # the compute_* entry points, which take a cursor
        outcome = (
            attempt(
                rise_mod.compute_rise_offsets,
                connection.cursor(),
                rise_reference,
            ),
            attempt(
                recession_mod.compute_offsets,
                connection.cursor(),
                recession_reference,
            ),
        )
    else:
        outcome = (
            attempt(
                rise_mod.find_rise_offsets,
                connection,
                reference_zeta_mm=rise_reference,
            ),
            attempt(
                recession_mod.find_recession_offsets,
                connection,
                reference_zeta_mm=recession_reference,
            ),
        )
    tables = [table_rows(connection, table) for table in ASSEMBLY_TABLES]
    connection.close()
    print(
        'assembly', rise_reference, recession_reference, direct, outcome,
        [len(rows) for rows in tables], file=sys.stderr,
    )
    return [rise_reference, recession_reference, outcome, tables]


def _grid_levels(result, grid_interval_mm):
    """A shared and an extreme discrete level of each assembled curve"""
    levels = []
    for rows in (result[3][1], result[3][3]):
        numbers = sorted(set(row[2] for row in rows))
        levels.append(
            (
                numbers[len(numbers) // 2] * grid_interval_mm,
                numbers[0] * grid_interval_mm,
            )
        )
    return levels


def assembly_scenarios():
    """Scenarios that exercise spowtd.rise and spowtd.recession"""
    import functools

    results = []
    # (database factory, grid interval, run every reference variant)
    databases = [
        (functools.partial(classified_db, 1), 1.0, 'some'),
        (functools.partial(classified_db, 2), 1.0, 'some'),
        (functools.partial(classified_db, 1, grid_interval_mm=2.0), 2.0, 'few'),
        (functools.partial(classified_db, 2, grid_interval_mm=0.5), 0.5, 'few'),
        (functools.partial(classified_db, 2, 4.0, 3.0), 1.0, 'few'),
        (functools.partial(synthetic_db, 1), 1.0, 'all'),
        (functools.partial(synthetic_db, 2, grid_interval_mm=2.5), 2.5, 'all'),
        (functools.partial(synthetic_db, 3, n_days=25), 1.0, 'all'),
        (functools.partial(synthetic_db, 4, grid_interval_mm=0.5), 0.5, 'all'),
        (functools.partial(synthetic_db, 5, n_days=90), 1.0, 'all'),
    ]
    for make_db, grid_interval_mm, variants in databases:
        default = _assemble(make_db, None, None)
        assert default[2][0][0] == 'ok' and default[2][1][0] == 'ok', default[2]
        assert all(default[3]), 'empty table'
        results.append(default)
        (rise_levels, recession_levels) = _grid_levels(
            default, grid_interval_mm
        )
        # reference on the grid and crossed by some series
        results.append(
            _assemble(make_db, rise_levels[1], recession_levels[1], direct=True)
        )
        if variants == 'few':
            continue
        # off the grid: ValueError
        results.append(
            _assemble(
                make_db,
                rise_levels[0] + 0.3 * grid_interval_mm,
                recession_levels[0] - 0.45 * grid_interval_mm,
            )
        )
        # on the grid but crossed by no series: KeyError
        results.append(
            _assemble(make_db, 5000 * grid_interval_mm, -5000 * grid_interval_mm)
        )
        if variants == 'some':
            continue
        results.append(_assemble(make_db, rise_levels[0], recession_levels[0]))
        # within np.isclose tolerance of a grid level
        results.append(
            _assemble(
                make_db,
                rise_levels[0] * (1 + 1e-9),
                recession_levels[0] * (1 - 1e-9),
            )
        )
        # integer references
        results.append(
            _assemble(
                make_db,
                int(round(rise_levels[0] / grid_interval_mm))
                * int(round(grid_interval_mm * 2))
                // 2,
                int(recession_levels[1]),
            )
        )
    # zeta grid not set: ValueError
    results.append(
        _assemble(
            functools.partial(classified_db, 1, grid_interval_mm=None),
            None,
            None,
        )
    )
    results.append(
        _assemble(
            functools.partial(synthetic_db, 1, grid_interval_mm=None),
            -100.0,
            -100.0,
            direct=True,
        )
    )

    # nothing classified: no series
    def emptied():
        connection = classified_db(1)
        connection.execute('PRAGMA foreign_keys = 0')
        connection.execute('DELETE FROM zeta_interval_storm')
        connection.execute('DELETE FROM zeta_interval')
        connection.commit()
        return connection

    results.append(_assemble(emptied, None, None))
    results.append(_assemble(emptied, 3.0, 3.0))
    return results


# ---------------------------------------------------------------------------
# scenarios for spowtd.simulate_rise / spowtd.simulate_recession
class _CountingSpecificYield:
    """Specific yield stand-in that records how it is used"""

    def __init__(self):
        self.calls = []

    def __call__(self, zeta_mm):
        self.calls.append(('call', zeta_mm))
        return 0.2 + 0.0005 * zeta_mm

    def integrate(self, lower, upper):
        self.calls.append(('integrate', type(lower).__name__, lower, upper))
        return 0.2 * (upper - lower) + 0.00025 * (upper**2 - lower**2)


def _curve_scenarios():
    """compute_rise_curve / compute_recession_curve on assorted grids"""
    import numpy as np
    import yaml

    import spowtd.simulate_recession as simulate_recession_mod
    import spowtd.simulate_rise as simulate_rise_mod
    import spowtd.specific_yield as specific_yield_mod
    import spowtd.transmissivity as transmissivity_mod

    rng = np.random.default_rng(11)
    grids = [
        np.linspace(-865, 50, 10),
        np.linspace(0, -400, 10),
        np.sort(rng.uniform(-300, 0, 23)),
        np.sort(rng.uniform(-300, 0, 7))[::-1],
        np.array([-120.0, -120.0, -80.0, -80.0, -10.0]),
        np.array([-42.5]),
        np.array([], dtype=float),
        np.arange(-60, 0, 7),
        np.array(-3.0),
        [-30.0, -20.0, -10.0],
        np.linspace(-200, -20, 6).reshape(3, 2),
    ]
    results = []
    for kind in ('spline', 'peatclsm'):
        parameters = yaml.safe_load(sample_parameters(kind))
        specific_yield = specific_yield_mod.create_specific_yield_function(
            parameters['specific_yield']
        )
        transmissivity = transmissivity_mod.create_transmissivity_function(
            parameters['transmissivity']
        )
        for grid in grids:
            results.append(
                attempt(
                    simulate_rise_mod.compute_rise_curve, specific_yield, grid
                )
            )
            results.append(
                attempt(
                    simulate_rise_mod.compute_rise_curve,
                    specific_yield,
                    grid,
                    7.0,
                )
            )
            results.append(
                attempt(
                    simulate_rise_mod.compute_rise_curve,
                    specific_yield,
                    zeta_grid_mm=grid,
                    mean_storage_mm=np.float64(-3.25),
                )
            )
            for mean_d, curvature_km, et_mm_d in (
                (19.0, 2.36e-3, 4.15),
                (np.float64(3.5), 0.0, 2.0),
                (0.0, 1e-3, 0.0),
                (1.0, -1e-3, 4.0),
                (1.0, 1e-3, -4.0),
            ):
                results.append(
                    attempt(
                        simulate_recession_mod.compute_recession_curve,
                        specific_yield,
                        transmissivity,
                        grid,
                        mean_elapsed_time_d=mean_d,
                        curvature_km=curvature_km,
                        et_mm_d=et_mm_d,
                    )
                )
    # order and arguments of the calls made to the hydraulic functions
    for grid in grids:
        counting = _CountingSpecificYield()
        outcome = attempt(
            simulate_rise_mod.compute_rise_curve, counting, grid, 2.0
        )
        results.append([outcome, counting.calls])
        counting = _CountingSpecificYield()
        outcome = attempt(
            simulate_recession_mod.compute_recession_curve,
            counting,
            lambda zeta_mm: 50.0 + 0.1 * zeta_mm,
            grid,
            5.0,
            1e-3,
            3.0,
        )
        results.append([outcome, counting.calls])
        # objects lacking the needed interface
        results.append(
            attempt(simulate_rise_mod.compute_rise_curve, object(), grid, 2.0)
        )
        results.append(
            attempt(
                simulate_recession_mod.compute_recession_curve,
                None,
                None,
                grid,
                5.0,
                1e-3,
                3.0,
            )
        )
    return results


def _simulate_all(connection, label):
    """Every simulate entry point, for both parameterisations"""
    import spowtd.simulate_recession as simulate_recession_mod
    import spowtd.simulate_rise as simulate_rise_mod
    import spowtd.user_interface as cli_mod

    results = []
    for kind in ('spline', 'peatclsm'):
        text = sample_parameters(kind)
        for observations_only in (False, True):
            results.append(
                capture_yaml(
                    simulate_rise_mod.simulate_rise,
                    connection,
                    io.StringIO(text),
                    observations_only=observations_only,
                )
            )
            results.append(
                capture_yaml(
                    simulate_recession_mod.dump_simulated_recession,
                    connection,
                    io.StringIO(text),
                    observations_only=observations_only,
                )
            )
        results.append(
            attempt(
                simulate_recession_mod.simulate_recession,
                connection,
                io.StringIO(text),
            )
        )
    # missing sections of the parameter file
    for text in ('{}', 'specific_yield: {type: nonesuch}\ntransmissivity: {type: spline}\n', 'transmissivity: {type: peatclsm}\n'):
        results.append(
            capture_yaml(
                simulate_rise_mod.simulate_rise,
                connection,
                io.StringIO(text),
                observations_only=False,
            )
        )
        results.append(
            capture_yaml(
                simulate_recession_mod.dump_simulated_recession,
                connection,
                io.StringIO(text),
                observations_only=True,
            )
        )
    print(
        'simulate', label,
        [r[0][0] if isinstance(r[0], tuple) else r[0] for r in results],
        file=sys.stderr,
    )
    del cli_mod
    return results


def simulation_scenarios(samples=(1, 2)):
    """Scenarios that exercise spowtd.simulate_rise / simulate_recession"""
    import spowtd.recession as recession_mod
    import spowtd.rise as rise_mod
    import spowtd.set_curvature as set_curvature_mod
    import spowtd.user_interface as cli_mod

    results = _curve_scenarios()
    print('curves', len(results), [r[0] if r[0] in ('ok', 'raised') else r[0][0] for r in results], file=sys.stderr)
    databases = [('sample{}'.format(s), classified_db(s)) for s in samples]
    databases += [
        ('synthetic1', synthetic_db(1)),
        ('synthetic2', synthetic_db(2, grid_interval_mm=2.5)),
        ('synthetic5', synthetic_db(5, n_days=90)),
    ]
    for label, connection in databases:
        # nothing assembled yet
        results.append(_simulate_all(connection, label + ' bare'))
        rise_mod.find_rise_offsets(connection)
        results.append(_simulate_all(connection, label + ' rise only'))
        recession_mod.find_recession_offsets(connection)
        # curvature not set
        results.append(_simulate_all(connection, label + ' no curvature'))
        set_curvature_mod.set_curvature(connection, curvature_m_km2=2.36)
        connection.commit()
        results.append(_simulate_all(connection, label + ' complete'))
        results.append(
            attempt(set_curvature_mod.set_curvature, connection, 1.0)
        )
        connection.execute('UPDATE curvature SET curvature_m_km2 = 0')
        results.append(_simulate_all(connection, label + ' flat'))
        connection.execute('UPDATE curvature SET curvature_m_km2 = -1')
        results.append(_simulate_all(connection, label + ' negative'))
        connection.execute('UPDATE curvature SET curvature_m_km2 = 0.5')
        connection.execute('DELETE FROM evapotranspiration')
        results.append(_simulate_all(connection, label + ' no ET'))
        connection.rollback()
    # through the command line, on a database file
    scratch = tempfile.mkdtemp(prefix='rf_C_cli_', dir='/tmp')
    try:
        db_path = os.path.join(scratch, 'synthetic.sqlite3')
        on_disk = sqlite3.connect(db_path)
        source = synthetic_db(3, n_days=25)
        rise_mod.find_rise_offsets(source)
        recession_mod.find_recession_offsets(source)
        source.backup(on_disk)
        on_disk.close()
        parameter_path = os.path.join(scratch, 'parameters.yml')
        with open(parameter_path, 'wt', encoding='utf-8') as stream:
            stream.write(sample_parameters('spline'))
        commands = [
            ['simulate', 'recession', db_path, parameter_path],
            ['set-curvature', db_path, '1.25'],
            ['simulate', 'rise', db_path, parameter_path],
            ['simulate', 'rise', db_path, parameter_path, '--observations'],
            ['simulate', 'recession', db_path, parameter_path],
            ['simulate', 'recession', db_path, parameter_path, '--observations'],
        ]
        import contextlib

        for command in commands:
            stdout = io.StringIO()
            with contextlib.redirect_stdout(stdout):
                outcome = attempt(cli_mod.main, command)
            text = stdout.getvalue()
            print('cli', command[:2], outcome, len(text), file=sys.stderr)
            results.append([outcome, text])
    finally:
        shutil.rmtree(scratch, ignore_errors=True)
    return results
