"""Shared helpers for diff_check_K.py (differential checks of refactorK.diff)

The ORIGINAL module is always `git show HEAD:spowtd/classify.py`; the REFACTORED
module is that same text with refactorK.diff applied in a scratch directory, so
each check is independent of the state of the worktree's spowtd/classify.py.
"""

import importlib.util
import io
import logging
import os
import sqlite3
import subprocess
import sys
import tempfile
import types

import numpy as np

HERE = os.path.dirname(os.path.abspath(__file__))
REL = "spowtd/classify.py"
SAMPLE_DIR = os.path.join(HERE, "spowtd", "test", "sample_data")
_TMP = tempfile.mkdtemp(prefix="rf9A_dc_")


def _head_text(rel=REL):
    return subprocess.check_output(["git", "show", "HEAD:" + rel], cwd=HERE)


def _import_from(path, name):
    spec = importlib.util.spec_from_file_location(name, path)
    module = importlib.util.module_from_spec(spec)
    spec.loader.exec_module(module)
    return module


def load_pair(k):
    """Return (original_module, refactored_module) for refactoring k"""
    odir = os.path.join(_TMP, "orig%d" % k, "spowtd")
    rdir = os.path.join(_TMP, "refac%d" % k, "spowtd")
    os.makedirs(odir)
    os.makedirs(rdir)
    text = _head_text()
    for d in (odir, rdir):
        with open(os.path.join(d, "classify.py"), "wb") as f:
            f.write(text)
    patch = os.path.join(HERE, "refactor%d.diff" % k)
    subprocess.check_call(["git", "apply", patch], cwd=os.path.dirname(rdir))
    with open(os.path.join(rdir, "classify.py"), "rb") as f:
        assert f.read() != text, "patch changed nothing"
    orig = _import_from(os.path.join(odir, "classify.py"), "classify_orig_%d" % k)
    refac = _import_from(os.path.join(rdir, "classify.py"), "classify_refac_%d" % k)
    return orig, refac


# ---------------------------------------------------------------- normalising


def norm(obj):
    """Exact, comparable description of a result (types, dtypes, bytes)"""
    if isinstance(obj, np.ndarray):
        if obj.dtype == object:
            return ("ndarray", "object", obj.shape, [norm(x) for x in obj.ravel()])
        return ("ndarray", obj.dtype.str, obj.shape, obj.tobytes())
    if isinstance(obj, np.generic):
        return ("npscalar", type(obj).__name__, obj.dtype.str, obj.tobytes())
    if isinstance(obj, types.GeneratorType):
        return ("generator", [norm(x) for x in obj])
    if isinstance(obj, (list, tuple)):
        return (type(obj).__name__, [norm(x) for x in obj])
    if isinstance(obj, (set, frozenset)):
        return (type(obj).__name__, sorted((norm(x) for x in obj), key=repr))
    if isinstance(obj, dict):
        # insertion order is part of the behaviour
        return (type(obj).__name__, [(norm(k), norm(v)) for k, v in obj.items()])
    return (type(obj).__name__, repr(obj))


class LogCapture(logging.Handler):
    def __init__(self):
        super().__init__(level=logging.DEBUG)
        self.records = []

    def emit(self, record):
        self.records.append((record.name, record.levelname, record.getMessage()))


def call(func, *args, **kwargs):
    """Run func; return outcome incl. exception type+message and log records"""
    logger = logging.getLogger("spowtd.classify")
    handler = LogCapture()
    old_level = logger.level
    logger.setLevel(logging.DEBUG)
    logger.addHandler(handler)
    try:
        try:
            result = ("ok", norm(func(*args, **kwargs)))
        except BaseException as exc:  # pylint: disable=broad-except
            result = ("exc", type(exc).__name__, str(exc), repr(exc.args))
    finally:
        logger.removeHandler(handler)
        logger.setLevel(old_level)
    return result + (("logs", handler.records),)


class Checker:
    def __init__(self, label):
        self.label = label
        self.n = 0
        self.n_exc = 0
        self.failures = []

    def same(self, what, a, b):
        self.n += 1
        head = a[0] if isinstance(a, tuple) and a else None
        if head == "exc" or (isinstance(head, tuple) and head[:1] == ("exc",)):
            self.n_exc += 1
        if a != b:
            self.failures.append(what)
            print("MISMATCH", what)
            print("   orig :", repr(a)[:600])
            print("   refac:", repr(b)[:600])

    def finish(self):
        print(
            "%s: %d comparisons (%d of them exceptions), %d mismatches [__debug__=%s]"
            % (self.label, self.n, self.n_exc, len(self.failures), __debug__)
        )
        if self.failures:
            print("FAILED")
            sys.exit(1)


def rerun_optimized(script):
    """Re-run the script under python -O (asserts stripped) unless already there"""
    if not __debug__ or os.environ.get("RF9A_CHILD"):
        return
    env = dict(os.environ, RF9A_CHILD="1")
    proc = subprocess.run(
        [sys.executable, "-O", script], env=env, capture_output=True, text=True
    )
    sys.stdout.write("".join("  [-O] " + l + "\n" for l in proc.stdout.splitlines()))
    if proc.returncode != 0 or "OK" not in proc.stdout.split():
        sys.stdout.write(proc.stderr)
        print("FAILED under -O")
        sys.exit(1)


# ------------------------------------------------------------------ databases

_LOADED = {}


def loaded_db_bytes(sample):
    """Serialized sqlite database with sample data loaded (as in conftest.py)"""
    if sample not in _LOADED:
        sys.path.insert(0, HERE)
        import spowtd.load as load_mod  # unmodified by these refactorings

        conn = sqlite3.connect(":memory:")

        def path(kind):
            return os.path.join(SAMPLE_DIR, "%s_%d.txt" % (kind, sample))

        with open(path("precipitation"), "rt", encoding="utf-8-sig") as p, open(
            path("evapotranspiration"), "rt", encoding="utf-8-sig"
        ) as e, open(path("water_level"), "rt", encoding="utf-8-sig") as z:
            load_mod.load_data(
                connection=conn,
                precipitation_data_file=p,
                evapotranspiration_data_file=e,
                water_level_data_file=z,
                time_zone_name="Africa/Lagos",
            )
        conn.commit()
        _LOADED[sample] = conn.serialize()
        conn.close()
    return _LOADED[sample]


def fresh_connection(data):
    conn = sqlite3.connect(":memory:")
    conn.deserialize(data)
    conn.execute("PRAGMA foreign_keys = 1")
    return conn


def schema_only_bytes():
    conn = sqlite3.connect(":memory:")
    with open(os.path.join(HERE, "spowtd", "schema.sql"), "rt") as f:
        conn.executescript(f.read())
    conn.commit()
    data = conn.serialize()
    conn.close()
    return data


def synthetic_db_bytes(epochs, rain, zeta, time_step_s=None, data_interval=None):
    """Small gridded database built directly (no staging tables)"""
    conn = fresh_connection(schema_only_bytes())
    epochs = [int(t) for t in epochs]
    spacing = epochs[1] - epochs[0]
    if time_step_s is None:
        time_step_s = spacing
    if data_interval is None:
        data_interval = [1] * len(epochs)
    conn.execute(
        "INSERT INTO time_grid (time_step_s, source_time_zone) VALUES (?, 'UTC')",
        (time_step_s,),
    )
    # one extra grid time so that thru_epoch of the last rain interval exists
    last = epochs[-1] + spacing
    conn.executemany(
        "INSERT INTO grid_time (epoch, data_interval) VALUES (?, ?)",
        list(zip(epochs, data_interval)) + [(last, None)],
    )
    conn.executemany(
        "INSERT INTO rainfall_intensity (from_epoch, thru_epoch, rainfall_intensity_mm_h)"
        " VALUES (?, ?, ?)",
        [(t, t + spacing, float(r)) for t, r in zip(epochs, rain)],
    )
    conn.executemany(
        "INSERT INTO water_level (epoch, zeta_mm) VALUES (?, ?)",
        [(t, float(z)) for t, z in zip(epochs, zeta)],
    )
    conn.commit()
    data = conn.serialize()
    conn.close()
    return data


def run_on_db(data, func_of_connection, commit_after=False):
    """Run func on a fresh copy of the database

    Returns (outcome, traced SQL, dump of the connection's view afterwards,
    in_transaction flag, dump after rollback).
    """
    conn = fresh_connection(data)
    trace = []
    conn.set_trace_callback(trace.append)
    outcome = call(func_of_connection, conn)
    conn.set_trace_callback(None)
    in_tx = conn.in_transaction
    dump_live = list(conn.iterdump())
    conn.rollback()
    dump_committed = list(conn.iterdump())
    conn.close()
    return (outcome, ("trace", trace), ("in_tx", in_tx), dump_live, dump_committed)
