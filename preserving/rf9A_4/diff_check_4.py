"""Differential check of refactor4.diff: classify.match_all_storms

The per-match database work (duplicate test, three INSERTs) was extracted into
_record_storm_match / _storm_is_recorded; the `assert not already_seen, msg`
became an explicit `if __debug__: if already_seen: raise AssertionError(msg)`;
the three INSERTs are executed in a loop over a tuple of (sql, parameters).
"""

import os
import sys

import numpy as np

sys.path.insert(0, os.path.dirname(os.path.abspath(__file__)))
import _dc_common as dc  # noqa: E402

ORIG, REFAC = dc.load_pair(4)
CHK = dc.Checker("refactor4 match_all_storms")


class RecordingCursor:
    """Proxy that records every call made on the cursor, with arguments"""

    def __init__(self, cursor, log):
        self._cursor = cursor
        self._log = log

    def execute(self, sql, *args):
        self._log.append(("execute", sql, dc.norm(args)))
        result = self._cursor.execute(sql, *args)
        return self if result is self._cursor else result

    def executemany(self, sql, rows):
        rows = list(rows)
        self._log.append(("executemany", sql, dc.norm(rows)))
        return self._cursor.executemany(sql, rows)

    def fetchone(self):
        row = self._cursor.fetchone()
        self._log.append(("fetchone", dc.norm(row)))
        return row

    def fetchall(self):
        rows = self._cursor.fetchall()
        self._log.append(("fetchall", len(rows)))
        return rows

    def __iter__(self):
        return iter(self._cursor)

    def close(self):
        self._log.append(("close",))
        return self._cursor.close()


def classify(mod, *thresholds, patch=None, twice=False):
    def run(conn):
        saved = mod.match_storms
        if patch is not None:
            mod.match_storms = patch
        try:
            result = mod.classify_intervals(conn, *thresholds)
            if twice:
                result = mod.classify_intervals(conn, *thresholds)
            return result
        finally:
            mod.match_storms = saved

    return run


def direct(mod, data_interval, storm_threshold, jump_threshold, patch=None):
    """match_all_storms alone, on a recording cursor"""

    def run(conn):
        log = []
        saved = mod.match_storms
        if patch is not None:
            mod.match_storms = patch
        try:
            cursor = RecordingCursor(conn.cursor(), log)
            try:
                result = mod.match_all_storms(
                    cursor, data_interval, storm_threshold, jump_threshold
                )
            except BaseException as exc:  # pylint: disable=broad-except
                return ("raised", type(exc).__name__, str(exc), repr(exc.args), log)
            return (result, log)
        finally:
            mod.match_storms = saved

    return run


def both_db(what, data, make):
    CHK.same(what, dc.run_on_db(data, make(ORIG)), dc.run_on_db(data, make(REFAC)))


def fake(rain_intervals, jump_intervals):
    return lambda *args: (rain_intervals, jump_intervals)


def main():
    # 1. sample data
    for sample in (1, 2):
        data = dc.loaded_db_bytes(sample)
        for thresholds in (
            (),
            (8.0, 5.0),
            (0.0, 0.0),
            (1.0, 0.5),
            (0.1, 40.0),
            (1e9, 1e9),
            (4, 8),
            (np.float64(4.0), np.float32(8.0)),
            (None, None),
            ("4", "8"),
        ):
            both_db(
                ("sample classify", sample, thresholds),
                data,
                lambda mod, t=thresholds: classify(mod, *t),
            )
        both_db(
            ("sample classify twice", sample),
            data,
            lambda mod: classify(mod, 8.0, 5.0, twice=True),
        )
        for data_interval in (1, 2, 99, None, "1"):
            both_db(
                ("sample direct", sample, data_interval),
                data,
                lambda mod, d=data_interval: direct(mod, d, 8.0, 5.0),
            )

    # 2. synthetic databases
    step = 900
    t0 = 1_600_000_200
    rng = np.random.default_rng(4)
    both_db(("schema only",), dc.schema_only_bytes(), lambda mod: classify(mod, 4.0, 8.0))
    synthetic = {}
    for n in (2, 3, 10, 80):
        for rep in range(6):
            rain = rng.random(n) * (rng.random(n) < 0.5) * 30
            zeta = np.cumsum(rng.normal(0, 1, n) + rain * step / 3600.0 * rng.random(n))
            epochs = t0 + step * np.arange(n)
            synthetic[("random", n, rep)] = dc.synthetic_db_bytes(epochs, rain, zeta)
    n = 40
    rain = rng.random(n) * (rng.random(n) < 0.5) * 30
    zeta = np.cumsum(rain * step / 3600.0)
    epochs = t0 + step * np.arange(n)
    synthetic[("two data intervals",)] = dc.synthetic_db_bytes(
        epochs, rain, zeta, data_interval=[1] * 25 + [2] * 15
    )
    synthetic[("interval with gap -> nonuniform",)] = dc.synthetic_db_bytes(
        epochs, rain, zeta, data_interval=[1] * 10 + [None] * 5 + [1] * 25
    )
    synthetic[("single row interval",)] = dc.synthetic_db_bytes(
        epochs, rain, zeta, data_interval=[1] * 39 + [2]
    )
    synthetic[("time step disagrees with grid",)] = dc.synthetic_db_bytes(
        epochs, rain, zeta, time_step_s=3600
    )
    synthetic[("no rain",)] = dc.synthetic_db_bytes(epochs, rain * 0, zeta)
    synthetic[("flat head",)] = dc.synthetic_db_bytes(epochs, rain, zeta * 0)
    synthetic[("all rain",)] = dc.synthetic_db_bytes(epochs, rain * 0 + 20, zeta + np.arange(n) * 10)
    synthetic[("storm at the very end",)] = dc.synthetic_db_bytes(
        epochs, [0] * (n - 2) + [20, 20], list(range(n - 2)) + [n + 10, n + 30]
    )
    synthetic[("storm at the very start",)] = dc.synthetic_db_bytes(
        epochs, [20, 20] + [0] * (n - 2), [0, 20, 40] + [40] * (n - 3)
    )
    for name, data in synthetic.items():
        for thresholds in ((4.0, 8.0), (0.0, 0.0), (10.0, 2.0)):
            both_db(
                ("synthetic classify", name, thresholds),
                data,
                lambda mod, t=thresholds: classify(mod, *t),
            )
        both_db(("synthetic direct", name), data, lambda mod: direct(mod, 1, 4.0, 8.0))
        both_db(("synthetic direct 2", name), data, lambda mod: direct(mod, 2, 4.0, 8.0))

    # 3. forced outcomes of match_storms: duplicates and other broken matches
    n = 12
    epochs = t0 + step * np.arange(n)
    rain = [0, 20, 20, 0, 0, 20, 0, 0, 20, 20, 20, 0]
    zeta = [0, 0, 10, 20, 20, 20, 30, 30, 30, 40, 50, 60]
    data = dc.synthetic_db_bytes(epochs, rain, zeta)
    forced = {
        "consistent": ([(1, 3), (5, 6), (8, 11)], [(1, 4), (5, 7), (8, 12)]),
        "same storm twice (assertion / IntegrityError)": (
            [(1, 3), (1, 3)],
            [(1, 4), (5, 7)],
        ),
        "same storm twice after another": (
            [(5, 6), (1, 3), (8, 11), (1, 3)],
            [(5, 7), (1, 4), (8, 12), (8, 12)],
        ),
        "same start other stop": ([(1, 3), (1, 2)], [(1, 4), (5, 7)]),
        "same rise twice": ([(1, 3), (5, 6)], [(1, 4), (1, 4)]),
        "same rise start other stop": ([(1, 3), (5, 6)], [(1, 4), (1, 3)]),
        "storm includes dry step": ([(1, 4)], [(1, 4)]),
        "rise includes flat step": ([(1, 3)], [(1, 6)]),
        "fewer rises than storms": ([(1, 3), (5, 6)], [(1, 4)]),
        "more rises than storms": ([(1, 3)], [(1, 4), (5, 7)]),
        "empty": ([], []),
        "empty rain interval": ([(3, 3)], [(1, 4)]),
        "one-point rise": ([(1, 3)], [(2, 3)]),
        "rise out of range": ([(1, 3)], [(1, 40)]),
        "storm out of range": ([(20, 22)], [(1, 4)]),
        "storm thru last step": ([(8, 11)], [(8, 12)]),
        "numpy integers": (
            [(np.int64(1), np.int64(3))],
            [(np.int64(1), np.int64(4))],
        ),
        "triples": ([(1, 3, 5)], [(1, 4)]),
        "lists not tuples": ([[1, 3]], [[1, 4]]),
        "None": (None, None),
    }
    for name, (rain_intervals, jump_intervals) in forced.items():
        both_db(
            ("forced classify", name),
            data,
            lambda mod, r=rain_intervals, j=jump_intervals: classify(
                mod, 4.0, 8.0, patch=fake(r, j)
            ),
        )
        both_db(
            ("forced direct", name),
            data,
            lambda mod, r=rain_intervals, j=jump_intervals: direct(
                mod, 1, 4.0, 8.0, patch=fake(r, j)
            ),
        )
    CHK.finish()
    dc.rerun_optimized(os.path.abspath(__file__))
    print("OK")


if __name__ == "__main__":
    main()
