"""Differential check for refactor1.diff (load.py: local_text_to_epoch
helper, database_has_tables)"""

import datetime
import io
import sqlite3

import pytz

import diff_common as dc

orig, new = dc.load_pair(1, 'load')


class HalfSecondZone:
    """Zone whose offset is not a whole number of seconds"""

    def localize(self, dt):
        return dt.replace(
            tzinfo=datetime.timezone(datetime.timedelta(seconds=1800.5))
        )


class NoOffsetInfo(datetime.tzinfo):
    def utcoffset(self, dt):
        return None


class UnawareZone:
    def localize(self, dt):
        return dt.replace(tzinfo=NoOffsetInfo())


class NaiveZone:
    def localize(self, dt):
        return dt


def gen_outcome(mod, rows, tz):
    return dc.outcome(lambda: list(mod.generate_timestamped_rows(rows, tz)))


ROW_SETS = [
    [],
    [['2013-01-01 00:00:00', '0.0'], ['2013-01-01 00:30:00', '1.5', 'x']],
    [['2013-03-31 02:30:00', '1'], ['2013-10-27 02:30:00', '2']],  # DST edge
    [['2013-01-01 00:00:00']],
    [['2013-01-01 00:00', '0.0']],  # bad format
    [['2013-01-01 00:00:00.5', '0.0']],  # unconverted data
    [['2013-01-01 00:00:00', '0.0'], []],  # blank row -> IndexError
    [['', '3']],
    [[20130101, '3']],  # TypeError from strptime
    [('2013-01-01 00:00:00', '0.0')],  # tuple row: list + tuple TypeError
    [['1969-12-31 23:59:59', '0.0'], ['0001-01-01 00:00:00', '1']],
]
ZONES = [
    pytz.timezone('Africa/Lagos'),
    pytz.timezone('Europe/Amsterdam'),
    pytz.timezone('Asia/Kolkata'),
    pytz.utc,
    HalfSecondZone(),
    UnawareZone(),
    NaiveZone(),
]
n = 0
for rows in ROW_SETS:
    for tz in ZONES:
        a = gen_outcome(orig, rows, tz)
        b = gen_outcome(new, rows, tz)
        assert a == b, (rows, tz, a, b)
        if a[0] == 'ok':
            assert [[type(v) for v in r] for r in a[1]] == [
                [type(v) for v in r] for r in b[1]
            ]
        n += 1
# the half-second zone must actually reach the ValueError branch
assert gen_outcome(new, ROW_SETS[1], ZONES[4])[:2] == ('exc', 'ValueError')
assert gen_outcome(new, ROW_SETS[1], ZONES[5])[:2] == ('exc', 'AssertionError')

# Laziness: rows before a bad row are still yielded
for mod in (orig, new):
    g = mod.generate_timestamped_rows(
        [['2013-01-01 00:00:00', 'a'], ['bad', 'b']], ZONES[0]
    )
    assert next(g) == [1356994800, 'a']
    try:
        next(g)
        raise SystemExit('expected ValueError')
    except ValueError:
        pass

# Whole load on both samples and several zones: identical databases
for sample in (1, 2):
    for tzname in ('Africa/Lagos', 'UTC', 'Asia/Kolkata'):
        a = dc.dump_db(dc.loaded_db(orig, sample, tzname))
        b = dc.dump_db(dc.loaded_db(new, sample, tzname))
        assert a == b, (sample, tzname)
        n += 1


# Populated-database guard
def load_into(mod, conn):
    return dc.outcome(
        mod.load_data,
        conn,
        io.StringIO(dc.sample_text('precipitation', 1)),
        io.StringIO(dc.sample_text('evapotranspiration', 1)),
        io.StringIO(dc.sample_text('water_level', 1)),
        'Africa/Lagos',
    )


def prepared(kind):
    conn = sqlite3.connect(':memory:')
    if kind == 'table':
        conn.execute('CREATE TABLE foo (x)')
    elif kind == 'two_tables':
        conn.execute('CREATE TABLE foo (x)')
        conn.execute('CREATE TABLE bar (x)')
    elif kind == 'view_only':
        conn.execute('CREATE VIEW v AS SELECT 1 AS x')
    elif kind == 'index_and_table':
        conn.execute('CREATE TABLE foo (x)')
        conn.execute('CREATE INDEX foo_x ON foo (x)')
    return conn


for kind in ('empty', 'table', 'two_tables', 'view_only', 'index_and_table'):
    ca, cb = prepared(kind), prepared(kind)
    a, b = load_into(orig, ca), load_into(new, cb)
    assert a == b, (kind, a, b)
    assert dc.dump_db(ca) == dc.dump_db(cb), kind
    n += 1
# loading twice
ca, cb = dc.loaded_db(orig), dc.loaded_db(new)
a, b = load_into(orig, ca), load_into(new, cb)
assert a == b and a[:2] == ('exc', 'ValueError'), (a, b)
assert dc.dump_db(ca) == dc.dump_db(cb)
# bad time zone name, bad header
for mod_pair in [(orig, new)]:
    a = dc.outcome(dc.loaded_db, orig, 1, 'Not/AZone')
    b = dc.outcome(dc.loaded_db, new, 1, 'Not/AZone')
    assert a == b and a[0] == 'exc'
    texts = ['time,x\n', 'datetime,x\n', 'datetime,x\n']
    a = dc.outcome(dc.loaded_db, orig, 1, 'UTC', texts)
    b = dc.outcome(dc.loaded_db, new, 1, 'UTC', texts)
    assert a == b and a[1] == 'AssertionError', (a, b)
print('diff_check_1 OK ({} comparisons)'.format(n))
