"""Shared helper for diff_check_K.py scripts.

Builds two private copies of the package in a temp dir: the unmodified tree
(git archive HEAD) and that tree with refactorK.diff applied, and loads a
single module from each under distinct names.
"""

import importlib.util
import io
import os
import sqlite3
import subprocess
import sys
import tempfile

ROOT = os.path.dirname(os.path.abspath(__file__))
SAMPLE_DIR = os.path.join(ROOT, 'spowtd', 'test', 'sample_data')


def build_trees(k):
    tmp = tempfile.mkdtemp(prefix='rfB_check{}_'.format(k))
    trees = {}
    for label in ('orig', 'new'):
        dest = os.path.join(tmp, label)
        os.makedirs(dest)
        archive = subprocess.run(
            ['git', '-C', ROOT, 'archive', 'HEAD', 'spowtd'],
            check=True,
            stdout=subprocess.PIPE,
        ).stdout
        subprocess.run(['tar', '-x', '-C', dest], input=archive, check=True)
        trees[label] = dest
    with open(os.path.join(ROOT, 'refactor{}.diff'.format(k)), 'rb') as f:
        subprocess.run(
            ['patch', '-p1', '-s', '-d', trees['new']],
            stdin=f,
            check=True,
        )
    return trees


def load_module(tree, module, alias):
    path = os.path.join(tree, 'spowtd', module + '.py')
    spec = importlib.util.spec_from_file_location(alias, path)
    mod = importlib.util.module_from_spec(spec)
    sys.modules[alias] = mod
    spec.loader.exec_module(mod)
    return mod


def load_pair(k, module):
    trees = build_trees(k)
    orig = load_module(trees['orig'], module, 'orig_' + module)
    new = load_module(trees['new'], module, 'new_' + module)
    with open(orig.__file__) as f1, open(new.__file__) as f2:
        assert f1.read() != f2.read(), 'patch did not change ' + module
    return orig, new


def sample_text(kind, sample):
    path = os.path.join(SAMPLE_DIR, '{}_{}.txt'.format(kind, sample))
    with open(path, 'rt', encoding='utf-8-sig') as f:
        return f.read()


def dump_db(connection):
    """Full logical dump of a database incl. rowids, in storage order."""
    out = []
    out.append(list(connection.iterdump()))
    cur = connection.cursor()
    tables = [
        r[0]
        for r in cur.execute(
            "SELECT name FROM sqlite_master WHERE type='table' ORDER BY name"
        )
    ]
    for t in tables:
        rows = cur.execute('SELECT rowid, * FROM {}'.format(t)).fetchall()
        out.append((t, [tuple((type(v).__name__, v) for v in r) for r in rows]))
    return out


def outcome(fn, *args, **kwargs):
    """Return ('ok', value) or ('exc', type name, str(args))."""
    try:
        return ('ok', fn(*args, **kwargs))
    except BaseException as e:  # pylint: disable=broad-except
        return ('exc', type(e).__name__, repr(e.args))


def loaded_db(load_mod, sample=1, tz='Africa/Lagos', texts=None):
    conn = sqlite3.connect(':memory:')
    if texts is None:
        texts = [
            sample_text('precipitation', sample),
            sample_text('evapotranspiration', sample),
            sample_text('water_level', sample),
        ]
    load_mod.load_data(
        conn, io.StringIO(texts[0]), io.StringIO(texts[1]),
        io.StringIO(texts[2]), tz,
    )
    return conn
