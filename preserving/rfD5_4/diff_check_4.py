"""Differential check for refactor4.diff (spowtd/pestfiles.py:
generate_curves_pst_file and generate_curves_ins_file)"""

import sys

sys.path.insert(0, '/tmp/rf_D')
import diff_common  # noqa: E402

WORKER = r'''
import copy
import gc
import io
import sqlite3
import yaml
import spowtd.classify as classify_mod
import spowtd.load as load_mod
import spowtd.pestfiles as pestfiles_mod
import spowtd.recession as recession_mod
import spowtd.rise as rise_mod
import spowtd.user_interface as ui
import spowtd.zeta_grid as zeta_grid_mod


def record(key, func, *args, **kwargs):
    assert key not in RESULTS, key
    RESULTS[key] = attempt(func, *args, **kwargs)


def dump(connection):
    return list(connection.iterdump())


PARS = {}
for kind in ('spline', 'peatclsm'):
    with open('{}/{}_parameters.yml'.format(SAMPLE_DIR, kind)) as f:
        PARS[kind] = yaml.safe_load(f)


def call_direct(func, connection, parameters, precision=17, configuration=None):
    """Call a generate_curves_*_file function; return text written or error"""
    outfile = io.StringIO()
    try:
        ret = func(connection, copy.deepcopy(parameters),
                   {} if configuration is None else configuration,
                   outfile, precision)
    except BaseException as exc:
        return ('raised', exc, outfile.getvalue())
    return ('returned', ret, outfile.getvalue())


def call_dispatch(connection, kind, outfile_type, **kwargs):
    outfile = io.StringIO()
    with open('{}/{}_parameters.yml'.format(SAMPLE_DIR, kind)) as parameter_file:
        try:
            ret = pestfiles_mod.generate_curves_pestfiles(
                connection, parameter_file, outfile_type, None, outfile, **kwargs)
        except BaseException as exc:
            return ('raised', exc, outfile.getvalue())
    return ('returned', ret, outfile.getvalue())


def exercise(tag, connection):
    """Everything that reads the database"""
    before = dump(connection)
    for kind in ('spline', 'peatclsm'):
        record('{}/ins/{}'.format(tag, kind), call_direct,
               pestfiles_mod.generate_curves_ins_file, connection, PARS[kind])
        for precision in (17, 5, 1, 0, 30, '3', None, 2.5, -1):
            record('{}/pst/{}/precision_{}'.format(tag, kind, precision), call_direct,
                   pestfiles_mod.generate_curves_pst_file, connection, PARS[kind],
                   precision)
        for outfile_type in ('ins', 'pst', 'tpl', 'bad'):
            record('{}/dispatch/{}/{}'.format(tag, kind, outfile_type),
                   call_dispatch, connection, kind, outfile_type)
        record('{}/dispatch/{}/precision6'.format(tag, kind),
               call_dispatch, connection, kind, 'pst', precision=6)
    record(tag + '/in_transaction', lambda: connection.in_transaction)
    record(tag + '/db_unchanged', lambda: dump(connection) == before)


# 1. Databases built from both samples, exactly as the tests / CLI do
for sample in (1, 2):
    db = os.path.join(WORKDIR, 'sample{}.sqlite3'.format(sample))
    args = ['load', db]
    for flag, name in (('-p', 'precipitation'), ('-e', 'evapotranspiration'),
                       ('-z', 'water_level')):
        args += [flag, '{}/{}_{}.txt'.format(SAMPLE_DIR, name, sample)]
    record('sample{}/cli/load'.format(sample), ui.main, args + ['--timezone', 'Africa/Lagos'])
    record('sample{}/cli/classify'.format(sample), ui.main,
           ['classify', db, '-s', '8.0', '-j', '5.0'])
    record('sample{}/cli/set-zeta-grid'.format(sample), ui.main, ['set-zeta-grid', db])
    gc.collect()
    # State 1: neither curve assembled (tables exist but are empty)
    with sqlite3.connect(db) as connection:
        exercise('sample{}/no_curves'.format(sample), connection)
    connection.close()
    record('sample{}/cli/rise'.format(sample), ui.main, ['rise', db])
    # State 2: only the rise curve
    with sqlite3.connect(db) as connection:
        exercise('sample{}/rise_only'.format(sample), connection)
    connection.close()
    record('sample{}/cli/recession'.format(sample), ui.main, ['recession', db])
    # State 3: both curves; through library and through the CLI
    with sqlite3.connect(db) as connection:
        exercise('sample{}/both'.format(sample), connection)
        connection.row_factory = sqlite3.Row
        exercise('sample{}/both_row_factory'.format(sample), connection)
    connection.close()
    for kind in ('spline', 'peatclsm'):
        for outfile_type in ('ins', 'pst', 'tpl'):
            out_path = os.path.join(
                WORKDIR, 'cli_{}_{}_{}.txt'.format(sample, kind, outfile_type))
            record('sample{}/cli/pestfiles/{}/{}/returncode'.format(sample, kind, outfile_type),
                   ui.main, ['pestfiles', 'curves', db,
                             '{}/{}_parameters.yml'.format(SAMPLE_DIR, kind),
                             outfile_type, '-o', out_path])
            gc.collect()
            record('sample{}/cli/pestfiles/{}/{}/bytes'.format(sample, kind, outfile_type),
                   lambda: open(out_path, 'rb').read())

# 2. Synthetic databases
# 2a. no schema at all; 2b. one of the tables / views missing
with sqlite3.connect(':memory:') as connection:
    exercise('synthetic/no_schema', connection)
for missing in ('rising_interval_zeta', 'recession_interval_zeta',
                'average_rising_depth', 'average_recession_time'):
    with sqlite3.connect(':memory:') as connection:
        for name, columns in [
                ('rising_interval_zeta', 'start_epoch, zeta_number, mean_crossing_depth_mm'),
                ('recession_interval_zeta', 'start_epoch, zeta_number, mean_crossing_time'),
                ('average_rising_depth', 'zeta_mm, mean_crossing_depth_mm'),
                ('average_recession_time', 'zeta_mm, elapsed_time_s')]:
            if name != missing:
                connection.execute('CREATE TABLE {} ({})'.format(name, columns))
        exercise('synthetic/missing_' + missing, connection)

# 2c. hand-made contents: ties in zeta_mm, integers, NULL, text, huge and tiny values
contents = {
    'plain': ([(0, 1, 1.5), (0, 2, 2.5), (7, 2, 1.0), (7, 3, 0.5)],
              [(0, 5, 10.0), (0, 6, 20.0), (9, 6, 30.0)],
              [(-3.0, 1.25), (-2.0, 2.0 / 3.0), (-1.0, 1e-12), (0.0, 123456789.123456789)],
              [(-3.0, 86400.0), (-2.0, 43200), (-1.0, 1), (0.0, 1e10), (1.0, -7.5)]),
    'ties_and_ints': ([(0, 1, 1.5)] * 1 + [(1, 1, 2.0), (2, 4, 2.0)],
                      [(0, 5, 10.0)],
                      [(1.0, 3), (1.0, 4), (0.0, 5), (1.0, 6), (0.0, 7)],
                      [(2.0, 100), (2.0, 200), (1.0, 300), (2.0, 400)]),
    'null_storage': ([(0, 1, 1.5)], [(0, 5, 10.0)],
                     [(0.0, 1.0), (1.0, None)], [(0.0, 5.0)]),
    'null_time': ([(0, 1, 1.5)], [(0, 5, 10.0)],
                  [(0.0, 1.0)], [(0.0, 5.0), (1.0, None)]),
    'text_values': ([(0, 1, 1.5)], [(0, 5, 10.0)],
                    [(0.0, 'abc')], [(0.0, 'abc')]),
    'empty': ([], [], [], []),
    'many': ([(e, z, 1.0) for e in range(3) for z in range(1200)],
             [(e, z, 1.0) for e in range(2) for z in range(100, 1100)],
             [(0.5 * z, 0.1 * z * z) for z in range(1200)],
             [(0.5 * z, 1000.0 / (z + 1)) for z in range(1000)]),
}
for name, (rise_zeta, recession_zeta, rising_depth, recession_time) in contents.items():
    with sqlite3.connect(':memory:') as connection:
        connection.execute('CREATE TABLE rising_interval_zeta (start_epoch, zeta_number, mean_crossing_depth_mm)')
        connection.execute('CREATE TABLE recession_interval_zeta (start_epoch, zeta_number, mean_crossing_time)')
        connection.execute('CREATE TABLE average_rising_depth (zeta_mm, mean_crossing_depth_mm)')
        connection.execute('CREATE TABLE average_recession_time (zeta_mm, elapsed_time_s)')
        connection.executemany('INSERT INTO rising_interval_zeta VALUES (?, ?, ?)', rise_zeta)
        connection.executemany('INSERT INTO recession_interval_zeta VALUES (?, ?, ?)', recession_zeta)
        connection.executemany('INSERT INTO average_rising_depth VALUES (?, ?)', rising_depth)
        connection.executemany('INSERT INTO average_recession_time VALUES (?, ?)', recession_time)
        connection.commit()
        exercise('synthetic/' + name, connection)

# 3. Parameter variations (no database rows needed, use the last sample db)
with sqlite3.connect(os.path.join(WORKDIR, 'sample1.sqlite3')) as connection:
    variations = {
        'unknown_type': {'specific_yield': {'type': 'campbell'}, 'transmissivity': {'type': 'spline'}},
        'none_type': {'specific_yield': {'type': None}, 'transmissivity': {}},
        'quote_type': {'specific_yield': {'type': 'a"b{}'}, 'transmissivity': {}},
        'no_type': {'specific_yield': {}, 'transmissivity': {}},
        'no_specific_yield': {'transmissivity': {'type': 'spline'}},
        'spline_no_sy_knots': {'specific_yield': {'type': 'spline'},
                               'transmissivity': {'type': 'spline', 'K_knots_km_d': [1, 2]}},
        'spline_no_K_knots': {'specific_yield': {'type': 'spline', 'sy_knots': [1, 2, 3]},
                              'transmissivity': {'type': 'spline'}},
        'spline_no_transmissivity': {'specific_yield': {'type': 'spline', 'sy_knots': [1, 2, 3]}},
        'spline_zero_knots': {'specific_yield': {'type': 'spline', 'sy_knots': []},
                              'transmissivity': {'type': 'spline', 'K_knots_km_d': []}},
        'spline_many_knots': {'specific_yield': {'type': 'spline', 'sy_knots': list(range(123))},
                              'transmissivity': {'type': 'spline', 'K_knots_km_d': list(range(11))}},
        'spline_knots_none': {'specific_yield': {'type': 'spline', 'sy_knots': None},
                              'transmissivity': {'type': 'spline', 'K_knots_km_d': [1]}},
        'peatclsm_minimal': {'specific_yield': {'type': 'peatclsm'}},
        'mixed': {'specific_yield': {'type': 'peatclsm'}, 'transmissivity': {'type': 'spline'}},
        'not_a_dict': None,
    }
    for name, parameters in variations.items():
        record('parameters/{}/pst'.format(name), call_direct,
               pestfiles_mod.generate_curves_pst_file, connection, parameters)
        record('parameters/{}/ins'.format(name), call_direct,
               pestfiles_mod.generate_curves_ins_file, connection, parameters)
    record('closed_connection/pst', lambda: None)
connection.close()
record('closed/pst', call_direct, pestfiles_mod.generate_curves_pst_file, connection, PARS['spline'])
record('closed/ins', call_direct, pestfiles_mod.generate_curves_ins_file, connection, PARS['spline'])
record('none_connection/pst', call_direct, pestfiles_mod.generate_curves_pst_file, None, PARS['spline'])
record('none_connection/ins', call_direct, pestfiles_mod.generate_curves_ins_file, None, PARS['spline'])


class BadFile:
    def write(self, text):
        raise IOError('cannot write {} characters'.format(len(text)))


with sqlite3.connect(os.path.join(WORKDIR, 'sample2.sqlite3')) as connection:
    for func in (pestfiles_mod.generate_curves_pst_file, pestfiles_mod.generate_curves_ins_file):
        record('bad_outfile/' + func.__name__, func, connection, PARS['peatclsm'], {}, BadFile(), 17)
        record('keywords/' + func.__name__, lambda func=func: (lambda out: (func(
            precision=4, outfile=out, configuration={}, parameters=copy.deepcopy(PARS['peatclsm']),
            connection=connection), out.getvalue()))(io.StringIO()))
connection.close()
'''

if __name__ == '__main__':
    diff_common.compare(4, WORKER)
