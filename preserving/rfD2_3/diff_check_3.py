"""Differential check for refactor3.diff (transmissivity.py)

Evaluates SplineTransmissivity (__call__, call_scalar, conductivity) and
PeatclsmTransmissivity on the sample parameters and on synthetic inputs that
reach every touched branch (scalar / array / list / 0-d array / NaN / below,
at and above the knots, undefined levels), plus the recession simulation on
sample data set 1, with the original and the refactored package; asserts
bit-exact equality of values, result types and exception messages.
"""

import io
import warnings

import _dc_harness


def worker():
    import numpy as np
    import yaml

    import spowtd.simulate_recession as simulate_recession_mod
    import spowtd.transmissivity as t_mod
    from spowtd.test import conftest

    warnings.simplefilter('ignore')
    np.seterr(all='ignore')
    np.set_printoptions(precision=17)
    results = {}
    capture = _dc_harness.capture

    def typed(func, *args):
        outcome = capture(func, *args)
        if outcome[0] == 'ok':
            return ('ok', type(outcome[1]).__name__, outcome[1])
        return outcome

    with open(conftest.get_parameter_file_path('spline'), 'rt') as f:
        sample_spline = yaml.safe_load(f)['transmissivity']
    with open(conftest.get_parameter_file_path('peatclsm'), 'rt') as f:
        sample_peatclsm = yaml.safe_load(f)['transmissivity']

    # --- spline transmissivity -------------------------------------------
    rng = np.random.default_rng(11)
    spline_sets = {
        'sample': dict(sample_spline),
        'three_knots_int_tmin': {
            'type': 'spline',
            'zeta_knots_mm': [-100, 0, 50],
            'K_knots_km_d': [0.001, 2, 2],
            'minimum_transmissivity_m2_d': 3,
        },
        'random': {
            'type': 'spline',
            'zeta_knots_mm': (np.cumsum(rng.uniform(5, 90, 7)) - 300).tolist(),
            'K_knots_km_d': np.exp(rng.uniform(-6, 6, 7)).tolist(),
            'minimum_transmissivity_m2_d': 0.0,
        },
    }
    for name, parameters in spline_sets.items():
        transmissivity = t_mod.create_transmissivity_function(
            dict(parameters)
        )
        zmin = float(np.min(parameters['zeta_knots_mm']))
        zmax = float(np.max(parameters['zeta_knots_mm']))
        grid = np.linspace(zmin - 60, zmax - 1e-3, 23)
        scalars = [
            zmin - 10.0, zmin, np.nextafter(zmin, np.inf), 0.5 * (zmin + zmax),
            np.float64(zmin + 1.0), int(zmin) + 2, np.nextafter(zmax, -np.inf),
            zmax, zmax + 5.0, float('nan'), float('-inf'), float('inf'),
        ]
        res = {
            'class': type(transmissivity).__name__,
            'array': typed(transmissivity, grid),
            'list': typed(transmissivity, grid.tolist()),
            'tuple': typed(transmissivity, tuple(grid[:4].tolist())),
            'empty': typed(transmissivity, []),
            'array_2d': typed(transmissivity, grid[:4].reshape(2, 2)),
            'array_0d': typed(transmissivity, np.array(zmin + 3.0)),
            'array_above': typed(transmissivity, np.array([zmin, zmax + 1.0])),
            'generator': typed(transmissivity, (v for v in grid[:5])),
            'none': typed(transmissivity, None),
            'string': typed(transmissivity, 'abc'),
            'sample_test_grid': typed(
                transmissivity, np.linspace(-0.35, 0.2, 10) * 1000
            ),
            'scalars': [typed(transmissivity, v) for v in scalars],
            'call_scalar': [
                typed(transmissivity.call_scalar, v) for v in scalars
            ],
            'call_scalar_array': typed(
                transmissivity.call_scalar, np.array([zmin, zmin + 1.0])
            ),
            'conductivity': [
                typed(transmissivity.conductivity, v) for v in scalars
            ],
            'conductivity_array': typed(
                transmissivity.conductivity, np.array([zmin, zmin + 1.0])
            ),
            'slots': list(type(transmissivity).__slots__),
            'has_dict': hasattr(transmissivity, '__dict__'),
        }
        results['spline_' + name] = res

    # bad construction / degenerate knots
    bad_sets = {
        'no_knots': {
            'type': 'spline', 'zeta_knots_mm': [], 'K_knots_km_d': [],
            'minimum_transmissivity_m2_d': 1.0,
        },
        'missing_type': {'zeta_knots_mm': [0, 1]},
        'unknown_type': {'type': 'other'},
    }
    for name, parameters in bad_sets.items():
        results['bad_' + name] = capture(
            t_mod.create_transmissivity_function, dict(parameters)
        )
    # object built around empty knot arrays (bypassing __init__)
    hollow = t_mod.SplineTransmissivity.__new__(t_mod.SplineTransmissivity)
    hollow.zeta_knots_mm = np.array([], dtype='float64')
    hollow.minimum_transmissivity_m2_d = 1.5
    results['hollow_call'] = typed(hollow, 3.0)
    results['hollow_conductivity'] = typed(hollow.conductivity, 3.0)

    # --- PEATCLSM transmissivity -----------------------------------------
    peat_sets = {
        'sample': dict(sample_peatclsm),
        'fractional': {
            'type': 'peatclsm', 'Ksmacz0': 2.5e-4, 'alpha': 2.7,
            'zeta_max_cm': 12.5,
        },
        'alpha_one': {
            'type': 'peatclsm', 'Ksmacz0': 1.0, 'alpha': 1,
            'zeta_max_cm': 5,
        },
        'array_parameters': {
            'type': 'peatclsm', 'Ksmacz0': np.array([1.0, 2.0]),
            'alpha': np.array([3.0, 2.5]), 'zeta_max_cm': np.array([1.0, 0.0]),
        },
    }
    for name, parameters in peat_sets.items():
        transmissivity = t_mod.create_transmissivity_function(
            dict(parameters)
        )
        arguments = {
            'test_grid': np.linspace(-1.5, 0.0, 151)[::-1] * 1000,
            'list': [-500.0, -20.0, 0.0],
            'ints': [-500, -20, 0],
            'int_array': np.array([-500, -20, 0]),
            'scalar': -123.4,
            'scalar_int': -15,
            'np_scalar': np.float64(-77.7),
            'array_0d': np.array(-5.0),
            'at_maximum': 10.0 * np.max(parameters['zeta_max_cm']),
            'above_maximum': [-10.0, 10.0 * np.max(parameters['zeta_max_cm'])
                              + 1.0],
            'scalar_above': 1e6,
            'nan': [float('nan'), -3.0],
            'empty': [],
            'array_2d': np.array([[-100.0, -50.0], [-25.0, -12.5]]),
            'pair': [-40.0, -30.0],
            'none': None,
            'string': 'abc',
        }
        results['peatclsm_' + name] = {
            key: typed(transmissivity, value)
            for key, value in arguments.items()
        }
    results['peatclsm_bad_keyword'] = capture(
        t_mod.create_transmissivity_function,
        {'type': 'peatclsm', 'Ksmacz0': 1.0, 'alpha': 3},
    )

    # --- recession simulation on the sample data (uses both classes) ------
    connection = _dc_harness.build_database(1)
    for parameterization in ('spline', 'peatclsm'):
        outfile = io.StringIO()
        with open(
            conftest.get_parameter_file_path(parameterization), 'rt'
        ) as parameter_file:
            outcome = capture(
                simulate_recession_mod.dump_simulated_recession,
                connection=connection,
                parameter_file=parameter_file,
                outfile=outfile,
                observations_only=False,
            )
        results['recession_' + parameterization] = (
            outcome, outfile.getvalue()
        )
    connection.close()
    return results


if __name__ == '__main__':
    _dc_harness.main(__file__, 'refactor3.diff', worker)
