"""Differential check for refactor3.diff (classify_intervals: data intervals)

Loads spowtd/classify.py twice, once from git HEAD and once from HEAD with
refactor3.diff applied (in a temporary directory).  For each test database
(the two sample data sets loaded with spowtd.load, and synthetic databases
built from spowtd/schema.sql with several data intervals, unsorted and
non-contiguous labels, gaps with NULL data_interval, no valid interval at
all, a one-point interval, a second call on the same database) it runs
classify_intervals from both modules on identical copies and compares the
exception (type and message) and a full dump of the database, as seen from
the same connection and from a second connection (committed state).

Run as:  cd /tmp/rf_A && PYTHONPATH=/tmp/rf_A /venv/bin/python diff_check_3.py
"""

import copy
import importlib.util
import os
import random
import shutil
import sqlite3
import subprocess
import sys
import tempfile

import numpy as np

HERE = os.path.dirname(os.path.abspath(__file__))
K = 3


def load_variants():
    """Return (original module, refactored module)"""
    tmp = tempfile.mkdtemp(prefix="diffcheck_", dir=HERE)
    try:
        source = subprocess.check_output(
            ["git", "-C", HERE, "show", "HEAD:spowtd/classify.py"]
        )
        modules = []
        for name in ("orig", "new"):
            os.makedirs(os.path.join(tmp, name, "spowtd"))
            path = os.path.join(tmp, name, "spowtd", "classify.py")
            with open(path, "wb") as f:
                f.write(source)
            if name == "new":
                with open(os.path.join(HERE, f"refactor{K}.diff"), "rb") as patch:
                    subprocess.check_call(
                        ["patch", "-s", "-p1", "-d", os.path.join(tmp, name)],
                        stdin=patch,
                    )
                with open(path, "rb") as f:
                    assert f.read() != source, "patch changed nothing"
            spec = importlib.util.spec_from_file_location(f"classify_{name}", path)
            module = importlib.util.module_from_spec(spec)
            spec.loader.exec_module(module)
            modules.append(module)
        return tuple(modules)
    finally:
        shutil.rmtree(tmp)


def describe(obj):
    """Exact, type-revealing description of a nested result"""
    if isinstance(obj, dict):
        return ("dict", [(describe(k), describe(v)) for k, v in obj.items()])
    if isinstance(obj, (list, tuple)):
        return (type(obj).__name__, [describe(v) for v in obj])
    if isinstance(obj, np.ndarray):
        return ("ndarray", str(obj.dtype), obj.shape, obj.tobytes())
    return (type(obj).__name__, repr(obj))


def outcome(function, *args):
    """Result or exception of a call"""
    try:
        return ("ok", describe(function(*args)))
    except Exception as exc:  # pylint: disable=broad-except
        return ("raised", type(exc).__name__, str(exc))


def random_series(rng):
    """Random rain and head series with overlapping storms and rises"""
    n = rng.randint(2, 120)
    rain = np.zeros(n)
    head = np.zeros(n)
    level = 0.0
    raining = False
    rising = False
    for i in range(n):
        if rng.random() < 0.25:
            raining = not raining
        if rng.random() < 0.3:
            rising = not rising
        rain[i] = rng.choice([5.0, 9.0, 20.0]) if raining else rng.choice([0.0, 1.0])
        level += rng.choice([2.0, 3.0, 7.0]) if rising else rng.choice([-0.5, 0.0, 0.5])
        head[i] = level
    return rain, head



SCHEMA_PATH = os.path.join(HERE, "spowtd", "schema.sql")
DATA_DIR = os.path.join(HERE, "spowtd", "test", "sample_data")


def dump(connection):
    """All tables, all rows, in rowid order"""
    tables = [
        row[0]
        for row in connection.execute(
            "SELECT name FROM sqlite_master WHERE type = 'table' ORDER BY name"
        )
    ]
    return {
        table: [
            tuple((type(v).__name__, repr(v)) for v in row)
            for row in connection.execute(f"SELECT rowid, * FROM {table} ORDER BY rowid")
        ]
        for table in tables
    }


def load_sample(path, sample):
    """Create a database file with a sample data set loaded"""
    import spowtd.load as load_mod  # unchanged by the patch

    connection = sqlite3.connect(path)
    with open(
        os.path.join(DATA_DIR, f"precipitation_{sample}.txt"),
        "rt",
        encoding="utf-8-sig",
    ) as precip_f, open(
        os.path.join(DATA_DIR, f"evapotranspiration_{sample}.txt"),
        "rt",
        encoding="utf-8-sig",
    ) as et_f, open(
        os.path.join(DATA_DIR, f"water_level_{sample}.txt"),
        "rt",
        encoding="utf-8-sig",
    ) as zeta_f:
        load_mod.load_data(
            connection=connection,
            precipitation_data_file=precip_f,
            evapotranspiration_data_file=et_f,
            water_level_data_file=zeta_f,
            time_zone_name="Africa/Lagos",
        )
    connection.commit()
    connection.close()


def build_synthetic(path, segments, rng, time_step_s=3600):
    """Create a database with the given (label or None, length) segments"""
    connection = sqlite3.connect(path)
    cursor = connection.cursor()
    with open(SCHEMA_PATH, "rt") as schema_file:
        cursor.executescript(schema_file.read())
    cursor.execute(
        "INSERT INTO time_grid (source_time_zone, time_step_s) VALUES ('UTC', ?)",
        (time_step_s,),
    )
    epoch = 1_600_000_000
    grid = []
    for label, length in segments:
        rain, head = random_series(rng)
        if length is None:
            length = len(rain)
        while len(rain) < length:
            more_rain, more_head = random_series(rng)
            rain = np.concatenate((rain, more_rain))
            head = np.concatenate((head, more_head + head[-1]))
        rain, head = rain[:length], head[:length]
        for k in range(length):
            grid.append((epoch, label, float(rain[k]), float(head[k])))
            epoch += time_step_s
    grid.append((epoch, None, 0.0, 0.0))
    cursor.executemany(
        "INSERT INTO grid_time (epoch, data_interval) VALUES (?, ?)",
        [(t, label) for t, label, _, _ in grid],
    )
    cursor.executemany(
        "INSERT INTO rainfall_intensity (from_epoch, thru_epoch, "
        "rainfall_intensity_mm_h) VALUES (?, ?, ?)",
        [(t, t + time_step_s, rain) for t, _, rain, _ in grid[:-1]],
    )
    cursor.executemany(
        "INSERT INTO water_level (epoch, zeta_mm) VALUES (?, ?)",
        [(t, head) for t, label, _, head in grid if label is not None],
    )
    connection.commit()
    connection.close()


def run(module, template, workdir, name, thresholds, calls=1):
    """classify_intervals on a copy of template; outcome and dumps"""
    path = os.path.join(workdir, name + ".sqlite3")
    shutil.copyfile(template, path)
    connection = sqlite3.connect(path)
    connection.execute("PRAGMA foreign_keys = 1")
    outcomes = []
    for _ in range(calls):
        try:
            outcomes.append(("ok", repr(module.classify_intervals(connection, *thresholds))))
        except Exception as exc:  # pylint: disable=broad-except
            outcomes.append(("raised", type(exc).__name__, str(exc)))
    same_connection = dump(connection)
    other = sqlite3.connect(path)
    committed = dump(other)
    other.close()
    connection.close()
    os.remove(path)
    return (outcomes, same_connection, committed)


def main():
    orig, new = load_variants()
    rng = random.Random(20260927)
    workdir = tempfile.mkdtemp(prefix="diffcheck_db_", dir=HERE)
    n_cases = 0
    n_ok = 0
    try:
        template = os.path.join(workdir, "template.sqlite3")

        def compare(thresholds, calls=1, expect=None):
            nonlocal n_cases, n_ok
            a = run(orig, template, workdir, "orig", thresholds, calls)
            b = run(new, template, workdir, "new", thresholds, calls)
            assert a == b, (thresholds, a[0], b[0])
            if expect is not None:
                assert a[0][0][0] == "ok" if expect == "ok" else a[0][0][1] == expect, a[0]
            n_cases += 1
            n_ok += a[0][0][0] == "ok"
            if os.environ.get("DIFF_CHECK_VERBOSE"):
                print(a[0], {k: len(v) for k, v in a[2].items() if v})
            return a

        for sample in (1, 2):
            load_sample(template, sample)
            for thresholds in [(8.0, 5.0), (), (1.0, 1.0)]:
                result = compare(thresholds, expect="ok")
                assert result[2]["zeta_interval"], "nothing classified"
            compare((8.0, 5.0), calls=2)  # second call: thresholds exist
            os.remove(template)

        layouts = [
            [(0, None)],
            [(0, None), (None, 3), (1, None)],
            [(7, None), (3, None), (10, None)],  # unsorted labels
            [(5, None), (None, 2), (2, None), (None, 1), (9, None), (None, 4)],
            [(None, 4), (4, None), (4, None)],  # label used twice, contiguous
            [(-1, None), (0, None), (2**40, None)],
            [(None, 6)],  # no valid interval -> ValueError
            [],  # only the closing grid point, no valid interval
            [(0, None), (1, 1)],  # one-point interval -> error in second
            [(1, 1), (0, None)],  # one-point interval visited second
            [(3, 2), (4, 2)],
        ]
        for layout in layouts:
            for _ in range(6):
                build_synthetic(template, layout, rng)
                expect = None
                if all(label is None for label, _ in layout):
                    expect = "ValueError"
                compare((4.0, 2.5), expect=expect)
                compare((8.0, 1.0))
                compare((4.0, 2.5), calls=2)
                os.remove(template)
        for _ in range(60):
            labels = rng.sample(range(-3, 40), rng.randint(1, 6))
            layout = []
            for label in labels:
                if rng.random() < 0.5:
                    layout.append((None, rng.randint(1, 5)))
                layout.append((label, None))
            build_synthetic(template, layout, rng, rng.choice([1800, 3600, 600]))
            compare((rng.choice([4.0, 8.0]), rng.choice([1.0, 2.5, 5.0])))
            os.remove(template)
    finally:
        shutil.rmtree(workdir)
    assert n_ok > n_cases // 2, (n_ok, n_cases)
    print(f"diff_check_{K}: OK ({n_cases} cases identical, {n_ok} without error)")


if __name__ == "__main__":
    sys.exit(main())
