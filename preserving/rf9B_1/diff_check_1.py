#!/venv/bin/python
"""Differential check for refactor1.diff: spowtd.load.load_data

The staging of the three CSV files is moved into the helper
stage_timestamped_csv, called in a loop over a literal table of staging
tables, the INSERT text being assembled from constants.

Runs the scenarios below twice in sub-processes, once against the tree
of HEAD (exported with git archive into a temporary directory) and once
against the work tree (which must have the refactoring applied), and
compares the outcomes exactly: return values, exception type and
message, the SQL text passed to the cursor and the connection in
order, the expanded SQL seen by sqlite's trace callback, the dump of
the database (committed or not), the transaction state and how far
each input file was read.

Usage: PYTHONPATH=/tmp/wt/rf9_B /venv/bin/python diff_check_1.py
"""

import hashlib
import importlib
import io
import os
import pickle
import subprocess
import sys
import tempfile

HERE = os.path.dirname(os.path.abspath(__file__))
PATCH = 'refactor1.diff'
MODULE_NAME = 'spowtd.load'
MODULE = 'spowtd/load.py'
MARKER = 'def stage_timestamped_csv('
SAMPLE_DATA_DIR = os.path.join(HERE, 'spowtd', 'test', 'sample_data')


# ---------------------------------------------------------------- canon


def canon(obj):
    """Describe obj exactly (type, dtype, bytes) with plain objects"""
    import numpy as np

    if isinstance(obj, np.ndarray):
        if obj.dtype == object:
            return ('ndarray-object', obj.shape, [canon(v) for v in obj.flat])
        return ('ndarray', obj.dtype.str, obj.shape, obj.tobytes())
    if isinstance(obj, np.generic):
        return ('npscalar', type(obj).__name__, obj.dtype.str, obj.tobytes())
    if isinstance(obj, bool) or obj is None:
        return ('const', repr(obj))
    if isinstance(obj, int):
        return ('int', obj)
    if isinstance(obj, float):
        return ('float', obj.hex())
    if isinstance(obj, (str, bytes)):
        return (type(obj).__name__, obj)
    if isinstance(obj, (list, tuple)):
        return (type(obj).__name__, [canon(v) for v in obj])
    if isinstance(obj, dict):
        # order of insertion is part of the result
        return ('dict', [(canon(k), canon(v)) for k, v in obj.items()])
    if isinstance(obj, (set, frozenset)):
        return (type(obj).__name__, sorted(repr(canon(v)) for v in obj))
    if isinstance(obj, BaseException):
        return (
            'exception',
            type(obj).__module__ + '.' + type(obj).__qualname__,
            str(obj),
            canon(obj.args),
        )
    return ('other', type(obj).__name__, repr(obj))


def call(function, *args, **kwargs):
    """Outcome of a call: its value or its exception"""
    try:
        return ('returned', canon(function(*args, **kwargs)))
    except BaseException as exc:  # pylint: disable=broad-except
        return ('raised', canon(exc))


# ------------------------------------------------------------ scenarios


class RecordingCursor:
    """Cursor that records the SQL text it is given"""

    def __init__(self, cursor, record):
        self._cursor = cursor
        self._record = record

    def execute(self, sql, *args):
        self._record.append(('cursor.execute', sql))
        return self._cursor.execute(sql, *args)

    def executemany(self, sql, *args):
        self._record.append(('cursor.executemany', sql))
        return self._cursor.executemany(sql, *args)

    def executescript(self, sql):
        self._record.append(('cursor.executescript', sql))
        return self._cursor.executescript(sql)

    def fetchall(self):
        self._record.append(('cursor.fetchall',))
        return self._cursor.fetchall()

    def close(self):
        self._record.append(('cursor.close',))
        return self._cursor.close()


class RecordingConnection:
    """Connection that records the SQL text it is given"""

    def __init__(self, connection, record):
        self._connection = connection
        self._record = record

    def execute(self, sql, *args):
        self._record.append(('connection.execute', sql))
        return self._connection.execute(sql, *args)

    def cursor(self):
        self._record.append(('connection.cursor',))
        return RecordingCursor(self._connection.cursor(), self._record)

    def commit(self):
        self._record.append(('connection.commit',))
        return self._connection.commit()


class Unreadable:
    """File-like object that records that it was touched"""

    def __init__(self):
        self.touched = 0

    def __iter__(self):
        self.touched += 1
        return self

    def __next__(self):
        self.touched += 1
        raise OSError('unreadable file')

    def read(self):
        return 'touched {}'.format(self.touched)


def rest_of(data_file):
    """What is left unread in a data file"""
    if hasattr(data_file, 'read'):
        try:
            return ('rest', data_file.read())
        except BaseException as exc:  # pylint: disable=broad-except
            return ('rest raised', canon(exc))
    if hasattr(data_file, '__next__'):
        return ('rest', list(data_file))
    return ('no rest', repr(data_file))


def run_load(precip, et, zeta, tz_name, prepare=None, trace_hash=False):
    """Run load_data on a fresh database, report all that can be seen"""
    import sqlite3
    import spowtd.load as load_mod

    connection = sqlite3.connect(':memory:')
    if prepare is not None:
        connection.executescript(prepare)
    record = []
    traced = []
    digest = hashlib.sha256()
    count = [0]

    def trace(statement):
        if trace_hash:
            digest.update(statement.encode('utf-8') + b'\0')
            count[0] += 1
        else:
            traced.append(statement)

    connection.set_trace_callback(trace)
    outcome = call(
        load_mod.load_data,
        connection=RecordingConnection(connection, record),
        precipitation_data_file=precip,
        evapotranspiration_data_file=et,
        water_level_data_file=zeta,
        time_zone_name=tz_name,
    )
    connection.set_trace_callback(None)
    in_transaction = connection.in_transaction
    dump = list(connection.iterdump())
    if trace_hash:
        dump = ('sha256', len(dump), hashlib.sha256(
            '\n'.join(dump).encode('utf-8')).hexdigest())
        traced = ('sha256', count[0], digest.hexdigest())
    result = {
        'outcome': outcome,
        'sql': canon(record),
        'traced': traced,
        'in_transaction': in_transaction,
        'dump': dump,
        'rest': [rest_of(f) for f in (precip, et, zeta)],
    }
    connection.close()
    return result


def sample_file(kind, sample):
    return open(
        os.path.join(SAMPLE_DATA_DIR, '{}_{}.txt'.format(kind, sample)),
        'rt',
        encoding='utf-8-sig',
    )


def series(header, start_minute, step_minutes, values, day='2020-03-01'):
    """CSV text of a regular series starting at day 00:start_minute"""
    lines = [header]
    for i, value in enumerate(values):
        minutes = start_minute + i * step_minutes
        lines.append(
            '{} {:02d}:{:02d}:00,{}'.format(
                day, minutes // 60, minutes % 60, value
            )
        )
    return '\n'.join(lines) + '\n'


P_HEAD = 'datetime,precipitation rate (mm/h)'
E_HEAD = 'Datetime (local),evapotranspiration (mm/h)'
Z_HEAD = 'DATETIME,wtd (mm)'


def good_texts():
    precip = series(P_HEAD, 0, 30, [0.0, 1.5, 0.0, 2.25, 0.0, 0.0, 7.0, 0.0,
                                    0.0, 0.125, 0.0, 0.0])
    et = series(E_HEAD, 0, 30, [0.01 * i for i in range(14)])
    # Water level every 20 min from 00:40, with a gap
    zeta_lines = series(Z_HEAD, 40, 20, [-300.0 + 0.7 * i for i in range(14)])
    zeta_lines = zeta_lines.splitlines()
    del zeta_lines[6:9]
    return precip, et, '\n'.join(zeta_lines) + '\n'


def scenarios():
    results = []

    def add(name, *args, **kwargs):
        results.append((name, run_load(*args, **kwargs)))

    # Sample data
    for sample, tz_name in ((1, 'Africa/Lagos'), (2, 'Africa/Lagos'),
                            (1, 'UTC'), (2, 'America/St_Johns')):
        with sample_file('precipitation', sample) as precip, sample_file(
            'evapotranspiration', sample
        ) as et, sample_file('water_level', sample) as zeta:
            add('sample {} {}'.format(sample, tz_name), precip, et, zeta,
                tz_name, trace_hash=True)
    # Files in the wrong places: the water level file as rainfall
    with sample_file('water_level', 1) as precip, sample_file(
        'evapotranspiration', 1
    ) as et, sample_file('precipitation', 1) as zeta:
        add('sample 1 swapped', precip, et, zeta, 'Africa/Lagos',
            trace_hash=True)

    precip, et, zeta = good_texts()

    def sio(text):
        return io.StringIO(text)

    add('synthetic good', sio(precip), sio(et), sio(zeta), 'Africa/Lagos')
    add('synthetic good, DST zone', sio(precip), sio(et), sio(zeta),
        'Europe/London')
    add('synthetic good, lists of lines', precip.splitlines(),
        et.splitlines(), zeta.splitlines(), 'Asia/Kolkata')
    add('synthetic good, iterators', iter(precip.splitlines()),
        iter(et.splitlines()), iter(zeta.splitlines()), 'UTC')
    add('unknown time zone', sio(precip), sio(et), sio(zeta), 'Mars/Olympus')
    add('time zone None', sio(precip), sio(et), sio(zeta), None)
    add('database populated', sio(precip), sio(et), sio(zeta), 'UTC',
        prepare='CREATE TABLE t (a integer); INSERT INTO t VALUES (1);')

    texts = {'precip': precip, 'et': et, 'zeta': zeta}
    order = ('precip', 'et', 'zeta')

    def with_changed(which, text):
        changed = dict(texts)
        changed[which] = text
        return [sio(changed[key]) if changed[key] is not None else None
                for key in order]

    for which in order:
        original = texts[which]
        lines = original.splitlines()
        variants = {
            'bad header': '\n'.join(['time,value'] + lines[1:]) + '\n',
            'header with leading space':
                '\n'.join([' datetime,value'] + lines[1:]) + '\n',
            'empty file': '',
            'blank first line': '\n' + original,
            'header only': lines[0] + '\n',
            'header and one row': '\n'.join(lines[:2]) + '\n',
            'header and two rows': '\n'.join(lines[:3]) + '\n',
            'no header': '\n'.join(lines[1:]) + '\n',
            'bad datetime in row 3':
                '\n'.join(lines[:3] + ['2020-03-01T01:00,1.0'] + lines[4:])
                + '\n',
            'fractional seconds':
                '\n'.join(lines[:3] + ['2020-03-01 01:00:00.5,1.0']
                          + lines[4:]) + '\n',
            'one column in row 2':
                '\n'.join(lines[:2] + [lines[2].split(',')[0]] + lines[3:])
                + '\n',
            'three columns in row 2':
                '\n'.join(lines[:2] + [lines[2] + ',9'] + lines[3:]) + '\n',
            'blank row': '\n'.join(lines[:4] + [''] + lines[4:]) + '\n',
            'duplicate row': '\n'.join(lines[:4] + [lines[3]] + lines[4:])
            + '\n',
            'missing value': '\n'.join(lines[:2] + [lines[2].split(',')[0]
                                                    + ','] + lines[3:]) + '\n',
            'text value': '\n'.join(lines[:2] + [lines[2].split(',')[0]
                                                 + ',abc'] + lines[3:]) + '\n',
            'row removed': '\n'.join(lines[:5] + lines[6:]) + '\n',
            'last rows removed': '\n'.join(lines[:-3]) + '\n',
            'first rows removed': '\n'.join(lines[:1] + lines[3:]) + '\n',
            'shuffled rows': '\n'.join(lines[:1] + lines[:0:-1]) + '\n',
            'quoted fields':
                '\n'.join('"{}","{}"'.format(*line.split(','))
                          for line in lines) + '\n',
            'other year': original.replace('2020-03-01', '2021-03-01'),
        }
        for name, text in variants.items():
            add('{}: {}'.format(which, name),
                *with_changed(which, text), 'Africa/Lagos')
        add('{}: None'.format(which), *with_changed(which, None), 'UTC')
        files = with_changed(which, '')
        files[order.index(which)] = Unreadable()
        add('{}: unreadable'.format(which), *files, 'UTC')
        files = with_changed(which, '')
        files[order.index(which)] = 17
        add('{}: an integer'.format(which), *files, 'UTC')

    # Everything bad at once: the first failure is reported
    add('all bad headers', sio('a,b\n'), sio('c,d\n'), sio('e,f\n'), 'UTC')
    add('all empty', sio(''), sio(''), sio(''), 'UTC')
    add('all None', None, None, None, 'UTC')
    # Non-existent local time, ambiguous local time
    dst = series(P_HEAD, 0, 30, [0.0] * 8, day='2021-03-28')
    add('DST gap', sio(dst), sio(dst.replace(P_HEAD, E_HEAD)),
        sio(dst.replace(P_HEAD, Z_HEAD)), 'Europe/London')
    dst = series(P_HEAD, 0, 30, [0.0] * 8, day='2021-10-31')
    add('DST overlap', sio(dst), sio(dst.replace(P_HEAD, E_HEAD)),
        sio(dst.replace(P_HEAD, Z_HEAD)), 'Europe/London')
    return results


# -------------------------------------------------------------- harness


def run_scenarios(root, out_path):
    sys.path[:] = [
        path
        for path in sys.path
        if os.path.abspath(path or os.getcwd()) != HERE
    ]
    sys.path.insert(0, root)
    module = importlib.import_module(MODULE_NAME)
    assert os.path.abspath(module.__file__) == os.path.join(
        os.path.abspath(root), MODULE
    ), module.__file__
    with open(out_path, 'wb') as out_file:
        pickle.dump(scenarios(), out_file)


def main():
    if len(sys.argv) == 4 and sys.argv[1] == '--run':
        run_scenarios(sys.argv[2], sys.argv[3])
        return 0
    with tempfile.TemporaryDirectory() as tmp:
        orig_root = os.path.join(tmp, 'orig')
        os.makedirs(orig_root)
        subprocess.run(
            'git archive HEAD spowtd | tar -x -C "{}"'.format(orig_root),
            shell=True, cwd=HERE, check=True,
        )
        with open(os.path.join(orig_root, MODULE)) as f:
            orig_source = f.read()
        with open(os.path.join(HERE, MODULE)) as f:
            new_source = f.read()
        assert MARKER not in orig_source, 'HEAD already has the refactoring'
        assert MARKER in new_source, (
            'work tree does not have {} applied'.format(PATCH))
        # Both sides run at the same time, each in its own process
        processes = {}
        for name, root in (('orig', orig_root), ('new', HERE)):
            out_path = os.path.join(tmp, name + '.pickle')
            env = dict(os.environ)
            env.pop('PYTHONPATH', None)
            processes[name] = (
                subprocess.Popen(
                    [sys.executable, '-W', 'ignore',
                     os.path.abspath(__file__), '--run', root, out_path],
                    cwd=tmp, env=env,
                ),
                out_path,
            )
        outputs = {}
        for name, (process, out_path) in processes.items():
            assert process.wait() == 0, '{} side failed'.format(name)
            with open(out_path, 'rb') as out_file:
                outputs[name] = pickle.load(out_file)
    orig, new = outputs['orig'], outputs['new']
    assert [name for name, _ in orig] == [name for name, _ in new]
    failures = 0
    outcomes = {}
    for (name, expected), (_, actual) in zip(orig, new):
        if expected != actual:
            failures += 1
            print('DIFFERENT: {}'.format(name))
            for key in expected:
                if expected[key] != actual[key]:
                    print('  {}:\n    orig {!r}\n    new  {!r}'.format(
                        key, expected[key], actual[key])[:2000])
        outcome = expected['outcome']
        kind = outcome[0] if outcome[0] == 'returned' else outcome[1][1]
        outcomes[kind] = outcomes.get(kind, 0) + 1
        if '-v' in sys.argv:
            print('{:45s} {}'.format(
                name, outcome[1][1:3] if outcome[0] == 'raised' else 'ok'))
    print('{} scenarios; outcomes in the original: {}'.format(
        len(orig), outcomes))
    if failures:
        print('FAILED: {} scenarios differ'.format(failures))
        return 1
    print('OK')
    return 0


if __name__ == '__main__':
    sys.exit(main())
