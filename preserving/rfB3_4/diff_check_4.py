"""Differential check for refactor4.diff (fit_offsets.find_offsets)"""

import copy
import sqlite3

import numpy as np

import dc_harness as H


def pipeline(sample, do_rise=True, do_recession=True):
    """load -> classify -> zeta grid -> recession / rise offsets; dump db"""
    import spowtd.classify as classify_mod
    import spowtd.load as load_mod
    import spowtd.recession as recession_mod
    import spowtd.rise as rise_mod
    import spowtd.zeta_grid as zeta_grid_mod

    connection = sqlite3.connect(':memory:')
    with open(
        H.sample_path('precipitation', sample), 'rt', encoding='utf-8-sig'
    ) as precip_f, open(
        H.sample_path('evapotranspiration', sample), 'rt', encoding='utf-8-sig'
    ) as et_f, open(
        H.sample_path('water_level', sample), 'rt', encoding='utf-8-sig'
    ) as zeta_f:
        load_mod.load_data(
            connection=connection,
            precipitation_data_file=precip_f,
            evapotranspiration_data_file=et_f,
            water_level_data_file=zeta_f,
            time_zone_name='Africa/Lagos',
        )
    classify_mod.classify_intervals(
        connection,
        storm_rain_threshold_mm_h=8.0,
        rising_jump_threshold_mm_h=5.0,
    )
    zeta_grid_mod.populate_zeta_grid(connection, grid_interval_mm=1.0)
    outcomes = []
    if do_recession:
        outcomes.append(
            H.capture(recession_mod.find_recession_offsets, connection)
        )
    if do_rise:
        outcomes.append(H.capture(rise_mod.find_rise_offsets, connection))
    return (('ok', H.canon(outcomes)), H.canon(H.dump_database(connection)))


def _find_offsets_case(head_mapping):
    import spowtd.fit_offsets as fit_offsets_mod

    mapping = copy.deepcopy(head_mapping)
    outcome = H.capture(fit_offsets_mod.find_offsets, mapping)
    # find_offsets prunes its argument in place: compare that as well
    return (outcome, H.capture(lambda: mapping))


def _series_case(series_list, head_step):
    import spowtd.fit_offsets as fit_offsets_mod

    return H.capture(
        fit_offsets_mod.get_series_time_offsets, series_list, head_step
    )


def synthetic_recessions(rng, n_series, noise=0.0, n_min=5, n_max=60):
    """Decaying head series with random start heads and lengths"""
    series = []
    for _ in range(n_series):
        n = int(rng.randint(n_min, n_max))
        t = 1.0e6 + np.arange(n) * 1800.0 + rng.randint(0, 10 ** 6)
        head0 = rng.uniform(-50, 20)
        rate = rng.uniform(0.05, 0.6)
        head = head0 - rate * np.arange(n) ** 1.1
        if noise:
            head = head + rng.normal(0, noise, n)
        series.append((t, head))
    return series


def scenarios():
    import spowtd.fit_offsets as fit_offsets_mod

    H.assert_tree(fit_offsets_mod)
    out = {}
    for sample in (1, 2):
        out['pipeline sample {}'.format(sample)] = pipeline(sample)

    # Direct calls
    out['simple'] = _find_offsets_case(
        {
            10: [(0, 1.0), (1, 3.5)],
            11: [(0, 2.0), (1, 4.25), (2, 0.5)],
            12: [(1, 5.0), (2, 1.75)],
            13: [(2, 9.0)],
        }
    )
    out['all singletons'] = _find_offsets_case({1: [(0, 1.0)], 2: [(1, 2.0)]})
    out['empty mapping'] = _find_offsets_case({})
    out['empty crossing list'] = _find_offsets_case(
        {1: [(0, 1.0)], 2: [], 3: [(0, 1.0), (1, 2.0)]}
    )
    out['two series one head'] = _find_offsets_case({7: [(3, 10.0), (8, 4.0)]})
    out['same series twice'] = _find_offsets_case({7: [(5, 1.0), (5, 2.0)]})
    out['duplicate series at head'] = _find_offsets_case(
        {1: [(0, 1.0), (0, 1.5), (1, 2.0)], 2: [(0, 3.0), (1, 4.5)]}
    )
    out['reference absent from a head'] = _find_offsets_case(
        {
            1: [(0, 1.0), (1, 2.0)],
            2: [(1, 3.0), (2, 2.0)],
            3: [(0, 4.0), (2, 2.5)],
        }
    )
    out['disconnected (singular)'] = _find_offsets_case(
        {1: [(0, 1.0), (1, 2.0)], 2: [(2, 3.0), (3, 2.0)]}
    )
    out['string series ids'] = _find_offsets_case(
        {1: [('a', 1.0), ('b', 2.0)], 2: [('b', 3.0), ('c', 2.0)]}
    )
    out['mixed int and float ids'] = _find_offsets_case(
        {1: [(0, 1.0), (1.0, 2.0)], 2: [(1, 3.0), (2, 2.0), (0.0, 7.0)]}
    )
    out['uncomparable ids'] = _find_offsets_case(
        {1: [(0, 1.0), ('b', 2.0)]}
    )
    out['triples'] = _find_offsets_case({1: [(0, 1.0, 9), (1, 2.0, 9)]})
    out['ndarray crossings'] = _find_offsets_case(
        {
            1: np.array([[0, 1.0], [1, 2.5]]),
            2: np.array([[0, 2.0], [1, 3.0], [2, 0.25]]),
            3: np.array([[2, 0.75]]),
        }
    )
    out['integer times'] = _find_offsets_case(
        {1: [(0, 1), (1, 3)], 2: [(0, 2), (1, 5), (2, 11)], 3: [(1, 0), (2, 4)]}
    )
    out['numpy float times'] = _find_offsets_case(
        {
            1: [(0, np.float64(1.1)), (1, np.float64(3.3))],
            2: [(1, np.float64(0.7)), (2, np.float64(0.1))],
        }
    )
    out['nan time'] = _find_offsets_case(
        {1: [(0, float('nan')), (1, 3.0)], 2: [(0, 1.0), (1, 2.0)]}
    )
    rng = np.random.RandomState(4)
    for trial in range(10):
        n_series = int(rng.randint(2, 9))
        n_heads = int(rng.randint(2, 30))
        mapping = {}
        for head_id in rng.permutation(n_heads).tolist():
            present = [
                sid for sid in range(n_series) if rng.uniform() < 0.6
            ]
            rng.shuffle(present)
            if present:
                mapping[int(head_id) - 5] = [
                    (sid, float(rng.normal(sid * 100.0, 30.0)))
                    for sid in present
                ]
        out['random mapping {}'.format(trial)] = _find_offsets_case(mapping)

    # Through get_series_time_offsets
    rng = np.random.RandomState(44)
    for trial, (n_series, noise, step) in enumerate(
        [(2, 0.0, 1.0), (5, 0.0, 1.0), (8, 0.3, 1.0), (12, 1.0, 0.5),
         (6, 0.0, 2.5), (20, 0.5, 1.0), (3, 2.0, 0.25)]
    ):
        out['series {}'.format(trial)] = _series_case(
            synthetic_recessions(rng, n_series, noise), step
        )
    out['series single'] = _series_case(
        synthetic_recessions(rng, 1), 1.0
    )
    out['series empty list'] = _series_case([], 1.0)
    out['series disjoint heads'] = _series_case(
        [
            (np.arange(5.0), np.linspace(10, 5, 5)),
            (np.arange(5.0), np.linspace(9.5, 5.5, 5)),
            (np.arange(5.0), np.linspace(-10, -15, 5)),
        ],
        1.0,
    )
    out['series rises'] = _series_case(
        [
            (np.array((0, 12.0)), np.array((-20.0, -10.5))),
            (np.array((0, 30.0)), np.array((-15.2, 3.0))),
            (np.array((0, 7.5)), np.array((-1.0, 4.4))),
            (np.array((0, 3.5)), np.array((-30.0, -28.9))),
        ],
        1.0,
    )
    return out


if __name__ == '__main__':
    H.main(4, scenarios)
