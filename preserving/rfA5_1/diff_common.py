"""Shared helpers for the diff_check_K.py scripts (round 5, group A).

Builds two copies of the package in a temporary directory -- the unmodified
HEAD tree and HEAD + refactorK.diff -- and loads spowtd/classify.py from each
under a distinct module name, so that the checks do not depend on what is
currently applied in the worktree.
"""

import importlib.util
import io
import logging
import os
import sqlite3
import subprocess
import sys
import tarfile
import tempfile

import numpy as np

ROOT = os.path.dirname(os.path.abspath(__file__))
SAMPLE_DIR = os.path.join(ROOT, "spowtd", "test", "sample_data")

_TMP = tempfile.TemporaryDirectory(prefix="rfA_check_")


def _export_head(dest):
    os.makedirs(dest)
    blob = subprocess.check_output(["git", "-C", ROOT, "archive", "HEAD", "spowtd"])
    with tarfile.open(fileobj=io.BytesIO(blob)) as tar:
        tar.extractall(dest)


def load_versions(k):
    """Return (orig_classify, new_classify, orig_root, new_root)"""
    orig_root = os.path.join(_TMP.name, "orig")
    new_root = os.path.join(_TMP.name, "new")
    _export_head(orig_root)
    _export_head(new_root)
    patch = os.path.join(ROOT, f"refactor{k}.diff")
    subprocess.check_call(
        ["patch", "-s", "-p1", "-d", new_root, "-i", patch],
    )
    mods = []
    for label, root in (("orig", orig_root), ("new", new_root)):
        path = os.path.join(root, "spowtd", "classify.py")
        spec = importlib.util.spec_from_file_location(f"classify_{label}", path)
        mod = importlib.util.module_from_spec(spec)
        spec.loader.exec_module(mod)
        mods.append(mod)
    with open(os.path.join(orig_root, "spowtd", "classify.py")) as f_orig, open(
        os.path.join(new_root, "spowtd", "classify.py")
    ) as f_new:
        assert f_orig.read() != f_new.read(), "patch did not change classify.py"
    return mods[0], mods[1], orig_root, new_root


class _Collector(logging.Handler):
    def __init__(self):
        super().__init__(level=logging.DEBUG)
        self.records = []

    def emit(self, record):
        self.records.append((record.levelname, record.getMessage()))


def run_captured(func, *args, **kwargs):
    """Run func; return ('ok', result) or ('exc', type name, str), plus logs"""
    logger = logging.getLogger("spowtd.classify")
    old_level = logger.level
    logger.setLevel(logging.DEBUG)
    handler = _Collector()
    logger.addHandler(handler)
    try:
        try:
            outcome = ("ok", func(*args, **kwargs))
        except BaseException as exc:  # pylint: disable=broad-except
            outcome = ("exc", type(exc).__name__, str(exc))
    finally:
        logger.removeHandler(handler)
        logger.setLevel(old_level)
    return outcome, handler.records


def canon(obj):
    """Strict canonical form: keeps types, dtypes, order of dicts / lists"""
    if isinstance(obj, np.ndarray):
        return ("ndarray", str(obj.dtype), obj.shape, obj.tobytes())
    if isinstance(obj, np.generic):
        return ("npscalar", type(obj).__name__, obj.tobytes())
    if isinstance(obj, dict):
        return (type(obj).__name__, [(canon(k), canon(v)) for k, v in obj.items()])
    if isinstance(obj, (list, tuple)):
        return (type(obj).__name__, [canon(v) for v in obj])
    if isinstance(obj, (set, frozenset)):
        # iteration order is part of what callers can observe
        return (type(obj).__name__, [canon(v) for v in obj])
    if isinstance(obj, float):
        return ("float", obj.hex())
    return (type(obj).__name__, repr(obj))


def dump_db(connection):
    """Full text dump of a database (schema + rows in rowid order)"""
    return list(connection.iterdump())


def clone_db(connection):
    """Copy a database into a fresh in-memory connection"""
    copy = sqlite3.connect(":memory:")
    connection.backup(copy)
    copy.execute("PRAGMA foreign_keys = 1")
    return copy


def loaded_sample_db(sample, package_root):
    """Load sample data set 1 or 2 with the (unmodified) loader of package_root"""
    code = f"""
import sqlite3, sys, os
sys.path.insert(0, {package_root!r})
import spowtd.load as load_mod
d = {SAMPLE_DIR!r}
conn = sqlite3.connect(sys.argv[1])
with open(os.path.join(d, 'precipitation_{sample}.txt'), 'rt', encoding='utf-8-sig') as p, \\
     open(os.path.join(d, 'evapotranspiration_{sample}.txt'), 'rt', encoding='utf-8-sig') as e, \\
     open(os.path.join(d, 'water_level_{sample}.txt'), 'rt', encoding='utf-8-sig') as z:
    load_mod.load_data(connection=conn, precipitation_data_file=p,
                       evapotranspiration_data_file=e, water_level_data_file=z,
                       time_zone_name='Africa/Lagos')
conn.commit()
conn.close()
"""
    path = os.path.join(_TMP.name, f"sample_{sample}.sqlite3")
    if not os.path.exists(path):
        subprocess.check_call([sys.executable, "-c", code, path])
    disk = sqlite3.connect(path)
    mem = clone_db(disk)
    disk.close()
    return mem


def synthetic_db(package_root, rain, zeta, intervals, time_step_s=3600, t0=1_000_000_800):
    """Build a gridded database directly from arrays.

    rain[i] is the intensity on [t_i, t_{i+1}); zeta[i] the level at t_i;
    intervals[i] the data_interval label of grid time i (None allowed).
    Rows are inserted for every grid time that has a non-None rain / zeta.
    """
    conn = sqlite3.connect(":memory:")
    with open(os.path.join(package_root, "spowtd", "schema.sql")) as schema:
        conn.executescript(schema.read())
    conn.execute(
        "INSERT INTO time_grid (time_step_s, source_time_zone) VALUES (?, 'UTC')",
        (time_step_s,),
    )
    n = len(intervals)
    epochs = [t0 + i * time_step_s for i in range(n + 1)]
    conn.executemany(
        "INSERT INTO grid_time (epoch, data_interval) VALUES (?, ?)",
        list(zip(epochs, list(intervals) + [None])),
    )
    for i in range(n):
        if rain[i] is not None:
            conn.execute(
                "INSERT INTO rainfall_intensity VALUES (?, ?, ?)",
                (epochs[i], epochs[i + 1], float(rain[i])),
            )
        if zeta[i] is not None:
            conn.execute(
                "INSERT INTO water_level VALUES (?, ?)", (epochs[i], float(zeta[i]))
            )
    conn.commit()
    return conn


def random_series(rng, n, p_storm=0.08, p_mystery=0.03):
    """Rain and water level with storms, matching rises and mystery jumps"""
    rain = np.zeros(n)
    zeta = np.zeros(n)
    level = float(rng.uniform(-300, 0))
    i = 0
    storm_left = 0
    lag = 0
    for i in range(n):
        if storm_left == 0 and rng.random() < p_storm:
            storm_left = int(rng.integers(1, 5))
            lag = int(rng.integers(0, 2))
        if storm_left:
            rain[i] = float(rng.uniform(2, 30))
            storm_left -= 1
        elif rng.random() < 0.1:
            rain[i] = float(rng.uniform(0, 3))
        zeta[i] = level
        # response: the level rises with the rain (possibly lagged by a step)
        src = rain[i - lag] if i - lag >= 0 else 0.0
        level += src * float(rng.uniform(0.5, 3.0)) - float(rng.uniform(0, 0.6))
        if rng.random() < p_mystery:
            level += float(rng.uniform(5, 40))
    return rain, zeta


def compare(label, a, b):
    """Assert strict equality of two captured (outcome, logs) pairs"""
    (out_a, logs_a), (out_b, logs_b) = a, b
    assert logs_a == logs_b, (label, "logs differ", logs_a, logs_b)
    assert out_a[0] == out_b[0], (label, out_a, out_b)
    if out_a[0] == "exc":
        assert out_a == out_b, (label, out_a, out_b)
    else:
        assert canon(out_a[1]) == canon(out_b[1]), (label, out_a[1], out_b[1])
    return out_a[0]


def db_cases(orig_root):
    """Yield (label, make_connection, kwargs) for database-level checks"""
    for sample in (1, 2):
        for kwargs in (
            {},
            {"storm_rain_threshold_mm_h": 8.0, "rising_jump_threshold_mm_h": 5.0},
            {"storm_rain_threshold_mm_h": 1.0, "rising_jump_threshold_mm_h": 2.0},
        ):
            yield (
                f"sample{sample}-{sorted(kwargs.values())}",
                lambda sample=sample: loaded_sample_db(sample, orig_root),
                kwargs,
            )
    for seed in range(40):
        rng = np.random.default_rng(seed)
        n = int(rng.integers(30, 400))
        rain, zeta = random_series(rng, n)
        n_blocks = int(rng.integers(1, 4))
        cuts = sorted(rng.choice(np.arange(5, n - 5), size=n_blocks - 1, replace=False))
        labels = np.zeros(n, dtype=int)
        for cut in cuts:
            labels[cut:] += 1
        intervals = [int(v) for v in labels]
        if seed % 3 == 0:
            # gaps between data intervals
            for cut in cuts:
                intervals[cut] = None
        step = (3600, 1800, 900)[seed % 3]
        thr = (
            {}
            if seed % 4 == 0
            else {
                "storm_rain_threshold_mm_h": float(rng.uniform(1, 8)),
                "rising_jump_threshold_mm_h": float(rng.uniform(2, 10)),
            }
        )
        yield (
            f"synthetic{seed}",
            lambda rain=rain, zeta=zeta, intervals=intervals, step=step: synthetic_db(
                orig_root, rain, zeta, intervals, time_step_s=step
            ),
            thr,
        )
    rng = np.random.default_rng(1234)
    rain, zeta = random_series(rng, 60)
    # no valid data interval
    yield (
        "no-intervals",
        lambda: synthetic_db(orig_root, rain, zeta, [None] * 60),
        {},
    )
    # thresholds that cannot be stored
    yield (
        "null-threshold",
        lambda: synthetic_db(orig_root, rain, zeta, [0] * 60),
        {"storm_rain_threshold_mm_h": None},
    )
    yield (
        "null-jump-threshold",
        lambda: synthetic_db(orig_root, rain, zeta, [0] * 60),
        {"rising_jump_threshold_mm_h": None},
    )
    yield (
        "text-threshold",
        lambda: synthetic_db(orig_root, rain, zeta, [0] * 60),
        {"storm_rain_threshold_mm_h": "4", "rising_jump_threshold_mm_h": "8"},
    )
    yield (
        "unbindable-threshold",
        lambda: synthetic_db(orig_root, rain, zeta, [0] * 60),
        {"storm_rain_threshold_mm_h": [4.0]},
    )
    # hole in the water level inside a data interval -> nonuniform steps
    holed = list(zeta)
    holed[20] = None
    yield (
        "hole-in-zeta",
        lambda: synthetic_db(orig_root, rain, holed, [0] * 60),
        {},
    )
    # a data interval without any joined row; one with a single row
    yield (
        "empty-interval",
        lambda: synthetic_db(orig_root, rain, [None] * 10 + list(zeta[10:]), [0] * 10 + [1] * 50),
        {},
    )
    yield (
        "single-row-interval",
        lambda: synthetic_db(orig_root, rain, zeta, [0] * 30 + [1] + [2] * 29),
        {},
    )
    yield (
        "two-row-interval",
        lambda: synthetic_db(orig_root, rain, zeta, [0] * 30 + [1, 1] + [2] * 28),
        {},
    )
    # no rain at all, no rise at all
    yield (
        "dry",
        lambda: synthetic_db(orig_root, np.zeros(60), np.linspace(0, -30, 60), [0] * 60),
        {},
    )
    # rain everywhere
    yield (
        "wet",
        lambda: synthetic_db(orig_root, np.full(60, 9.0), np.arange(60) * 12.0, [0] * 60),
        {},
    )


def check_databases(orig, new, orig_root, twice=True):
    """Run classify_intervals of both versions over db_cases; compare all"""
    counts = {"ok": 0, "exc": 0}
    for label, make, kwargs in db_cases(orig_root):
        states = []
        for mod in (orig, new):
            conn = make()
            first = run_captured(mod.classify_intervals, conn, **kwargs)
            state = [first, dump_db(conn), conn.in_transaction]
            if twice:
                # second call: thresholds row already present
                second = run_captured(mod.classify_intervals, conn, **kwargs)
                state += [second, dump_db(conn), conn.in_transaction]
            conn.close()
            states.append(state)
        a, b = states
        counts[compare(label, a[0], b[0])] += 1
        assert a[1] == b[1], (label, "database contents differ")
        assert a[2] == b[2], (label, "transaction state differs")
        if twice:
            compare(label + "/second", a[3], b[3])
            assert a[4] == b[4] and a[5] == b[5], (label, "second call differs")
    return counts
