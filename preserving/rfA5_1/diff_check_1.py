"""Differential check for refactor1.diff (classify_intervals, populate_zeta_interval)"""
import diff_common as dc

orig, new, orig_root, new_root = dc.load_versions(1)

counts = dc.check_databases(orig, new, orig_root)
print("classify_intervals on sample + synthetic databases:", counts)
assert counts["ok"] >= 40 and counts["exc"] >= 6, counts

# populate_zeta_interval called directly (positionally and by keyword)
n = 0
for label, make, kwargs in dc.db_cases(orig_root):
    if not label.startswith(("sample", "synthetic")):
        continue
    results = []
    for mod in (orig, new):
        conn = make()
        cursor = conn.cursor()
        intervals = [
            r[0]
            for r in conn.execute(
                "SELECT DISTINCT data_interval FROM grid_time "
                "WHERE data_interval IS NOT NULL ORDER BY 1"
            )
        ]
        outs = []
        for j, data_interval in enumerate(intervals):
            if j % 2:
                outs.append(
                    dc.run_captured(mod.populate_zeta_interval, cursor, data_interval, 4.5, 6.5)
                )
            else:
                outs.append(
                    dc.run_captured(
                        mod.populate_zeta_interval,
                        cursor=cursor,
                        data_interval=data_interval,
                        rising_jump_threshold_mm_h=6.5,
                        storm_rain_threshold_mm_h=4.5,
                    )
                )
        results.append((outs, dc.dump_db(conn)))
        conn.close()
    (outs_a, dump_a), (outs_b, dump_b) = results
    for a, b in zip(outs_a, outs_b):
        dc.compare(label, a, b)
    assert dump_a == dump_b, label
    n += 1
print("populate_zeta_interval direct calls compared on", n, "databases")
print("diff_check_1 OK")
