"""Differential check for refactor4.diff (disambiguate_matching)

Loads spowtd/classify.py twice -- the committed version and the committed
version with refactor4.diff applied -- and asserts exactly equal results.
"""

import importlib.util
import os
import sqlite3
import subprocess
import sys
import tempfile
import types

import numpy as np

ROOT = os.path.dirname(os.path.abspath(__file__))
PATCH = os.path.join(ROOT, "refactor4.diff")
sys.path.insert(0, ROOT)


def load_variants():
    """Return (original module, refactored module)"""
    tmp = tempfile.mkdtemp(prefix="rfA_dc_")
    source = subprocess.check_output(
        ["git", "-C", ROOT, "show", "HEAD:spowtd/classify.py"]
    )
    mods = []
    for name in ("orig", "new"):
        pkg = os.path.join(tmp, name, "spowtd")
        os.makedirs(pkg)
        path = os.path.join(pkg, "classify.py")
        with open(path, "wb") as f:
            f.write(source)
        if name == "new":
            subprocess.check_call(["git", "apply", PATCH], cwd=os.path.join(tmp, name))
            with open(path, "rb") as f:
                assert f.read() != source, "patch changed nothing"
        spec = importlib.util.spec_from_file_location("classify_" + name, path)
        mod = importlib.util.module_from_spec(spec)
        spec.loader.exec_module(mod)
        mods.append(mod)
    return mods


def canon(value):
    """Type-strict canonical form"""
    if isinstance(value, np.ndarray):
        return ("ndarray", str(value.dtype), value.shape, value.tobytes())
    if isinstance(value, (list, tuple)):
        return (type(value).__name__, [canon(v) for v in value])
    if isinstance(value, dict):
        return ("dict", [(canon(k), canon(v)) for k, v in value.items()])
    if isinstance(value, types.GeneratorType):
        return ("generator", [canon(v) for v in value])
    return (type(value).__name__, repr(value))


def run(func, *args):
    """Result or exception of func(*args), canonical"""
    try:
        return ("ok", canon(func(*args)))
    except BaseException as exc:  # pylint: disable=broad-except
        return ("raise", type(exc).__name__, str(exc))


def dump_db(connection):
    """All rows (with storage classes) of the tables classify writes"""
    out = {}
    for table in (
        "thresholds",
        "grid_time_flags",
        "zeta_interval",
        "storm",
        "zeta_interval_storm",
    ):
        cursor = connection.execute(f"SELECT * FROM {table} ORDER BY rowid")
        cols = [d[0] for d in cursor.description]
        rows = cursor.fetchall()
        types_ = connection.execute(
            "SELECT {} FROM {} ORDER BY rowid".format(
                ", ".join(f"typeof({c})" for c in cols), table
            )
        ).fetchall()
        out[table] = (cols, rows, types_)
    return out


def classify_sample(mod, sample, storm_thr, jump_thr):
    """Load sample data and classify with mod; return DB dump or exception"""
    import spowtd.load as load_mod

    data_dir = os.path.join(ROOT, "spowtd", "test", "sample_data")
    connection = sqlite3.connect(":memory:")
    files = [
        open(os.path.join(data_dir, f"{kind}_{sample}.txt"), "rt", encoding="utf-8-sig")
        for kind in ("precipitation", "evapotranspiration", "water_level")
    ]
    try:
        load_mod.load_data(
            connection=connection,
            precipitation_data_file=files[0],
            evapotranspiration_data_file=files[1],
            water_level_data_file=files[2],
            time_zone_name="Africa/Lagos",
        )
    finally:
        for f in files:
            f.close()
    try:
        mod.classify_intervals(connection, storm_thr, jump_thr)
        return ("ok", dump_db(connection))
    except BaseException as exc:  # pylint: disable=broad-except
        return ("raise", type(exc).__name__, str(exc), dump_db(connection))


def random_relation(rng, numpy_ints):
    """Random many-to-many relation of rain and jump (start, stop) intervals"""
    make = np.int64 if numpy_ints else int
    n = int(rng.integers(0, 16))
    span = int(rng.choice([4, 10, 40]))
    rain_starts = rng.integers(0, span, n).tolist()
    jump_starts = rng.integers(0, span, n).tolist()
    rain_stop_of = {s: s + int(rng.integers(1, 9)) for s in set(rain_starts)}
    jump_stop_of = {s: s + int(rng.integers(2, 9)) for s in set(jump_starts)}
    rain_intervals = [(make(s), make(rain_stop_of[s])) for s in rain_starts]
    jump_intervals = [(make(s), make(jump_stop_of[s])) for s in jump_starts]
    return rain_intervals, jump_intervals


def main():
    orig, new = load_variants()
    n_cases = 0
    n_reduced = 0
    rng = np.random.default_rng(20240930)

    def compare(rain_intervals, jump_intervals):
        nonlocal n_cases
        res_o = run(orig.disambiguate_matching, list(rain_intervals), list(jump_intervals))
        res_n = run(new.disambiguate_matching, list(rain_intervals), list(jump_intervals))
        assert res_o == res_n, (rain_intervals, jump_intervals, res_o, res_n)
        n_cases += 1
        return res_o

    for trial in range(4000):
        rain_intervals, jump_intervals = random_relation(rng, bool(trial % 2))
        res = compare(rain_intervals, jump_intervals)
        assert res[0] == "ok", res
        n_reduced += len(res[1][1][0][1]) < len(rain_intervals)
        if trial % 10 == 0 and rain_intervals:
            # bad input
            compare(rain_intervals, jump_intervals[:-1])
            compare(rain_intervals[:-1], jump_intervals)
            compare(rain_intervals, [(a, b, 0) for a, b in jump_intervals])
            compare([(a,) for a, _ in rain_intervals], jump_intervals)
            compare(rain_intervals, [(a, str(b)) for a, b in jump_intervals])
            compare([(str(a), b) for a, b in rain_intervals], jump_intervals)
            compare([(a, None) for a, _ in rain_intervals], jump_intervals)
            compare([([a], b) for a, b in rain_intervals], jump_intervals)
            compare([(float(a), float(b)) for a, b in rain_intervals], jump_intervals)
            compare(tuple(rain_intervals), tuple(jump_intervals))
    assert n_reduced > 1000, n_reduced
    compare([], [])
    compare([(0, 3), (0, 3)], [(1, 4), (1, 4)])
    compare([(0, 3), (0, 3), (5, 6)], [(1, 4), (7, 9), (7, 9)])
    compare([(0, 3), (5, 6)], [(1, 9), (1, 9)])

    # Caller: match_storms with ambiguous overlaps
    for _ in range(400):
        n = int(rng.integers(2, 80))
        rain = np.where(rng.random(n) < 0.6, 5.0 + rng.random(n) * 10, 0.0)
        head = np.cumsum(np.where(rng.random(n) < 0.8, 4.0, -1.0) + rng.normal(0, 0.2, n))
        res_o = run(orig.match_storms, rain.copy(), head.copy(), 4.0, 3.0)
        res_n = run(new.match_storms, rain.copy(), head.copy(), 4.0, 3.0)
        assert res_o == res_n and res_o[0] == "ok", (rain, head, res_o, res_n)
        n_cases += 1
    for sample in (1, 2):
        for thresholds in ((8.0, 5.0), (4.0, 8.0), (2.0, 2.0), (0.5, 0.5)):
            res_o = classify_sample(orig, sample, *thresholds)
            res_n = classify_sample(new, sample, *thresholds)
            assert res_o == res_n, (sample, thresholds)
            print(
                "sample", sample, thresholds, res_o[0],
                {k: len(v[1]) for k, v in res_o[-1].items()},
            )
            n_cases += 1
    print(
        f"diff_check_4: OK ({n_cases} cases identical; "
        f"{n_reduced} random relations actually reduced)"
    )


if __name__ == "__main__":
    main()
