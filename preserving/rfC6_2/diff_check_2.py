"""Differential check for refactor2.diff (recession.compute_offsets:
the two INSERT statements and the existence check)

Besides the results, compares the transactional behaviour: whether a
transaction is open after a successful / failing run, what the
connection sees before and after rollback or commit, what a second
connection to a database file sees, the sequence of non-SELECT
statements reaching SQLite (BEGIN placement), and the state of the
cursor handed to compute_offsets.

Run as:  cd /tmp/rf_C && /venv/bin/python diff_check_2.py

"""

import os
import sqlite3
import sys
import tempfile

sys.path.insert(0, os.path.dirname(os.path.abspath(__file__)))
import dc_common as dc  # noqa: E402

TABLES = ['recession_interval', 'recession_interval_zeta']


def run_recession(connection, reference_zeta_mm, direct=False, finish='rollback'):
    """Run the recession step; report outcome, transaction state, tables"""
    import spowtd.recession as recession_mod

    statements = []

    def trace(statement):
        word = statement.split()[0].upper()
        if word != 'SELECT':
            statements.append(word)

    connection.set_trace_callback(trace)
    changes_before = connection.total_changes
    cursor_state = None
    if direct:
        cursor = connection.cursor()
        result = dc.outcome(
            recession_mod.compute_offsets, cursor, reference_zeta_mm
        )
        cursor_state = (cursor.rowcount, cursor.lastrowid)
    else:
        result = dc.outcome(
            recession_mod.find_recession_offsets, connection, reference_zeta_mm
        )
    connection.set_trace_callback(None)
    state = (
        result,
        connection.in_transaction,
        connection.total_changes - changes_before,
        cursor_state,
        # Runs of identical statements, e.g. BEGIN, INSERT x 812, COMMIT
        [
            (word, len([1 for _ in group]))
            for word, group in __import__('itertools').groupby(statements)
        ],
        dc.dump_tables(connection, TABLES),
    )
    if finish == 'rollback':
        connection.rollback()
    else:
        connection.commit()
    state += (dc.dump_tables(connection, TABLES),)
    return state


def handmade(tree, levels, intervals, grid_interval_mm=1.0, step=600):
    """Small hand-made database

    levels: water levels at epochs 0, step, 2 * step...
    intervals: (start_i, thru_i) of interstorm intervals in time steps

    """
    connection = dc.empty_schema_db(tree)
    connection.execute('PRAGMA foreign_keys = 0')
    connection.execute('PRAGMA ignore_check_constraints = 1')
    cursor = connection.cursor()
    cursor.executemany(
        'INSERT INTO grid_time (epoch, data_interval) VALUES (?, 1)',
        [(i * step,) for i in range(len(levels) + 1)],
    )
    cursor.executemany(
        'INSERT INTO water_level (epoch, zeta_mm) VALUES (?, ?)',
        [(i * step, level) for i, level in enumerate(levels)],
    )
    cursor.executemany(
        """INSERT INTO zeta_interval
           (start_epoch, interval_type, thru_epoch)
           VALUES (?, 'interstorm', ?)""",
        [(i0 * step, i1 * step) for (i0, i1) in intervals],
    )
    if grid_interval_mm is not None:
        import spowtd.zeta_grid as zeta_grid_mod

        zeta_grid_mod.populate_zeta_grid(connection, grid_interval_mm)
    connection.commit()
    connection.execute('PRAGMA foreign_keys = 1')
    return connection


def scenarios(tree):
    import spowtd.recession as recession_mod

    results = {}

    def small(sample, grid):
        """Subset of the sample data (60 interstorm intervals)"""
        return dc.gridded_subset(tree, sample, grid, keep=60, offset=40)

    for sample in (1, 2):
        # Whole sample, as in the test suite
        for grid in (1.0, 2.5):
            key = 'sample{}-grid{}'.format(sample, grid)
            connection = dc.gridded(tree, sample, grid)
            results[key + '-noref'] = run_recession(connection, None)
            if grid == 1.0:
                results[key + '-noref-again-after-rollback'] = run_recession(
                    connection, None, finish='commit'
                )
            connection.close()
        # Subset of the sample, other grids and references
        for grid in (1.0, 0.5, 2.0, 2.5):
            key = 'small{}-grid{}'.format(sample, grid)
            connection = small(sample, grid)
            results[key + '-noref'] = run_recession(connection, None)
            results[key + '-noref-again-after-rollback'] = run_recession(
                connection, None, finish='commit'
            )
            numbers = sorted(
                row[0]
                for row in connection.execute(
                    'SELECT DISTINCT zeta_number FROM recession_interval_zeta'
                )
            )
            connection.close()
            picks = [
                numbers[0] - 1,
                numbers[0],
                numbers[len(numbers) // 3],
                numbers[-1],
            ]
            for number in picks:
                for delta in (0.0, 1e-7, 0.3 * grid):
                    reference = number * grid + delta
                    connection = small(sample, grid)
                    results[
                        '{}-ref{!r}'.format(key, reference)
                    ] = run_recession(connection, reference)
                    connection.close()

        # Direct call with a cursor, integer reference
        connection = small(sample, 1.0)
        results['sample{}-direct'.format(sample)] = run_recession(
            connection, None, direct=True, finish='commit'
        )
        connection.close()
        connection = small(sample, 1.0)
        results['sample{}-direct-int-ref'.format(sample)] = run_recession(
            connection, -300, direct=True
        )
        connection.close()

        # No zeta grid
        connection = dc.open_db(dc.classified_bytes(tree, sample))
        results['sample{}-nogrid'.format(sample)] = run_recession(
            connection, None
        )
        connection.close()

        # Failing run 1: second run on the same database, the first
        # INSERT violates the primary key
        for finish in ('rollback', 'commit'):
            for direct in (False, True):
                connection = small(sample, 1.0)
                recession_mod.find_recession_offsets(connection)
                results[
                    'sample{}-rerun-{}-{}'.format(sample, finish, direct)
                ] = run_recession(
                    connection, None, direct=direct, finish=finish
                )
                connection.close()

        # Failing run 2: a foreign key fails part way through the
        # second INSERT loop (a discrete zeta is missing), or at its
        # very first row, or a row of recession_interval_zeta is
        # already there
        connection = small(sample, 1.0)
        recession_mod.find_recession_offsets(connection)
        used = [
            row
            for row in connection.execute(
                """SELECT zeta_number, start_epoch
                   FROM recession_interval_zeta ORDER BY rowid"""
            )
        ]
        connection.close()
        for position in (0, 1, len(used) // 2, len(used) - 1):
            (number, start_epoch) = used[position]
            for finish in ('rollback', 'commit'):
                connection = small(sample, 1.0)
                connection.execute(
                    'DELETE FROM discrete_zeta WHERE zeta_number = ?',
                    (number,),
                )
                connection.commit()
                results[
                    'sample{}-fk-failure-{}-{}'.format(
                        sample, position, finish
                    )
                ] = run_recession(connection, None, finish=finish)
                connection.close()
            connection = small(sample, 1.0)
            connection.execute('PRAGMA foreign_keys = 0')
            connection.execute(
                """INSERT INTO recession_interval_zeta
                   (start_epoch, zeta_number, mean_crossing_time)
                   VALUES (?, ?, 0)""",
                (start_epoch, number),
            )
            connection.commit()
            connection.execute('PRAGMA foreign_keys = 1')
            results[
                'sample{}-pk-failure-{}'.format(sample, position)
            ] = run_recession(connection, None, finish='commit')
            connection.close()

        # The same two kinds of failing run on the whole sample
        connection = dc.gridded(tree, sample, 1.0)
        recession_mod.find_recession_offsets(connection)
        all_used = [
            row[0]
            for row in connection.execute(
                """SELECT zeta_number
                   FROM recession_interval_zeta ORDER BY rowid"""
            )
        ]
        results['sample{}-rerun'.format(sample)] = run_recession(
            connection, None, finish='commit'
        )
        connection.close()
        connection = dc.gridded(tree, sample, 1.0)
        connection.execute(
            'DELETE FROM discrete_zeta WHERE zeta_number = ?',
            (all_used[(2 * len(all_used)) // 3],),
        )
        connection.commit()
        results['sample{}-fk-failure'.format(sample)] = run_recession(
            connection, None, finish='commit'
        )
        connection.close()

        # Failing run 3, on a database file: what a second connection
        # sees before and after the first one commits
        for label in ('fk-failure', 'rerun', 'fine'):
            handle, path = tempfile.mkstemp(suffix='.sqlite3', dir=tree)
            os.close(handle)
            os.unlink(path)
            file_db = sqlite3.connect(path)
            memory_db = small(sample, 1.0)
            if label == 'fk-failure':
                memory_db.execute(
                    'DELETE FROM discrete_zeta WHERE zeta_number = ?',
                    (used[len(used) // 3][0],),
                )
            elif label == 'rerun':
                recession_mod.find_recession_offsets(memory_db)
            memory_db.commit()
            memory_db.backup(file_db)
            memory_db.close()
            file_db.close()
            first = sqlite3.connect(path)
            first.execute('PRAGMA foreign_keys = 1')
            second = sqlite3.connect(path)
            result = dc.outcome(recession_mod.find_recession_offsets, first)
            seen_before = dc.dump_tables(second, TABLES)
            in_transaction = first.in_transaction
            first.commit()
            seen_after = dc.dump_tables(second, TABLES)
            results['sample{}-file-{}'.format(sample, label)] = (
                result,
                in_transaction,
                seen_before,
                seen_after,
            )
            first.close()
            second.close()
            os.unlink(path)

        # Damaged databases
        for label, statement in (
            (
                'interval-start-missing',
                """UPDATE zeta_interval SET start_epoch = start_epoch + 7
                   WHERE start_epoch = (
                     SELECT max(start_epoch) FROM zeta_interval
                     WHERE interval_type = 'interstorm')""",
            ),
            (
                'interval-thru-missing',
                """UPDATE zeta_interval SET thru_epoch = thru_epoch + 7
                   WHERE start_epoch = (
                     SELECT min(start_epoch) FROM zeta_interval
                     WHERE interval_type = 'interstorm')""",
            ),
            ('no-interstorm', "DELETE FROM zeta_interval"),
            ('not-finite', "UPDATE water_level SET zeta_mm = -9e999 "
                           "WHERE epoch = (SELECT max(epoch) FROM water_level)"),
        ):
            connection = small(sample, 1.0)
            connection.execute('PRAGMA foreign_keys = 0')
            connection.execute(statement)
            connection.commit()
            results['sample{}-{}'.format(sample, label)] = run_recession(
                connection, None
            )
            connection.close()

    # Empty database
    connection = dc.empty_schema_db(tree)
    results['empty'] = run_recession(connection, None)
    connection.close()

    # Hand-made databases
    levels = [
        9.5, 8.1, 6.9, 6.2, 5.8, 5.5, 12.0, 10.4, 8.8, 7.7, 7.0,
        6.6, 3.3, 3.1, 2.9, 2.5, 20.0, 19.0, 18.5, 18.4,
    ]
    cases = {
        'two-overlapping': [(0, 5), (6, 11)],
        'three-one-disconnected': [(0, 5), (6, 11), (16, 19)],
        'four': [(0, 5), (6, 11), (12, 15), (16, 19)],
        'single': [(6, 11)],
        'none': [],
        'two-steps': [(0, 1), (7, 8)],
    }
    for name, intervals in cases.items():
        for grid in (1.0, 0.5, 0.25, None):
            for reference in (None, 7.0, 7.3):
                for finish in ('rollback', 'commit'):
                    connection = handmade(tree, levels, intervals, grid)
                    results[
                        'handmade-{}-grid{}-ref{}-{}'.format(
                            name, grid, reference, finish
                        )
                    ] = run_recession(connection, reference, finish=finish)
                    connection.close()
    return results


if __name__ == '__main__':
    if len(sys.argv) > 1 and sys.argv[1] == '--child':
        dc.child_main(scenarios)
    else:
        dc.run_driver(
            os.path.abspath(__file__), 'refactor2.diff', 'spowtd/recession.py'
        )
