"""Differential check of refactor2.diff: classify.get_true_interval_masks

dtype validation extracted into _require_boolean_dtype (early return), the
block labelling into _label_true_blocks, whose `assert cond, msg` became
`if __debug__: if not cond: raise AssertionError(msg)`.
"""

import itertools
import os
import sys

import numpy as np

sys.path.insert(0, os.path.dirname(os.path.abspath(__file__)))
import _dc_common as dc  # noqa: E402

ORIG, REFAC = dc.load_pair(2)
CHK = dc.Checker("refactor2 get_true_interval_masks")


class Liar(np.ndarray):
    """Boolean array that compares unequal to everything (assertion fires)"""

    def __eq__(self, other):
        return np.zeros(len(self), bool)

    __hash__ = None


class Ambiguous(np.ndarray):
    """Boolean array whose comparison has an ambiguous truth value"""

    class _Result:
        def all(self):
            return np.array([True, False])

    def __eq__(self, other):
        return self._Result()

    __hash__ = None


class FakeDtype:
    """Not an array at all, but passes the dtype test"""

    dtype = bool


def describe(mod, vector):
    """Everything observable about the returned iterator"""
    gen = mod.get_true_interval_masks(vector)
    info = (
        type(gen).__name__,
        getattr(gen, "__name__", None),
        getattr(gen, "__qualname__", None),
        gen.gi_frame is not None,
    )
    first = next(gen, None)
    rest = list(gen)
    return (info, first, rest, list(gen))


def both(what, vector):
    CHK.same(
        what,
        dc.call(ORIG.get_true_interval_masks, vector),
        dc.call(REFAC.get_true_interval_masks, vector),
    )
    CHK.same(
        (what, "described"),
        dc.call(describe, ORIG, vector),
        dc.call(describe, REFAC, vector),
    )


def main():
    for n in range(0, 13):
        for bits in itertools.product([False, True], repeat=n):
            both(("exhaustive", bits), np.array(bits, dtype=bool))
    rng = np.random.default_rng(2)
    for n in (13, 64, 1000, 20000):
        for p in (0.0, 0.02, 0.5, 0.98, 1.0):
            both(("random", n, p), rng.random(n) < p)
    t, f = True, False
    base = np.array([t, t, f, t, f, f, t])
    cases = {
        "np.bool_ dtype": np.array([1, 0, 1], dtype=np.bool_),
        "non-contiguous view": np.array([t, f, t, t, f, f, t, t])[::2],
        "reversed view": base[::-1],
        "read-only": np.frombuffer(bytes([1, 0, 1, 1]), dtype=bool),
        "int64": np.array([1, 0, 1]),
        "int8": np.array([1, 0, 1], np.int8),
        "uint8": np.array([1, 0, 1], np.uint8),
        "float": np.array([1.0, 0.0]),
        "object of bools": np.array([t, f], dtype=object),
        "str dtype": np.array(["a", ""]),
        "empty float": np.array([]),
        "empty bool": np.array([], dtype=bool),
        "list": [t, f, t],
        "tuple": (t, f),
        "None": None,
        "python bool": True,
        "np.bool_ scalar": np.bool_(True),
        "0-d": np.array(True),
        "2-d": np.array([[t, f], [f, t]]),
        "2-d one row": np.array([[t, f, t]]),
        "2-d empty": np.zeros((0, 3), bool),
        "3-d": np.ones((2, 2, 2), bool),
        "masked array": np.ma.array([t, f, t, t], mask=[f, f, t, f]),
        "liar subclass (assertion fires)": base.view(Liar),
        "liar all false": np.zeros(4, bool).view(Liar),
        "liar empty": np.zeros(0, bool).view(Liar),
        "ambiguous subclass": base.view(Ambiguous),
        "fake dtype": FakeDtype(),
        "matrix": np.matrix([[t, f, t]]),
    }
    for name, vector in cases.items():
        both(("case", name), vector)

    # callers: the mystery-jump pipeline and match_storms on the sample data
    for sample in (1, 2):
        data = dc.loaded_db_bytes(sample)
        for thresholds in ((4.0, 8.0), (8.0, 5.0), (0.0, 0.0), (1e9, 1e9)):

            def run(mod, thresholds=thresholds):
                return lambda conn: mod.classify_intervals(conn, *thresholds)

            CHK.same(
                ("sample db", sample, thresholds),
                dc.run_on_db(data, run(ORIG)),
                dc.run_on_db(data, run(REFAC)),
            )
        conn = dc.fresh_connection(data)
        rain = np.array(
            [
                r[0]
                for r in conn.execute(
                    "SELECT rainfall_intensity_mm_h FROM rainfall_intensity"
                    " ORDER BY from_epoch"
                )
            ]
        )
        conn.close()
        for threshold in (0.0, 1.0, 4.0, 8.0, 30.0, 1e9):
            both(("sample rain", sample, threshold), rain > threshold)
            both(("sample rain int", sample, threshold), (rain > threshold) * 1)
    CHK.finish()
    dc.rerun_optimized(os.path.abspath(__file__))
    print("OK")


if __name__ == "__main__":
    main()
