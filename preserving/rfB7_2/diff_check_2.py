"""Differential check for refactor2.diff (INSERT ... SELECT copies of
rainfall intensity and evapotranspiration onto the grid)"""

import sys

import numpy as np
import pytz

sys.path.insert(0, '/tmp/rf_B')
import dc_common as dc  # noqa: E402

tmp, orig_pkg, new_pkg = dc.build(2)
orig = dc.load_module(orig_pkg, 'load', 'orig_load')
new = dc.load_module(new_pkg, 'load', 'new_load')
assert ':last_from_epoch' in open(new.__file__).read()
assert ':last_from_epoch' not in open(orig.__file__).read()
failures = []

print('load_data paths')
dc.check_load_data_paths(orig, new, failures)

TZ = pytz.timezone('Africa/Lagos')


def direct(load_mod, which, grid, staged, time_grid, time_step,
           foreign_keys=True, calls=1, commit_first=False, pre=()):
    """Call one of the two copy functions on a hand-built database"""
    connection, tracer = dc.new_db(load_mod, foreign_keys=foreign_keys)
    connection.executemany(
        'INSERT INTO grid_time (epoch) VALUES (?)', [(e,) for e in grid]
    )
    if which == 'rain':
        dc.stage(connection, rain=staged)
    else:
        dc.stage(connection, et=staged)
    for statement in pre:
        connection.execute(statement)
    if commit_first:
        connection.commit()
    cursor = connection.cursor()
    outcomes = []
    for _ in range(calls):
        if which == 'rain':
            outcomes.append(
                dc.attempt(
                    load_mod.populate_rainfall_intensity,
                    cursor,
                    time_grid,
                    time_step,
                )
            )
        else:
            outcomes.append(
                dc.attempt(
                    load_mod.populate_evapotranspiration,
                    cursor,
                    time_grid,
                    time_step,
                    tz=TZ,
                )
            )
    observation = dc.observe(connection, tracer, tuple(outcomes))
    connection.close()
    return observation


grid = [1000 + 600 * i for i in range(8)]          # 1000 .. 5200
full = [(e, 0.25 * i) for i, e in enumerate(grid)]
# staging with rows before / after / between the grid times, mixed types
wide = (
    [(400, 9.0), (700, 9.5)]
    + [(e, v) for e, v in full]
    + [(1300, 7.0), (5800, 8.0), (6400, 8.5)]
)
mixed = [
    (1000, 1), (1600, '2.5'), (2200, 'abc'), (2800, ''), (3400, b'\x00\x01'),
    (4000, -0.0), (4600, 1e308), (5200, 3),
]
cases = {
    'plain': dict(grid=grid, staged=full, time_grid=grid, time_step=600),
    'wide_staging': dict(grid=grid, staged=wide, time_grid=grid,
                         time_step=600),
    'mixed_types': dict(grid=grid, staged=mixed, time_grid=grid,
                        time_step=600),
    'upper_bound_inclusive': dict(grid=grid, staged=full,
                                  time_grid=[1000, 3400, 4000],
                                  time_step=600),
    'upper_bound_between': dict(grid=grid, staged=full,
                                time_grid=[1000, 3401, 9999], time_step=600),
    'upper_bound_float': dict(grid=grid, staged=full,
                              time_grid=[1000, 3400.0, 9999], time_step=600),
    'upper_bound_float_frac': dict(grid=grid, staged=full,
                                   time_grid=[1000, 3399.5, 9999],
                                   time_step=600),
    'upper_bound_text': dict(grid=grid, staged=full,
                             time_grid=[1000, '3400', 9999], time_step=600),
    'upper_bound_text_junk': dict(grid=grid, staged=full,
                                  time_grid=[1000, 'zzz', 9999],
                                  time_step=600),
    'upper_bound_none': dict(grid=grid, staged=full,
                             time_grid=[1000, None, 9999], time_step=600),
    'upper_bound_below_all': dict(grid=grid, staged=full,
                                  time_grid=[0, 1], time_step=600),
    'time_grid_too_short': dict(grid=grid, staged=full, time_grid=[1000],
                                time_step=600),
    'time_grid_empty': dict(grid=grid, staged=full, time_grid=[],
                            time_step=600),
    # thru_epoch not a grid time: foreign key failure (immediate, at
    # statement end), nothing inserted
    'step_off_grid': dict(grid=grid, staged=full, time_grid=grid,
                          time_step=300),
    'step_off_grid_fk_off': dict(grid=grid, staged=full, time_grid=grid,
                                 time_step=300, foreign_keys=False),
    # last interval would end beyond the grid when the bound is the last
    # grid time itself
    'bound_is_last_grid_time': dict(grid=grid, staged=full,
                                    time_grid=grid + [5800], time_step=600),
    'step_zero': dict(grid=grid, staged=full, time_grid=grid, time_step=0),
    'step_negative': dict(grid=grid, staged=full, time_grid=grid,
                          time_step=-600),
    'step_multiple': dict(grid=grid, staged=full, time_grid=grid[:4],
                          time_step=1200),
    'step_float': dict(grid=grid, staged=full, time_grid=grid,
                       time_step=600.0),
    'step_float_frac': dict(grid=grid, staged=full, time_grid=grid,
                            time_step=600.5, foreign_keys=False),
    'step_text': dict(grid=grid, staged=full, time_grid=grid,
                      time_step='600'),
    'step_none': dict(grid=grid, staged=full, time_grid=grid,
                      time_step=None),
    # parameter types sqlite3 cannot bind, or binds as a blob
    'step_list': dict(grid=grid, staged=full, time_grid=grid,
                      time_step=[600]),
    'bound_list': dict(grid=grid, staged=full, time_grid=[1000, [1], 2],
                       time_step=600),
    'step_numpy_int': dict(grid=grid, staged=full, time_grid=grid,
                           time_step=np.int64(600), foreign_keys=False),
    'bound_numpy_int': dict(grid=grid, staged=full,
                            time_grid=np.array(grid), time_step=600),
    'step_huge': dict(grid=grid, staged=full, time_grid=grid,
                      time_step=2**70),
    'step_overflowing_sum': dict(grid=grid, staged=full, time_grid=grid,
                                 time_step=2**63 - 1, foreign_keys=False),
    'called_twice': dict(grid=grid, staged=full, time_grid=grid,
                         time_step=600, calls=2),
    'called_twice_committed': dict(grid=grid, staged=full, time_grid=grid,
                                   time_step=600, calls=2,
                                   commit_first=True),
    'empty_staging': dict(grid=grid, staged=[], time_grid=grid,
                          time_step=600),
    'empty_grid': dict(grid=[], staged=full, time_grid=grid, time_step=600),
    'negative_epochs': dict(
        grid=[-1800, -1200, -600, 0, 600],
        staged=[(-1800, 1.0), (-1200, 2.0), (-600, 3.0), (0, 4.0),
                (600, 5.0)],
        time_grid=[-1800, -1200, -600, 0, 600], time_step=600,
    ),
}
# For the ET function the check that every grid time has ET runs first;
# cases with missing ET raise there in both variants.
for which in ('rain', 'et'):
    print('direct', which)
    for name, kwargs in sorted(cases.items()):
        a = direct(orig, which, **kwargs)
        b = direct(new, which, **kwargs)
        dc.compare('direct_{}_{}'.format(which, name), a, b, failures)
        print('  ', which, name, '->', [dc.summarize(o) for o in a[0]])

# Pre-existing target row colliding with one to be copied: the statement
# fails as a whole
for which, table, col in (
    ('rain', 'rainfall_intensity', 'rainfall_intensity_mm_h'),
    ('et', 'evapotranspiration', 'evapotranspiration_mm_h'),
):
    kwargs = dict(
        grid=grid, staged=full, time_grid=grid, time_step=600,
        pre=['INSERT INTO {} (from_epoch, thru_epoch, {}) '
             'VALUES (3400, 4000, 99.0)'.format(table, col)],
    )
    a = direct(orig, which, **kwargs)
    b = direct(new, which, **kwargs)
    dc.compare('direct_{}_collision'.format(which), a, b, failures)
    print('  ', which, 'collision ->', [dc.summarize(o) for o in a[0]])

dc.cleanup(tmp)
if failures:
    print('FAILED:', failures)
    sys.exit(1)
print('diff_check_2: all comparisons identical')
