"""Shared helpers for diff_check_K.py (group B, round 7).

Builds two copies of the package (HEAD, and HEAD + refactorK.diff) in a
temporary directory, loads spowtd/load.py and spowtd/zeta_grid.py from each
under distinct module names, and provides database dumps that preserve value
types and float bit patterns, plus a library of load scenarios.
"""

import datetime
import importlib.util
import io
import os
import shutil
import sqlite3
import struct
import subprocess
import tempfile

WORKTREE = '/tmp/rf_B'
SAMPLE_DIR = os.path.join(WORKTREE, 'spowtd', 'test', 'sample_data')


def build(patch_number):
    """Return (tmpdir, orig_pkg_dir, new_pkg_dir)"""
    tmp = tempfile.mkdtemp(prefix='rfB_dc{}_'.format(patch_number), dir='/tmp')
    for name in ('orig', 'new'):
        dest = os.path.join(tmp, name)
        os.mkdir(dest)
        archive = subprocess.run(
            ['git', '-C', WORKTREE, 'archive', 'HEAD', 'spowtd'],
            check=True,
            stdout=subprocess.PIPE,
        ).stdout
        subprocess.run(['tar', '-x', '-C', dest], input=archive, check=True)
    subprocess.run(
        [
            'git',
            'apply',
            os.path.join(WORKTREE, 'refactor{}.diff'.format(patch_number)),
        ],
        cwd=os.path.join(tmp, 'new'),
        check=True,
    )
    return (
        tmp,
        os.path.join(tmp, 'orig', 'spowtd'),
        os.path.join(tmp, 'new', 'spowtd'),
    )


def load_module(pkg_dir, name, alias):
    """Import pkg_dir/name.py as module alias"""
    spec = importlib.util.spec_from_file_location(
        alias, os.path.join(pkg_dir, name + '.py')
    )
    module = importlib.util.module_from_spec(spec)
    spec.loader.exec_module(module)
    return module


def cleanup(tmp):
    shutil.rmtree(tmp, ignore_errors=True)


def enc(value):
    """Encode a value so that type and float bits are compared"""
    if isinstance(value, float):
        return ('float', struct.pack('>d', value).hex())
    if isinstance(value, (list, tuple)):
        return (type(value).__name__, tuple(enc(v) for v in value))
    return (type(value).__name__, repr(value))


def dump(connection):
    """Full dump of a database: schema, rows in natural and rowid order"""
    cursor = connection.cursor()
    out = []
    master = cursor.execute(
        "SELECT type, name, sql FROM sqlite_master ORDER BY type, name"
    ).fetchall()
    out.append(('master', tuple(master)))
    for type_, name, _ in master:
        if type_ != 'table':
            continue
        natural = cursor.execute('SELECT * FROM "{}"'.format(name)).fetchall()
        by_rowid = cursor.execute(
            'SELECT rowid, * FROM "{}" ORDER BY rowid'.format(name)
        ).fetchall()
        out.append((name, 'natural', tuple(enc(row) for row in natural)))
        out.append((name, 'rowid', tuple(enc(row) for row in by_rowid)))
    cursor.close()
    return tuple(out)


class Tracer:
    """Records transaction control statements issued on a connection"""

    def __init__(self, connection):
        self.events = []
        connection.set_trace_callback(self._trace)

    def _trace(self, statement):
        word = statement.strip().split(None, 1)[0].upper()
        if word in ('BEGIN', 'COMMIT', 'ROLLBACK', 'SAVEPOINT', 'RELEASE'):
            self.events.append(statement.strip().upper())


def attempt(function, *args, **kwargs):
    """Call and return ('ok', encoded result) or ('exc', type, message)"""
    try:
        result = function(*args, **kwargs)
    except Exception as exc:  # pylint: disable=broad-except
        return ('exc', type(exc).__module__, type(exc).__name__, str(exc))
    return ('ok', enc(result))


def observe(connection, tracer, outcome):
    """Outcome, state before and after rolling back any open transaction"""
    before = dump(connection)
    in_transaction = connection.in_transaction
    connection.rollback()
    after = dump(connection)
    return (outcome, in_transaction, tuple(tracer.events), before, after)


def new_db(load_mod, with_schema=True, foreign_keys=True):
    connection = sqlite3.connect(':memory:')
    tracer = Tracer(connection)
    if with_schema:
        with open(load_mod.SCHEMA_PATH, 'rt') as schema_file:
            connection.executescript(schema_file.read())
    connection.execute(
        'PRAGMA foreign_keys = {}'.format(1 if foreign_keys else 0)
    )
    return connection, tracer


# ---------------------------------------------------------------------------
# CSV scenarios for load_data
# ---------------------------------------------------------------------------

T0 = datetime.datetime(2020, 3, 1, 0, 0, 0)


def series(start_min, step_min, values, header):
    """CSV text; values may be floats or raw strings"""
    lines = [header]
    for i, value in enumerate(values):
        when = T0 + datetime.timedelta(minutes=start_min + i * step_min)
        lines.append(
            '{},{}'.format(
                when.strftime('%Y-%m-%d %H:%M:%S'),
                value if isinstance(value, str) else repr(value),
            )
        )
    return '\n'.join(lines) + '\n'


def rows_at(minutes_values, header):
    """CSV text from explicit (minute offset, value) pairs"""
    lines = [header]
    for minute, value in minutes_values:
        when = T0 + datetime.timedelta(minutes=minute)
        lines.append(
            '{},{}'.format(
                when.strftime('%Y-%m-%d %H:%M:%S'),
                value if isinstance(value, str) else repr(value),
            )
        )
    return '\n'.join(lines) + '\n'


P_HEAD = 'datetime,precipitation rate (mm/h)'
E_HEAD = 'datetime,evapotranspiration (mm/h)'
Z_HEAD = 'datetime,wtd (mm)'


def _zeta_values(n, seed=1):
    out = []
    x = float(seed)
    for i in range(n):
        x = (x * 1103515245.0 + 12345.0) % 2147483648.0
        out.append(-300.0 + (x / 2147483648.0) * 47.3 + i * 0.1)
    return out


def _rain_values(n, seed=7):
    out = []
    x = float(seed)
    for _ in range(n):
        x = (x * 1103515245.0 + 12345.0) % 2147483648.0
        u = x / 2147483648.0
        out.append(0.0 if u < 0.6 else u * 13.7)
    return out


def csv_scenarios():
    """Return {name: (precip_csv, et_csv, zeta_csv, tz_name)}"""
    scen = {}
    rain = _rain_values(48)
    et = [0.01 + 0.001 * i for i in range(60)]
    # Baseline: hourly rain for 48 h from 0; ET hourly from -2 h for 60 h;
    # water level every 20 min from 5 h to 30 h (on rain epochs at both ends)
    zeta = _zeta_values(76)
    base_p = series(0, 60, rain, P_HEAD)
    base_e = series(-120, 60, et, E_HEAD)
    base_z = series(300, 20, zeta, Z_HEAD)
    scen['baseline'] = (base_p, base_e, base_z, 'Africa/Lagos')
    scen['baseline_utc'] = (base_p, base_e, base_z, 'UTC')
    scen['baseline_dst_zone'] = (base_p, base_e, base_z, 'America/New_York')
    # Water level bounds strictly between rain epochs
    scen['bounds_between'] = (
        base_p,
        base_e,
        series(310, 20, _zeta_values(70, 3), Z_HEAD),
        'Africa/Lagos',
    )
    # Water level span wider than rain span on both sides
    scen['zeta_wider'] = (
        base_p,
        series(-600, 60, [0.02] * 80, E_HEAD),
        series(-300, 20, _zeta_values(200, 5), Z_HEAD),
        'Africa/Lagos',
    )
    # Water level with two gaps (data intervals 1..3)
    gap_rows = (
        [(300 + 20 * i, v) for i, v in enumerate(_zeta_values(20, 11))]
        + [(300 + 20 * (i + 35), v) for i, v in enumerate(_zeta_values(15, 12))]
        + [(300 + 20 * (i + 70), v) for i, v in enumerate(_zeta_values(9, 13))]
    )
    scen['zeta_gaps'] = (
        base_p,
        base_e,
        rows_at(gap_rows, Z_HEAD),
        'Africa/Lagos',
    )
    # Integer-looking and signed-zero water levels, ties
    scen['zeta_ties_zero'] = (
        base_p,
        base_e,
        series(
            300,
            20,
            ['0', '-0.0', '0.0', '5', '5.0', '-5', '1e2', '-0.0', '0']
            * 5,
            Z_HEAD,
        ),
        'Africa/Lagos',
    )
    # Unsorted input rows (staging ordered by primary key anyway)
    shuffled = [(300 + 20 * i, v) for i, v in enumerate(_zeta_values(40, 17))]
    shuffled = shuffled[1::2] + shuffled[0::2]
    scen['unsorted_rows'] = (
        rows_at(list(reversed([(60 * i, v) for i, v in enumerate(rain)])),
                P_HEAD),
        base_e,
        rows_at(shuffled, Z_HEAD),
        'Africa/Lagos',
    )
    # ET missing at several grid times (error message lists the first 3)
    et_missing = [
        (-120 + 60 * i, v)
        for i, v in enumerate(et)
        if i not in (9, 10, 14, 20, 31)
    ]
    scen['et_missing_many'] = (
        base_p,
        rows_at(et_missing, E_HEAD),
        base_z,
        'Africa/Lagos',
    )
    scen['et_missing_many_utc'] = (
        base_p,
        rows_at(list(reversed(et_missing)), E_HEAD),
        base_z,
        'Asia/Jakarta',
    )
    # ET missing only at the closing grid time (end of last rain interval)
    scen['et_missing_last'] = (
        base_p,
        series(-120, 60, et[:33], E_HEAD),
        base_z,
        'Africa/Lagos',
    )
    # ET present exactly on the grid, no more
    scen['et_exact'] = (
        base_p,
        series(300, 60, et[:27], E_HEAD),
        base_z,
        'Africa/Lagos',
    )
    # ET on a finer grid (extra rows off the grid are ignored)
    scen['et_finer'] = (
        base_p,
        series(-120, 30, [0.003 * i for i in range(140)], E_HEAD),
        base_z,
        'Africa/Lagos',
    )
    # ET empty
    scen['et_empty'] = (base_p, E_HEAD + '\n', base_z, 'Africa/Lagos')
    # Non-uniform rain steps within the water-level span
    nonuni = [(60 * i, v) for i, v in enumerate(rain) if i != 12]
    scen['rain_nonuniform'] = (
        rows_at(nonuni, P_HEAD),
        base_e,
        base_z,
        'Africa/Lagos',
    )
    # Non-uniform rain steps only outside the water-level span (accepted)
    nonuni_out = [(60 * i, v) for i, v in enumerate(rain) if i not in (2, 40)]
    scen['rain_nonuniform_outside'] = (
        rows_at(nonuni_out, P_HEAD),
        base_e,
        base_z,
        'Africa/Lagos',
    )
    # Empty water level; empty rain; single / two rain epochs in span
    scen['zeta_empty'] = (base_p, base_e, Z_HEAD + '\n', 'Africa/Lagos')
    scen['rain_empty'] = (P_HEAD + '\n', base_e, base_z, 'Africa/Lagos')
    scen['one_rain_epoch_in_span'] = (
        base_p,
        base_e,
        series(290, 20, [-1.0, -2.0], Z_HEAD),
        'Africa/Lagos',
    )
    scen['two_rain_epochs_in_span'] = (
        base_p,
        base_e,
        series(300, 20, [-1.0, -2.0, -2.5, -1.5], Z_HEAD),
        'Africa/Lagos',
    )
    scen['no_rain_epoch_in_span'] = (
        base_p,
        base_e,
        series(310, 20, [-1.0, -2.0], Z_HEAD),
        'Africa/Lagos',
    )
    scen['single_zeta_row'] = (
        base_p,
        base_e,
        series(300, 20, [-1.0], Z_HEAD),
        'Africa/Lagos',
    )
    # Text that does not convert to a number stays text in the staging
    # tables and is copied as such / breaks the interpolation
    scen['rain_text_value'] = (
        series(0, 60, [repr(v) for v in rain[:20]] + ['abc', ''] +
               [repr(v) for v in rain[22:]], P_HEAD),
        base_e,
        base_z,
        'Africa/Lagos',
    )
    scen['et_text_value'] = (
        base_p,
        series(-120, 60, [repr(v) for v in et[:20]] + ['n/a', ' 1.5 '] +
               [repr(v) for v in et[22:]], E_HEAD),
        base_z,
        'Africa/Lagos',
    )
    scen['zeta_text_value'] = (
        base_p,
        base_e,
        series(300, 20, [repr(v) for v in zeta[:30]] + ['abc'] +
               [repr(v) for v in zeta[31:]], Z_HEAD),
        'Africa/Lagos',
    )
    scen['zeta_nan_inf'] = (
        base_p,
        base_e,
        series(300, 20, [repr(v) for v in zeta[:30]] + ['nan', 'inf'] +
               [repr(v) for v in zeta[32:]], Z_HEAD),
        'Africa/Lagos',
    )
    # Duplicate epochs in an input file (primary key failure while staging)
    scen['rain_duplicate_epoch'] = (
        rows_at([(0, 0.0), (60, 1.0), (60, 2.0)], P_HEAD),
        base_e,
        base_z,
        'Africa/Lagos',
    )
    scen['zeta_duplicate_epoch'] = (
        base_p,
        base_e,
        rows_at([(300, -1.0), (320, -2.0), (320, -3.0)], Z_HEAD),
        'Africa/Lagos',
    )
    # Missing value column
    scen['zeta_short_row'] = (
        base_p,
        base_e,
        Z_HEAD + '\n2020-03-01 05:00:00\n',
        'Africa/Lagos',
    )
    return scen


def run_load_data(load_mod, precip, et, zeta, tz_name, pre_populated=False):
    """Run load_data on CSV text; return the full observation"""
    connection = sqlite3.connect(':memory:')
    tracer = Tracer(connection)
    if pre_populated:
        connection.execute('CREATE TABLE something (x integer)')
        connection.commit()
    outcome = attempt(
        load_mod.load_data,
        connection=connection,
        precipitation_data_file=io.StringIO(precip),
        evapotranspiration_data_file=io.StringIO(et),
        water_level_data_file=io.StringIO(zeta),
        time_zone_name=tz_name,
    )
    observation = observe(connection, tracer, outcome)
    connection.close()
    return observation


def run_load_sample(load_mod, sample, keep=False):
    """Run load_data on a sample data set"""
    connection = sqlite3.connect(':memory:')
    tracer = Tracer(connection)

    def path(kind):
        return os.path.join(SAMPLE_DIR, '{}_{}.txt'.format(kind, sample))

    with open(path('precipitation'), 'rt', encoding='utf-8-sig') as precip_f, open(
        path('evapotranspiration'), 'rt', encoding='utf-8-sig'
    ) as et_f, open(path('water_level'), 'rt', encoding='utf-8-sig') as zeta_f:
        outcome = attempt(
            load_mod.load_data,
            connection=connection,
            precipitation_data_file=precip_f,
            evapotranspiration_data_file=et_f,
            water_level_data_file=zeta_f,
            time_zone_name='Africa/Lagos',
        )
    if keep:
        return connection, tracer, outcome
    observation = observe(connection, tracer, outcome)
    connection.close()
    return observation


def stage(connection, rain=(), et=(), zeta=()):
    """Insert rows directly into the staging tables"""
    connection.executemany(
        'INSERT INTO rainfall_intensity_staging VALUES (?, ?)', list(rain)
    )
    connection.executemany(
        'INSERT INTO evapotranspiration_staging VALUES (?, ?)', list(et)
    )
    connection.executemany(
        'INSERT INTO water_level_staging VALUES (?, ?)', list(zeta)
    )


def compare(name, orig_obs, new_obs, failures):
    if orig_obs == new_obs:
        return
    failures.append(name)
    print('MISMATCH in', name)
    for i, (a, b) in enumerate(zip(orig_obs, new_obs)):
        if a != b:
            print('  component', i)
            print('   orig:', repr(a)[:600])
            print('   new :', repr(b)[:600])


def summarize(outcome):
    if outcome[0] == 'ok':
        return 'ok'
    return '{}: {}'.format(outcome[2], outcome[3][:70])


def check_load_data_paths(orig_load, new_load, failures, samples=(1, 2)):
    """Compare load_data end to end on samples and all CSV scenarios"""
    for sample in samples:
        a = run_load_sample(orig_load, sample)
        b = run_load_sample(new_load, sample)
        compare('sample_{}'.format(sample), a, b, failures)
        print('  sample', sample, '->', summarize(a[0]))
    for name, (precip, et, zeta, tz_name) in sorted(csv_scenarios().items()):
        a = run_load_data(orig_load, precip, et, zeta, tz_name)
        b = run_load_data(new_load, precip, et, zeta, tz_name)
        compare('csv_' + name, a, b, failures)
        print('  csv', name, '->', summarize(a[0]))
    scen = csv_scenarios()['baseline']
    a = run_load_data(orig_load, *scen, pre_populated=True)
    b = run_load_data(new_load, *scen, pre_populated=True)
    compare('pre_populated', a, b, failures)
    print('  pre_populated ->', summarize(a[0]))
