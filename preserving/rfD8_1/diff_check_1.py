"""Differential check for refactor1.diff (memoized PEATCLSM soil profile)

Runs the same sequence of constructions in one process against the
original and the refactored package (so that cache hits, and possible
cache pollution between parameter sets, are exercised) and compares
everything bit for bit.

"""

import os
import sys

sys.path.insert(0, os.path.dirname(os.path.abspath(__file__)))
import dc_common  # noqa: E402


def worker(rec):
    import io
    import numpy as np
    import yaml
    import spowtd.specific_yield as sy_mod
    import spowtd.simulate_rise as simulate_rise_mod
    import spowtd.test.conftest as conftest

    # Small cache so that eviction is exercised too (new code only)
    if hasattr(sy_mod, '_SOIL_PROFILE_CACHE_SIZE'):
        sy_mod._SOIL_PROFILE_CACHE_SIZE = 5

    grid = np.linspace(-1500.0, 1500.0, 61)

    def describe(sy):
        return [
            sy.zeta_knots_mm,
            sy.sy_knots,
            sy.sy_knots.flags.writeable,
            sy(grid),
            sy(np.arange(-3, 4)),
            sy.integrate(-300.0, 50.0),
            sy.integrate(50.0, -1200.0),
        ]

    def build(cls, *args):
        sy = cls(*args)
        result = describe(sy)
        # A caller scribbling on the public arrays must not affect
        # later instances
        sy.sy_knots[:] = -1.0
        sy.zeta_knots_mm[:] = 0.0
        return result

    base = (0.162, 0.88, 7.4, -0.024)
    with open(conftest.get_parameter_file_path('peatclsm'), 'rt') as f:
        sample = yaml.safe_load(f)['specific_yield']
    for repeat in range(3):
        rec.call(
            'sample parameters via factory #{}'.format(repeat),
            lambda: describe(
                sy_mod.create_specific_yield_function(dict(sample))
            ),
        )
    parameter_sets = [
        base,
        base,
        # one parameter changed at a time, after base was cached
        (0.2, 0.88, 7.4, -0.024),
        (0.162, 0.7, 7.4, -0.024),
        (0.162, 0.88, 3.5, -0.024),
        (0.162, 0.88, 7.4, -0.1),
        base,
        # values swapped between positions
        (0.88, 0.162, 7.4, -0.024),
        (0.162, 0.88, -0.024, 7.4),
        # equal-but-different-type values
        (1, 1, 7, -1),
        (1.0, 1.0, 7.0, -1.0),
        (True, True, 7, -1),
        (1, 1.0, 7, -1.0),
        (np.float64(1.0), np.float64(1.0), np.float64(7.0), np.float64(-1.0)),
        (np.float32(1.0), 1.0, 7.0, -1.0),
        (1, 1, 7, -1),
        # signed zeros, zeros, and other degenerate values
        (0.162, 0.88, 7.4, 0.0),
        (0.162, 0.88, 7.4, -0.0),
        (0.162, 0.88, 7.4, 0),
        (0.162, 0.88, 7.4, 0.0),
        (0.162, 0.88, 0.0, -0.024),
        (0.162, 0.88, -0.0, -0.024),
        (0.162, 0.88, np.float64(0.0), -0.024),
        (0.162, 0.88, np.float64(-0.0), -0.024),
        (0.162, 0.88, 0, -0.024),
        (0.0, 0.88, 7.4, -0.024),
        (-0.0, 0.88, 7.4, -0.024),
        (0, 0.88, 7.4, -0.024),
        (-0.162, 0.88, 7.4, -0.024),
        (0.162, 0.0, 7.4, -0.024),
        (0.162, -0.0, 7.4, -0.024),
        (0.162, 0.88, 7.4, 0.024),
        (0.162, 0.88, 2, 0.024),
        (0.162, 0.88, 2.0, 0.024),
        (0.162, 0.88, -2, 0.024),
        (float('nan'), 0.88, 7.4, -0.024),
        (0.162, float('nan'), 7.4, -0.024),
        (0.162, 0.88, float('nan'), -0.024),
        (0.162, 0.88, 7.4, float('nan')),
        (0.162, float('inf'), 7.4, -0.024),
        (0.162, 0.88, float('inf'), -0.024),
        (0.162, 0.88, 7.4, float('-inf')),
        (0.162, 1e308, 7.4, -0.024),
        (0.162, 0.88, 7.4, -5e-324),
        (0.162, 0.88, 1e-320, -0.024),
        (10 ** 400, 0.88, 7.4, -0.024),
        (0.162, 10 ** 400, 7.4, -0.024),
        (0.162, 0.88, 10 ** 400, -0.024),
        (0.162, 0.88, 7.4, -(10 ** 400)),
        ('0.162', 0.88, 7.4, -0.024),
        (0.162, None, 7.4, -0.024),
        (0.162, 0.88, [7.4], -0.024),
        (0.162, 0.88, 7.4, {}),
        (0.162, 0.88, 7.4 + 0j, -0.024),
        base,
    ]
    for n, pars in enumerate(parameter_sets):
        rec.call(
            'PeatclsmSpecificYield #{} {!r}'.format(n, pars),
            build,
            sy_mod.PeatclsmSpecificYield,
            *pars
        )

    # A subclass with a different soil profile and the same parameters
    class Flat(sy_mod.PeatclsmSpecificYield):
        __slots__ = []

        def get_Sy_soil(self, Sy_soil, zl_, zu_):
            Sy_soil[:] = 0.25 * self.theta_s

    for n in range(2):
        rec.call('subclass #{}'.format(n), build, Flat, *base)
        rec.call(
            'base class after subclass #{}'.format(n),
            build,
            sy_mod.PeatclsmSpecificYield,
            *base
        )

    # get_Sy_soil called directly, on another grid, into a caller's buffer
    sy = sy_mod.PeatclsmSpecificYield(*base)
    zl_ = np.linspace(-0.5, 0.5, 11)
    zu_ = zl_ + 0.02
    out = np.zeros(11)
    rec.call('get_Sy_soil direct', sy.get_Sy_soil, out, zl_, zu_)
    rec.add('get_Sy_soil direct buffer', out)
    rec.call(
        'campbell_1d_az',
        lambda: [
            sy_mod.campbell_1d_az(0.3, 0.1, zlu, 0.88, psi_s, 7.4, 0.162)
            for zlu in (-0.2, 0.0, 0.1, 0.5)
            for psi_s in (-0.024, 0.0, -0.0, 0.3)
        ],
    )

    # The CLI path that uses the specific yield: simulate rise
    for sample_no in (1, 2):
        connection = dc_common.sample_connection(sample_no, recession=False)
        for repeat in range(2):
            for kind in ('peatclsm', 'spline'):
                outfile = io.StringIO()
                with open(
                    conftest.get_parameter_file_path(kind), 'rt'
                ) as parameter_file:
                    rec.call(
                        'simulate_rise sample {} {} #{}'.format(
                            sample_no, kind, repeat
                        ),
                        simulate_rise_mod.simulate_rise,
                        connection=connection,
                        parameters=parameter_file,
                        outfile=outfile,
                        observations_only=False,
                    )
                rec.add('  output', outfile.getvalue())
        connection.close()


if __name__ == '__main__':
    # Warnings: compared as the set of distinct messages printed under
    # the default filters (a memo hit does not redo the arithmetic, so
    # it cannot repeat a numpy RuntimeWarning for non-physical inputs)
    dc_common.main(
        1, worker, os.path.abspath(__file__), record_warnings=False
    )
