"""Helpers shared by diff_check_4.py and diff_check_5.py (pestfiles)"""

import io
import sqlite3


def run_pestfiles(
    rec,
    label,
    connection,
    parameter_text,
    kinds=('rise', 'curves'),
    outfile_types=('tpl', 'ins', 'pst'),
    configuration_text=None,
    **kwargs
):
    """Generate PEST files through the public entry points; record all

    Records the return value or exception, the text written to the
    output file (also when an exception was raised), and the state of
    the connection afterwards.

    """
    import spowtd.pestfiles as pestfiles_mod

    for kind in kinds:
        generate = {
            'rise': pestfiles_mod.generate_rise_pestfiles,
            'curves': pestfiles_mod.generate_curves_pestfiles,
        }[kind]
        for outfile_type in outfile_types:
            outfile = io.StringIO()
            rec.call(
                '{}: {} {} {}'.format(label, kind, outfile_type, kwargs),
                generate,
                connection,
                parameter_file=io.StringIO(parameter_text),
                outfile_type=outfile_type,
                configuration_file=(
                    None
                    if configuration_text is None
                    else io.StringIO(configuration_text)
                ),
                outfile=outfile,
                **kwargs
            )
            rec.add('  written', outfile.getvalue())
            rec.call(
                '  connection state',
                lambda: [connection.in_transaction, connection.total_changes],
            )


def synthetic_connection(
    storage_rows, time_rows, n_rise_zeta=None, n_recession_zeta=None
):
    """Minimal database with just the relations that pestfiles reads

    storage_rows: (zeta_mm, mean_crossing_depth_mm) pairs
    time_rows: (zeta_mm, elapsed_time_s) pairs
    n_*_zeta: number of distinct zeta_number values in *_interval_zeta
      (defaults to the number of rows above)

    Columns are declared without a type so that values are stored
    exactly as given (integers stay integers, text stays text).

    """
    connection = sqlite3.connect(':memory:')
    connection.executescript(
        """
    CREATE TABLE average_rising_depth (zeta_mm, mean_crossing_depth_mm);
    CREATE TABLE average_recession_time (zeta_mm, elapsed_time_s);
    CREATE TABLE rising_interval_zeta (start_epoch, zeta_number);
    CREATE TABLE recession_interval_zeta (start_epoch, zeta_number);
    """
    )
    connection.executemany(
        'INSERT INTO average_rising_depth VALUES (?, ?)', storage_rows
    )
    connection.executemany(
        'INSERT INTO average_recession_time VALUES (?, ?)', time_rows
    )
    if n_rise_zeta is None:
        n_rise_zeta = len(storage_rows)
    if n_recession_zeta is None:
        n_recession_zeta = len(time_rows)
    # Two intervals crossing each zeta, to make DISTINCT matter
    connection.executemany(
        'INSERT INTO rising_interval_zeta VALUES (?, ?)',
        [(e, z) for z in range(n_rise_zeta) for e in (10, 20)],
    )
    connection.executemany(
        'INSERT INTO recession_interval_zeta VALUES (?, ?)',
        [(e, z) for z in range(n_recession_zeta) for e in (10, 20)],
    )
    connection.commit()
    return connection
