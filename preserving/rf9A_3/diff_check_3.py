"""Differential check of refactor3.diff: classify.find_stable_matching

The flag variable storm_is_free and the nested if/else were replaced by
early `continue`s; the incumbent storm matches[jump] is read once.
"""

import copy
import os
import sys

import numpy as np

sys.path.insert(0, os.path.dirname(os.path.abspath(__file__)))
import _dc_common as dc  # noqa: E402

ORIG, REFAC = dc.load_pair(3)
CHK = dc.Checker("refactor3 find_stable_matching")


def run_matching(mod, storm_candidates, jump_preferences):
    """Call on private copies; report result and the mutated arguments"""
    candidates = copy.deepcopy(storm_candidates)
    preferences = copy.deepcopy(jump_preferences)
    outcome = dc.call(mod.find_stable_matching, candidates, preferences)
    return (outcome, dc.norm(candidates), dc.norm(preferences))


def both(what, storm_candidates, jump_preferences):
    CHK.same(
        what,
        run_matching(ORIG, storm_candidates, jump_preferences),
        run_matching(REFAC, storm_candidates, jump_preferences),
    )


def random_instance(rng, n_storms, n_jumps, key, density, ties, duplicates):
    storms = [key(s) for s in rng.permutation(n_storms * 3)[:n_storms]]
    jumps = [key(j) for j in rng.permutation(n_jumps * 3)[:n_jumps]]
    candidates = {}
    preferences = {jump: {} for jump in jumps}
    for storm in storms:
        mine = [jump for jump in jumps if rng.random() < density]
        rng.shuffle(mine)
        if duplicates and mine and rng.random() < 0.3:
            mine.append(mine[int(rng.integers(len(mine)))])
        candidates[storm] = mine
        for jump in mine:
            if ties:
                preferences[jump][storm] = -int(rng.integers(0, 3))
            else:
                preferences[jump][storm] = -float(rng.random())
    return candidates, preferences


def main():
    rng = np.random.default_rng(3)
    keys = {
        "int": int,
        "np.int64": np.int64,
        "str": lambda i: "k%d" % i,
        "float": lambda i: float(i) + 0.5,
        "tuple": lambda i: (int(i) % 3, int(i)),
    }
    for key_name, key in keys.items():
        for n_storms, n_jumps in ((0, 0), (1, 1), (2, 2), (3, 5), (5, 3), (8, 8), (30, 25)):
            for density in (0.0, 0.3, 0.7, 1.0):
                for ties in (False, True):
                    for duplicates in (False, True):
                        for rep in range(6):
                            cand, pref = random_instance(
                                rng, n_storms, n_jumps, key, density, ties, duplicates
                            )
                            both(
                                (key_name, n_storms, n_jumps, density, ties, duplicates, rep),
                                cand,
                                pref,
                            )

    # hand-written cases, including invalid input
    cases = {
        "empty": ({}, {}),
        "only empty candidate lists": ({1: [], 2: []}, {}),
        "displacement chain": (
            {1: [10, 20], 2: [10, 20], 3: [20, 10]},
            {10: {1: -1, 2: -2, 3: -3}, 20: {1: -3, 2: -1, 3: -2}},
        ),
        "tie keeps incumbent": ({1: [10], 2: [10]}, {10: {1: 0, 2: 0}}),
        "displaced storm has nothing left": (
            {1: [10], 2: [10]},
            {10: {1: -5, 2: -1}},
        ),
        "missing preference for newcomer": (
            {1: [10], 2: [10], 3: [10]},
            {10: {1: 0}},
        ),
        "missing preference for incumbent": (
            {1: [10], 2: [10]},
            {10: {2: 0}},
        ),
        "missing jump in preferences": ({1: [10], 2: [10]}, {}),
        "preferences not needed when no clash": ({1: [10], 2: [20]}, {}),
        "incomparable preferences": ({1: [10], 2: [10]}, {10: {1: None, 2: 3}}),
        "array preferences": (
            {1: [10], 2: [10]},
            {10: {1: np.array([1, 2]), 2: np.array([2, 1])}},
        ),
        "nan preferences": (
            {1: [10, 20], 2: [10, 20]},
            {10: {1: float("nan"), 2: 1.0}, 20: {1: 1.0, 2: float("nan")}},
        ),
        "candidates are tuples": ({1: (10, 20)}, {10: {1: 0}, 20: {1: 0}}),
        "candidates are sets": ({1: {10, 20}, 2: {10, 20}}, {10: {1: 0, 2: 1}, 20: {1: 1, 2: 0}}),
        "candidates are None": ({1: None}, {}),
        "candidates are strings": ({1: "ab"}, {}),
        "unhashable jump": ({1: [[10]]}, {}),
        "unhashable jump second": ({1: [10], 2: [[10], 10]}, {10: {1: 0, 2: 1}}),
        "None storm": ({None: [10], 1: [10]}, {10: {None: 1, 1: 2}}),
        "storm equal to an item pair": (
            {(10, 1): [10], 1: [10]},
            {10: {(10, 1): 1, 1: 2}},
        ),
        "storm_candidates is a list": ([[1]], {}),
        "storm_candidates is None": (None, {}),
        "jump_preferences is None": ({1: [10], 2: [10]}, None),
        "bool and int keys collide": ({1: [10], True: [20]}, {10: {1: 0}, 20: {1: 0}}),
        "np.int64 and int mixed": (
            {np.int64(1): [np.int64(10), 20], 2: [10, np.int64(20)]},
            {10: {1: 0, 2: -1}, 20: {1: -1, 2: 0}},
        ),
    }
    for name, (cand, pref) in cases.items():
        both(("case", name), cand, pref)

    # through disambiguate_matching / match_storms
    for rep in range(300):
        n = int(rng.integers(2, 60))
        rain = rng.random(n) * (rng.random(n) < 0.5) * 20
        head = np.cumsum(rng.normal(0, 3, n) + rain * rng.random(n))
        for thresholds in ((4.0, 2.0), (0.0, 0.0), (8.0, 1.25)):
            CHK.same(
                ("match_storms random", rep, thresholds),
                dc.call(ORIG.match_storms, rain, head, *thresholds),
                dc.call(REFAC.match_storms, rain, head, *thresholds),
            )
    for rep in range(300):
        m = int(rng.integers(0, 12))
        rain_intervals = [
            (int(a), int(a + d))
            for a, d in zip(rng.integers(0, 8, m) * 10, rng.integers(1, 6, m))
        ]
        jump_intervals = [
            (int(a), int(a + d))
            for a, d in zip(rng.integers(0, 8, m) * 10 + 1, rng.integers(2, 7, m))
        ]
        # make start -> stop functional, as it is for real intervals
        rain_intervals = [(a, dict(rain_intervals)[a]) for a, _ in rain_intervals]
        jump_intervals = [(a, dict(jump_intervals)[a]) for a, _ in jump_intervals]
        CHK.same(
            ("disambiguate random", rep),
            dc.call(ORIG.disambiguate_matching, rain_intervals, jump_intervals),
            dc.call(REFAC.disambiguate_matching, rain_intervals, jump_intervals),
        )

    # the sample data, through the database
    for sample in (1, 2):
        data = dc.loaded_db_bytes(sample)
        for thresholds in ((4.0, 8.0), (8.0, 5.0), (0.0, 0.0), (1.0, 0.5), (0.1, 40.0)):

            def run(mod, thresholds=thresholds):
                return lambda conn: mod.classify_intervals(conn, *thresholds)

            CHK.same(
                ("sample db", sample, thresholds),
                dc.run_on_db(data, run(ORIG)),
                dc.run_on_db(data, run(REFAC)),
            )
    CHK.finish()
    dc.rerun_optimized(os.path.abspath(__file__))
    print("OK")


if __name__ == "__main__":
    main()
