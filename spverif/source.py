"""E1 -- source model of /repo's current working tree.

Parses spowtd/*.py (tests excluded), records import aliases, functions,
classes, parent links and per-file digests.  Accepts an *overlay*
{relative path: source text} so that variants of the current tree can be
analysed in memory (used by the thorough tier's self-validation).
"""

import ast
import hashlib
import os

REPO_ROOT = os.environ.get("SPVERIF_REPO", "/repo")
PKG = "spowtd"


def clone(node):
    """Copy of an AST subtree by its syntactic fields only (copy.deepcopy would follow the
    `parent` / `_mod` links this model adds and copy the whole module, recursively)."""
    if isinstance(node, ast.AST):
        new = type(node)()
        for f in node._fields:
            if hasattr(node, f):
                setattr(new, f, clone(getattr(node, f)))
        for a in ("lineno", "col_offset", "end_lineno", "end_col_offset"):
            if hasattr(node, a):
                setattr(new, a, getattr(node, a))
        return new
    if isinstance(node, list):
        return [clone(x) for x in node]
    return node


class AnalysisError(Exception):
    """The analysis cannot decide: anchor vanished, parse failure, ..."""


class FuncInfo:
    def __init__(self, module, qualname, node, cls=None):
        self.module = module
        self.qualname = qualname
        self.node = node
        self.cls = cls

    @property
    def name(self):
        return self.node.name

    @property
    def fq(self):
        return "%s.%s" % (self.module.name, self.qualname)

    @property
    def params(self):
        a = self.node.args
        return [x.arg for x in a.posonlyargs + a.args + a.kwonlyargs]

    def __repr__(self):
        return "<Func %s>" % self.fq


class Module:
    def __init__(self, name, relpath, src, foreign=None):
        self.name = name  # e.g. 'classify'
        self.relpath = relpath  # e.g. 'spowtd/classify.py'
        self.src = src
        self.digest = hashlib.sha256(src.encode("utf-8")).hexdigest()
        try:
            self.tree = ast.parse(src, filename=relpath)
        except SyntaxError as exc:
            raise AnalysisError("cannot parse %s: %s" % (relpath, exc))
        from .normalize import normalize_module
        self.normalized = normalize_module(self.tree, name, foreign)
        self.aliases = {}  # local name -> dotted target
        self.functions = {}  # qualname -> FuncInfo
        self.classes = {}  # name -> ClassDef
        self.constants = {}  # module-level NAME -> ast value node
        self._index()

    def _index(self):
        for node in ast.walk(self.tree):
            for child in ast.iter_child_nodes(node):
                child.parent = node
        self.tree.parent = None
        for node in ast.walk(self.tree):
            node._mod = self
        for node in self.tree.body:
            if isinstance(node, ast.Import):
                for a in node.names:
                    self.aliases[a.asname or a.name.split(".")[0]] = (
                        a.name if a.asname else a.name.split(".")[0]
                    )
            elif isinstance(node, ast.ImportFrom):
                for a in node.names:
                    self.aliases[a.asname or a.name] = "%s.%s" % (
                        node.module,
                        a.name,
                    )
            elif isinstance(node, ast.Assign) and len(node.targets) == 1:
                t = node.targets[0]
                if isinstance(t, ast.Name):
                    self.constants[t.id] = node.value
        self._index_funcs(self.tree.body, "", None)

    def _index_funcs(self, body, prefix, cls):
        for node in body:
            if isinstance(node, (ast.FunctionDef, ast.AsyncFunctionDef)):
                q = prefix + node.name
                self.functions[q] = FuncInfo(self, q, node, cls)
                self._index_nested(node, q)
            elif isinstance(node, ast.ClassDef):
                self.classes[node.name] = node
                self._index_funcs(node.body, prefix + node.name + ".", node)

    def _index_nested(self, fnode, q):
        for sub in ast.walk(fnode):
            if sub is fnode:
                continue
            if isinstance(sub, (ast.FunctionDef, ast.AsyncFunctionDef)):
                # only direct nesting level naming; deeper nesting rare
                anc = sub.parent
                while anc is not None and not isinstance(
                    anc, (ast.FunctionDef, ast.AsyncFunctionDef)
                ):
                    anc = anc.parent
                if anc is fnode:
                    qq = "%s.<locals>.%s" % (q, sub.name)
                    self.functions[qq] = FuncInfo(self, qq, sub, None)
                    self._index_nested(sub, qq)

    def line(self, node):
        return getattr(node, "lineno", 0)

    def text(self, node):
        try:
            return ast.get_source_segment(self.src, node) or ast.unparse(node)
        except Exception:  # pragma: no cover
            return ast.unparse(node)


class Repo:
    """All analysable modules of the working tree (plus overlay)."""

    def __init__(self, root=None, overlay=None):
        self.root = root or REPO_ROOT
        self.overlay = dict(overlay or {})
        self.modules = {}
        self.texts = {}
        pkgdir = os.path.join(self.root, PKG)
        if not os.path.isdir(pkgdir):
            raise AnalysisError("package directory %s not found" % pkgdir)
        names = sorted(
            f for f in os.listdir(pkgdir) if f.endswith(".py")
        )
        for f in names:
            rel = "%s/%s" % (PKG, f)
            src = self._read(rel)
            self.modules[f[:-3]] = Module(f[:-3], rel, src)
        # overlay may add modules
        for rel, src in self.overlay.items():
            if (
                rel.startswith(PKG + "/")
                and rel.endswith(".py")
                and rel.count("/") == 1
            ):
                name = rel.split("/")[1][:-3]
                if name not in self.modules:
                    self.modules[name] = Module(name, rel, src)
        # helpers of other modules that the rules have never read are unfolded at their call sites too
        from .normalize import foreign_helpers
        fh = foreign_helpers(self.modules)
        for mname, forms in fh.items():
            m = self.modules[mname]
            used = False
            for c in ast.walk(m.tree):
                if isinstance(c, ast.Call):
                    f_ = c.func
                    if (isinstance(f_, ast.Name) and ("name", f_.id) in forms) or \
                            (isinstance(f_, ast.Attribute) and isinstance(f_.value, ast.Name) and ("attr", f_.value.id, f_.attr) in forms):
                        used = True
                        break
            if used:
                self.modules[mname] = Module(m.name, m.relpath, m.src, foreign=forms)
        from .normalize import positional_keywords
        self.keywords_made_positional = positional_keywords(self.modules)

    def _read(self, rel):
        if rel in self.overlay:
            return self.overlay[rel]
        path = os.path.join(self.root, rel)
        try:
            with open(path, "r", encoding="utf-8") as fh:
                return fh.read()
        except OSError as exc:
            raise AnalysisError("cannot read %s: %s" % (rel, exc))

    def read_text(self, rel):
        if rel not in self.texts:
            self.texts[rel] = self._read(rel)
        return self.texts[rel]

    def digest_of(self, rel):
        return hashlib.sha256(self.read_text(rel).encode("utf-8")).hexdigest()

    def module(self, name):
        if name not in self.modules:
            raise AnalysisError("module spowtd/%s.py not found" % name)
        return self.modules[name]

    def func(self, dotted, _depth=0):
        """'classify.match_storms' or 'spline.Spline.integrate'."""
        mod, _, q = dotted.partition(".")
        m = self.module(mod)
        if q not in m.functions:
            # moved to another module of the package and imported back under the same name
            head = q.split(".")[0]
            tgt = m.aliases.get(head, "")
            if not tgt and head in m.constants:
                # name = other_module.name   (a module-level re-export)
                cv = m.constants[head]
                if isinstance(cv, ast.Attribute) and isinstance(cv.value, ast.Name) and m.aliases.get(cv.value.id, "").startswith(PKG + "."):
                    tgt = m.aliases[cv.value.id] + "." + cv.attr
            parts = tgt.split(".")
            if len(parts) == 3 and parts[0] == PKG and parts[1] in self.modules and _depth < 3:
                rest = q.split(".", 1)[1] if "." in q else None
                return self.func("%s.%s" % (parts[1], parts[2] + ("." + rest if rest else "")), _depth + 1)
            raise AnalysisError(
                "function %s not found in %s" % (q, m.relpath)
            )
        return m.functions[q]

    def has_func(self, dotted):
        mod, _, q = dotted.partition(".")
        return mod in self.modules and q in self.modules[mod].functions

    def all_funcs(self):
        for m in self.modules.values():
            for f in m.functions.values():
                yield f

    def files(self):
        out = {m.relpath: m.digest for m in self.modules.values()}
        for rel in self.texts:
            out[rel] = self.digest_of(rel)
        return out


# ---------------------------------------------------------------------
# small AST helpers shared by the rules


def walk_no_nested(node):
    """ast.walk that does not descend into nested function/class defs
    (the root itself may be a def)."""
    stack = [node]
    first = True
    while stack:
        n = stack.pop()
        if not first and isinstance(
            n, (ast.FunctionDef, ast.AsyncFunctionDef, ast.ClassDef, ast.Lambda)
        ):
            yield n  # yield the def node itself, but not its body
            continue
        first = False
        yield n
        stack.extend(reversed(list(ast.iter_child_nodes(n))))


def enclosing_stmt(node):
    n = node
    while n is not None and not isinstance(n, ast.stmt):
        n = getattr(n, "parent", None)
    return n


def enclosing_func(node):
    n = getattr(node, "parent", None)
    while n is not None and not isinstance(
        n, (ast.FunctionDef, ast.AsyncFunctionDef)
    ):
        n = getattr(n, "parent", None)
    return n


def dotted_name(node):
    """a.b.c -> 'a.b.c' for Name/Attribute chains, else None."""
    parts = []
    while isinstance(node, ast.Attribute):
        parts.append(node.attr)
        node = node.value
    if isinstance(node, ast.Name):
        parts.append(node.id)
        return ".".join(reversed(parts))
    return None


def const_str(node, module=None):
    """String value of a constant / concatenation / module constant."""
    if isinstance(node, ast.Constant) and isinstance(node.value, str):
        return node.value
    if isinstance(node, ast.JoinedStr):
        return None
    if isinstance(node, ast.BinOp) and isinstance(node.op, ast.Add):
        a, b = const_str(node.left, module), const_str(node.right, module)
        if a is not None and b is not None:
            return a + b
    if isinstance(node, ast.Name):
        # a local bound exactly once in its function, to a string constant
        fn = getattr(node, "parent", None)
        while fn is not None and not isinstance(fn, (ast.FunctionDef, ast.AsyncFunctionDef)):
            fn = getattr(fn, "parent", None)
        if fn is not None:
            stores = [x for x in ast.walk(fn) if isinstance(x, ast.Name) and x.id == node.id and isinstance(x.ctx, (ast.Store, ast.Del))]
            if len(stores) == 1 and isinstance(getattr(stores[0], "parent", None), ast.Assign) and len(stores[0].parent.targets) == 1 \
                    and stores[0].parent.targets[0] is stores[0]:
                return const_str(stores[0].parent.value, module)
            if stores:
                return None
    if isinstance(node, ast.Name) and module is not None:
        v = module.constants.get(node.id)
        if v is not None:
            return const_str(v, None)
    return None


def names_in(node):
    return {n.id for n in ast.walk(node) if isinstance(n, ast.Name)}


def is_ancestor(anc, node):
    n = node
    while n is not None:
        if n is anc:
            return True
        n = getattr(n, "parent", None)
    return False
