"""SQL storage-class inference for the one rule that needs it:
SQLite's `/` truncates when both operands are integers."""

from .sqlmodel import expr_str, select_exprs, subselects_of_expr, walk_expr

INT, REAL, TEXT, UNKNOWN = "int", "real", "text", "?"


def decl_type(type_text):
    t = (type_text or "").lower()
    if "int" in t or t == "boolean":
        return INT
    if any(k in t for k in ("double", "real", "float", "numeric", "decimal")):
        return REAL
    if "text" in t or "char" in t:
        return TEXT
    return UNKNOWN


def expr_type(schema, e, alias, depth=0):
    k = e[0]
    if k == "num":
        return INT if e[1].isdigit() else REAL
    if k in ("str",):
        return TEXT
    if k == "bool":
        return INT
    if k == "col":
        tabs = [alias.get(e[1], e[1])] if e[1] else list(alias.values())
        found = set()
        for t in tabs:
            tab = schema.tables.get(t)
            if tab is not None and tab.col(e[2]) is not None:
                found.add(decl_type(tab.col(e[2]).type_text))
            v = schema.views.get(t)
            if v is not None and depth < 3:
                va = {s.alias: s.table for s in v.select.sources}
                for ce, al in v.select.columns:
                    name = al or (ce[2] if ce[0] == "col" else None)
                    if name == e[2]:
                        found.add(expr_type(schema, ce, va, depth + 1))
        return next(iter(found)) if len(found) == 1 else UNKNOWN
    if k == "cast":
        return decl_type(e[2])
    if k == "un":
        return expr_type(schema, e[2], alias, depth)
    if k == "call":
        if e[1] == "AVG":
            return REAL
        if e[1] == "COUNT":
            return INT
        if e[1] in ("SUM", "MIN", "MAX", "TOTAL", "ABS") and e[2]:
            return REAL if e[1] == "TOTAL" else expr_type(schema, e[2][0], alias, depth)
        return UNKNOWN
    if k == "bin":
        if e[1] in ("+", "-", "*", "/", "%"):
            a, b = expr_type(schema, e[2], alias, depth), expr_type(schema, e[3], alias, depth)
            if REAL in (a, b):
                return REAL
            if a == INT and b == INT:
                return INT
            return UNKNOWN
        return INT
    return UNKNOWN


def integer_divisions(schema, sel):
    """[(expr)] `/` nodes of a SELECT whose operands are both integers."""
    alias = {s.alias: s.table for s in sel.sources}
    out = []
    for top in select_exprs(sel):
        for x in walk_expr(top):
            if x[0] == "bin" and x[1] == "/":
                if expr_type(schema, x[2], alias) == INT and expr_type(schema, x[3], alias) == INT:
                    out.append(x)
            for sub in subselects_of_expr(x) if x is top else []:
                out += integer_divisions(schema, sub)
    for _, c in sel.ctes:
        out += integer_divisions(schema, c)
    return out


def check(ctx, chk, rule, modules=(), functions=(), views=()):
    """Emit one obligation per SELECT examined (violations name the expression)."""
    from .report import where_of

    n = 0
    targets = []
    for v in views:
        vv = ctx.schema.views.get(v)
        if vv is not None:
            targets.append((("spowtd/schema.sql", "view " + v, 0), vv.select))
    for s in ctx.sites:
        if s.stmt is None:
            continue
        if s.func.module.name in modules or s.func.fq in functions:
            st = s.stmt
            sel = st if st.kind == "select" else (st.select if st.kind == "insert" and st.select is not None else None)
            if sel is not None:
                targets.append((where_of(s.func, s.call), sel))
    bad = 0
    for where, sel in targets:
        n += 1
        for x in integer_divisions(ctx.schema, sel):
            bad += 1
            chk.ob(rule, False, where, "SQL `%s` divides an integer by an integer" % expr_str(x),
                   "at least one operand is REAL (CAST, or a literal with a decimal point)",
                   key="%s|%s|sql-int-division|%s" % (where[0], where[1], expr_str(x)),
                   why="SQLite truncates integer / integer: 3600 / time_step_s is 0 for a 2-hour step and 1 for a 40-minute step")
    if not bad and n:
        chk.ob(rule, True, targets[0][0], "%d SQL queries: no integer / integer division" % n,
               "no truncating division", key="%s|sql-int-division|none" % rule)
    return n
