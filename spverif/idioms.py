"""Small structural recognisers shared by several property modules."""

import ast

from .norm import NotAlgebraic, py_poly, Poly


def index_lookup(expr):
    """`expr` looks an element up in an array and yields its position:
         np.argwhere(A == K)[0, 0]   np.nonzero(A == K)[0][0]   np.where(K == A)[0][0]
         np.flatnonzero(A == K)[0]   np.searchsorted(A, K)      list(A).index(K)
       optionally + / - an integer literal.
       -> (array expr, key expr, offset) or None.  Either orientation of == is accepted."""
    off = 0
    core = expr
    while isinstance(core, ast.BinOp) and isinstance(core.op, (ast.Add, ast.Sub)):
        try:
            c = py_poly(core.right).const_or_none()
        except NotAlgebraic:
            c = None
        if c is None or c != int(c):
            return None
        off += int(c) if isinstance(core.op, ast.Add) else -int(c)
        core = core.left
    while isinstance(core, ast.Call) and isinstance(core.func, ast.Name) and core.func.id == "int" and len(core.args) == 1:
        core = core.args[0]
    # strip subscripts [0, 0] / [0][0] / [0]
    while isinstance(core, ast.Subscript):
        sl = core.slice
        zeros = (isinstance(sl, ast.Constant) and sl.value == 0) or \
            (isinstance(sl, ast.Tuple) and all(isinstance(e, ast.Constant) and e.value == 0 for e in sl.elts))
        if not zeros:
            return None
        core = core.value
    if not isinstance(core, ast.Call):
        return None
    fn = core.func.attr if isinstance(core.func, ast.Attribute) else (core.func.id if isinstance(core.func, ast.Name) else None)
    if fn in ("argwhere", "nonzero", "where", "flatnonzero") and len(core.args) == 1 and isinstance(core.args[0], ast.Compare) \
            and len(core.args[0].ops) == 1 and isinstance(core.args[0].ops[0], ast.Eq):
        l, r = core.args[0].left, core.args[0].comparators[0]
        return ("eq", l, r, off)
    if fn == "searchsorted" and len(core.args) >= 2:
        return ("sorted", core.args[0], core.args[1], off)
    if fn == "index" and isinstance(core.func, ast.Attribute) and len(core.args) == 1:
        return ("index", core.func.value, core.args[0], off)
    return None


def lookup_key_is(expr, name):
    """index_lookup(expr) whose key (either operand of ==) is the plain name `name`; -> offset or None."""
    r = index_lookup(expr)
    if r is None:
        return None
    kind, a, b, off = r
    sides = (a, b) if kind == "eq" else (b,)
    if any(isinstance(x, ast.Name) and x.id == name for x in sides):
        return off
    return None


def lookup_defect(expr):
    """A look-up of the index_lookup family that is readable and NOT "the position of the key": the comparison is not ==,
    or an element other than the first match is taken.  -> description, or None (exact, or not of this family)."""
    core = expr
    while isinstance(core, ast.BinOp) and isinstance(core.op, (ast.Add, ast.Sub)):
        core = core.left
    while isinstance(core, ast.Call) and isinstance(core.func, ast.Name) and core.func.id == "int" and len(core.args) == 1:
        core = core.args[0]
    picks = []
    while isinstance(core, ast.Subscript):
        sl = core.slice
        if isinstance(sl, ast.Constant) and isinstance(sl.value, int):
            picks.append((sl.value,))
        elif isinstance(sl, ast.Tuple) and all(isinstance(e, ast.Constant) and isinstance(e.value, int) for e in sl.elts):
            picks.append(tuple(e.value for e in sl.elts))
        else:
            return None
        core = core.value
    if not isinstance(core, ast.Call):
        return None
    fn = core.func.attr if isinstance(core.func, ast.Attribute) else (core.func.id if isinstance(core.func, ast.Name) else None)
    if fn not in ("argwhere", "nonzero", "where", "flatnonzero") or len(core.args) != 1 or not isinstance(core.args[0], ast.Compare) \
            or len(core.args[0].ops) != 1:
        return None
    op = core.args[0].ops[0]
    if not isinstance(op, ast.Eq):
        return "positions where the array is %s the key, not where it equals it" % {ast.NotEq: "different from", ast.Lt: "below", ast.LtE: "at or below",
                                                                                   ast.Gt: "above", ast.GtE: "at or above"}.get(type(op), "compared otherwise with")
    if any(any(v != 0 for v in p) for p in picks):
        return "element %s of the matches, not the first match" % ", ".join(str(list(p)) for p in reversed(picks))
    return None


def truthiness_uses(root, names):
    """Places where the truth value of one of `names` decides something:
    `x or d`, `x and y`, `d if not x else x`, `if x:`, `while not x`,
    `bool(x)`, `assert x`.  A number whose zero is a legitimate value (a
    threshold, an offset, a level) must be tested with `is None`.
    Yields (node, text)."""
    def bare(t):
        while isinstance(t, ast.UnaryOp) and isinstance(t.op, ast.Not):
            t = t.operand
        if isinstance(t, ast.Call) and isinstance(t.func, ast.Name) and t.func.id == "bool" and len(t.args) == 1:
            t = t.args[0]
        return t.id if isinstance(t, ast.Name) and t.id in names else None
    for n in ast.walk(root):
        if isinstance(n, ast.BoolOp):
            for v in n.values:
                nm = bare(v)
                if nm:
                    yield n, "`%s` takes the other operand whenever %s is 0" % (ast.unparse(n)[:70], nm)
        elif isinstance(n, (ast.IfExp, ast.If, ast.While, ast.Assert)):
            nm = bare(n.test)
            if nm:
                yield n, "`%s %s` tests the truth value of %s" % (type(n).__name__.lower(), ast.unparse(n.test)[:50], nm)
        elif isinstance(n, ast.Call) and isinstance(n.func, ast.Name) and n.func.id == "bool" and len(n.args) == 1:
            nm = bare(n)
            if nm and not isinstance(getattr(n, "_parent", None), (ast.If, ast.IfExp, ast.While, ast.Assert, ast.BoolOp, ast.UnaryOp)):
                yield n, "`%s` is the truth value of %s" % (ast.unparse(n), nm)


def truthiness_control():
    """Positive control of truthiness_uses: the forms it must recognise."""
    src = ("def f(t, u, v, w):\n t = t or 4.0\n u = 8.0 if not u else u\n if v:\n  pass\n assert w\n"
           " a = 1.0 if t is None else t\n")
    hits = list(truthiness_uses(ast.parse(src), {"t", "u", "v", "w"}))
    return len(hits) == 4
