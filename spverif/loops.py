"""What a loop variable stands for.

binding(name_node) looks for the innermost enclosing `for` statement or
comprehension generator that binds the name and describes it:

  for x in C                      x -> elem(C)
  for i, x in enumerate(C[, s])   i -> counter(C, s) ; x -> elem(C)
  for a, b in zip(A, B)           a -> elem(A) ; b -> elem(B)        (same position)
  for k, v in D.items()           k -> key(D) ; v -> value(D)
  for (a, b), c in ...            nested tuples -> field paths into the element

Result: Binding(loop, kind, container, path, start) with
  kind       'elem' | 'counter' | 'key' | 'value'
  container  the AST of C / A / B / D (list(...) wrappers removed)
  path       tuple of integer field positions into the element (() = the whole element)
  loop       the For / comprehension node: two bindings of the same loop are at the same position
"""

import ast


class Binding:
    def __init__(self, loop, kind, container, path=(), start=0):
        self.loop = loop
        self.kind = kind
        self.container = container
        self.path = tuple(path)
        self.start = start

    def __repr__(self):
        return "<%s of %s path=%s>" % (self.kind, ast.unparse(self.container) if self.container is not None else "?", self.path)


def _strip_list(e):
    while isinstance(e, ast.Call) and isinstance(e.func, ast.Name) and e.func.id in ("list", "tuple", "iter") and len(e.args) == 1 and not e.keywords:
        e = e.args[0]
    return e


def _describe(target, it, loop, name, out):
    """Fill out[name] for names bound by `target` iterating over `it`."""
    it = _strip_list(it)
    # for i in range(len(C)):  i counts the positions of C
    if isinstance(it, ast.Call) and isinstance(it.func, ast.Name) and it.func.id == "range" and len(it.args) == 1 and not it.keywords \
            and isinstance(it.args[0], ast.Call) and isinstance(it.args[0].func, ast.Name) and it.args[0].func.id == "len" and len(it.args[0].args) == 1 \
            and isinstance(target, ast.Name):
        if target.id == name:
            out.append(Binding(loop, "counter", _strip_list(it.args[0].args[0]), (), 0))
        return
    if isinstance(it, ast.Call) and isinstance(it.func, ast.Name) and it.func.id == "enumerate" and it.args:
        start = 0
        if len(it.args) > 1 and isinstance(it.args[1], ast.Constant):
            start = it.args[1].value
        for k in it.keywords:
            if k.arg == "start" and isinstance(k.value, ast.Constant):
                start = k.value.value
        if isinstance(target, (ast.Tuple, ast.List)) and len(target.elts) == 2:
            c, x = target.elts
            inner = _strip_list(it.args[0])
            if isinstance(c, ast.Name) and c.id == name:
                out.append(Binding(loop, "counter", inner, (), start))
            _describe(x, it.args[0], loop, name, out)
        return
    if isinstance(it, ast.Call) and isinstance(it.func, ast.Name) and it.func.id == "zip" and not it.keywords \
            and not any(isinstance(a, ast.Starred) for a in it.args):
        if isinstance(target, (ast.Tuple, ast.List)) and len(target.elts) == len(it.args):
            for t, a in zip(target.elts, it.args):
                _describe(t, a, loop, name, out)
        return
    if isinstance(it, ast.Call) and isinstance(it.func, ast.Attribute) and it.func.attr == "items" and not it.args:
        if isinstance(target, (ast.Tuple, ast.List)) and len(target.elts) == 2:
            k, v = target.elts
            if isinstance(k, ast.Name) and k.id == name:
                out.append(Binding(loop, "key", it.func.value))
            _fields(v, loop, "value", it.func.value, (), name, out)
        return
    if isinstance(it, ast.Call) and isinstance(it.func, ast.Attribute) and it.func.attr in ("keys", "values") and not it.args:
        _fields(target, loop, "key" if it.func.attr == "keys" else "value", it.func.value, (), name, out)
        return
    _fields(target, loop, "elem", it, (), name, out)


def _fields(target, loop, kind, container, path, name, out):
    if isinstance(target, ast.Name):
        if target.id == name:
            out.append(Binding(loop, kind, container, path))
    elif isinstance(target, (ast.Tuple, ast.List)):
        for i, e in enumerate(target.elts):
            if isinstance(e, ast.Starred):
                return
            _fields(e, loop, kind, container, path + (i,), name, out)


def binding(name_node):
    """Binding of a loaded name by the innermost enclosing loop / generator, or None."""
    name = name_node.id
    child = name_node
    n = getattr(name_node, "parent", None)
    while n is not None:
        if isinstance(n, ast.For) and not _within(name_node, n.iter):
            out = []
            _describe(n.target, n.iter, n, name, out)
            if out:
                return out[0]
            # rebound inside the loop by something else? give up only if the target mentions the name
        elif isinstance(n, (ast.ListComp, ast.SetComp, ast.GeneratorExp, ast.DictComp)):
            for g in reversed(n.generators):
                out = []
                _describe(g.target, g.iter, g, name, out)
                if out and not _within(name_node, g.iter):
                    return out[0]
        elif isinstance(n, (ast.FunctionDef, ast.AsyncFunctionDef, ast.Lambda)):
            return None
        child = n
        n = getattr(n, "parent", None)
    return None


def _inside(node, stmts):
    return any(node is s for s in stmts)


def _within(node, root):
    return any(x is node for x in ast.walk(root))


def same_container(a, b):
    return a is not None and b is not None and ast.dump(_strip_list(a)) == ast.dump(_strip_list(b))
