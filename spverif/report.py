"""E10 -- obligations, verdicts, evidence files, known findings, exit codes."""

import json
import os
import time

VERIF_ROOT = os.path.dirname(os.path.dirname(os.path.abspath(__file__)))
EVIDENCE_DIR = os.path.join(VERIF_ROOT, "evidence")
REPLAY_DIR = os.path.join(EVIDENCE_DIR, "replay")
KNOWN_FINDINGS = os.path.join(VERIF_ROOT, "known_findings.json")

PASS, VIOLATION, INDET, INFO = "PASS", "VIOLATION", "INDETERMINATE", "INFO"


class Obligation:
    def __init__(self, rule, verdict, file, function, line, found, required,
                 key=None, why=None):
        self.rule = rule
        self.verdict = verdict
        self.file = file
        self.function = function
        self.line = line
        self.found = found
        self.required = required
        # construct key: stable across line moves
        self.key = key or "%s|%s|%s" % (file, function, found)
        self.why = why

    def record(self):
        d = {
            "rule": self.rule,
            "verdict": self.verdict,
            "file": self.file,
            "function": self.function,
            "line": self.line,
            "found": self.found,
            "required": self.required,
            "key": self.key,
        }
        if self.why:
            d["necessary_because"] = self.why
        return d


class Check:
    """Collects the obligations of one property on one run."""

    def __init__(self, prop_id, tier="quick", seed=0):
        self.prop_id = prop_id
        self.tier = tier
        self.seed = seed
        self.obs = []
        self.t0 = time.time()
        self.explanation = ""
        self.rule_text = ""
        self.assumptions = []
        self.counters = {}
        self.floors = []  # (description, found, minimum)
        self.errors = []  # analysis errors (strings)
        self.extra = {}

    # -- recording
    def ob(self, rule, ok, where, found, required, key=None, why=None, scope=None, local=False):
        """where = (file, function, line).  scope: FuncInfo(s) whose whole body the rule read
        (a violated obligation is 'cannot decide' if that body calls a function the rules never read)."""
        # local=True: the construct named is wrong whatever the functions around it do (a zero-expected rule that matched)
        if not ok and not local and getattr(self, "ctx", None) is not None and rule not in getattr(self, "no_downgrade", ()):
            unread = unread_functions(self.ctx, where)
            for sc in ([scope] if scope is not None and not isinstance(scope, (list, tuple)) else (scope or [])):
                for u in unread_functions(self.ctx, Where(tuple(where), sc, sc.node)):
                    if u not in unread:
                        unread.append(u)
            if unread:
                self.indeterminate(rule, where, "%s -- not decided: the construct depends on %s, which did not exist when this rule was written and is not read by it"
                                   % (str(found)[:160], ", ".join(unread)))
                return ok
        verdict = PASS if ok else VIOLATION
        f, fn, ln = where
        o = Obligation(rule, verdict, f, fn, ln, str(found), str(required), key, why)
        self.obs.append(o)
        return ok

    def info(self, rule, where, found, note=""):
        f, fn, ln = where
        self.obs.append(Obligation(rule, INFO, f, fn, ln, str(found), note))

    def indeterminate(self, rule, where, what):
        f, fn, ln = where
        self.obs.append(Obligation(rule, INDET, f, fn, ln, str(what), "recognisable anchor"))
        self.errors.append("%s: %s:%s %s -- %s" % (rule, f, ln, fn, what))

    def floor(self, description, found, minimum):
        self.floors.append((description, found, minimum))
        if found < minimum:
            self.errors.append(
                "instance floor not met: %s: found %d < %d confirmed by hand"
                % (description, found, minimum)
            )

    def count(self, name, n=1):
        self.counters[name] = self.counters.get(name, 0) + n

    # -- results
    def violations(self):
        return [o for o in self.obs if o.verdict == VIOLATION]


class Where(tuple):
    """(file, function, line), remembering the function model and the AST node it was made from."""

    def __new__(cls, t, func=None, node=None):
        obj = tuple.__new__(cls, t)
        obj.func = func
        obj.node = node
        return obj


def where_of(func, node):
    """(file, function, line) from a FuncInfo (or Module) and AST node."""
    mod = getattr(func, "module", func)
    fn = getattr(func, "qualname", "<module>")
    return Where((mod.relpath, fn, getattr(node, "lineno", 0)), func, node)


_KNOWN = None


def known_functions():
    global _KNOWN
    if _KNOWN is None:
        path = os.path.join(os.path.dirname(os.path.abspath(__file__)), "known_functions.json")
        try:
            with open(path) as fh:
                _KNOWN = set(json.load(fh)["functions"])
        except OSError:
            _KNOWN = set()
    return _KNOWN


def unread_functions(ctx, where):
    """Functions of the analysed package, not among those the rules were written against, that the
    construct at `where` depends on: called in its statement, in what that statement's names are
    defined from (bounded backward slice), or in the statements that use what it defines."""
    import ast

    func, node = getattr(where, "func", None), getattr(where, "node", None)
    known = known_functions()
    if not known or func is None or node is None or not hasattr(func, "node") or ctx is None:
        return []
    from .flow import Flow
    from .guards import back_slice
    from .source import enclosing_stmt

    try:
        flow = Flow.of(func)
        if node is func.node:
            regions = [func.node]
        else:
            st = node if isinstance(node, ast.stmt) else enclosing_stmt(node)
            if st is None:
                return []
            hdr = st
            if isinstance(st, (ast.For, ast.AsyncFor)):
                hdr = st.iter
            elif isinstance(st, (ast.If, ast.While)):
                hdr = st.test
            elif isinstance(st, (ast.With, ast.AsyncWith)):
                hdr = ast.Tuple(elts=[i.context_expr for i in st.items], ctx=ast.Load())
                for i in st.items:
                    pass
            regions = list(back_slice(flow, hdr, 3)) if not isinstance(hdr, ast.Tuple) else [i.context_expr for i in st.items]
            # forward, one step: statements that use what this statement defines
            stored = {n.id for n in ast.walk(st) if isinstance(n, ast.Name) and isinstance(n.ctx, ast.Store)} if isinstance(st, (ast.Assign, ast.AugAssign, ast.AnnAssign, ast.For)) else set()
            if stored:
                for other in ast.walk(func.node):
                    if isinstance(other, ast.stmt) and other is not st and not isinstance(other, (ast.FunctionDef, ast.For, ast.While, ast.If, ast.With, ast.Try)):
                        if any(isinstance(n, ast.Name) and isinstance(n.ctx, ast.Load) and n.id in stored for n in ast.walk(other)):
                            regions.append(other)
                    elif isinstance(other, (ast.For, ast.While, ast.If)) and other is not st:
                        h = other.iter if isinstance(other, ast.For) else other.test
                        if any(isinstance(n, ast.Name) and isinstance(n.ctx, ast.Load) and n.id in stored for n in ast.walk(h)):
                            regions.append(h)
        out = []
        for r in regions:
            for c in ast.walk(r):
                if isinstance(c, ast.Call):
                    try:
                        tg = ctx.cg.resolve_callee(func, c.func)
                    except Exception:
                        tg = []
                    for t in tg:
                        if t not in known and t not in out:
                            out.append(t)
        return out
    except Exception:
        return []


def row_integrity(chk, rule, finfo, binding, key):
    """Rows read into a 2-D array and split into columns afterwards: what was done to the array in between must
    keep each row together.  np.sort(M, axis=0) sorts every column on its own; np.sort(M) (last axis) sorts
    inside each row; np.unique(M) flattens."""
    for fn, axis, call in getattr(binding, "transforms", []) or []:
        w = where_of(finfo, call)
        if fn == "sort":
            what = "each column is sorted on its own" if axis in ("0", "-2") else "the values inside each row are sorted"
            chk.ob(rule, False, w, "%s: %s, so a value is no longer in the row it was read in" % (__import__("ast").unparse(call)[:70], what),
                   "rows of the query stay together (order them in SQL, or index the array with argsort of one column)",
                   key=key, why="the columns are used as parallel arrays: element k of one belongs with element k of the other")
        elif fn == "unique" and axis is None:
            chk.ob(rule, False, w, "np.unique without axis flattens the rows", "rows of the query stay together", key=key)
        elif fn in ("flipud", "ascontiguousarray") or (fn == "flip" and axis in ("0", "-2")):
            chk.ob(rule, True, w, "%s keeps rows together" % fn, "rows of the query stay together", key=key)
        else:
            chk.indeterminate(rule, w, "what %s does to the rows is not read" % __import__("ast").unparse(call)[:60])


def load_known_findings():
    if not os.path.exists(KNOWN_FINDINGS):
        return {"open": [], "fixed": []}
    with open(KNOWN_FINDINGS) as fh:
        return json.load(fh)


def new_violations(check):
    kf = load_known_findings()
    open_kf = [k for k in kf.get("open", []) if k.get("property") == check.prop_id]
    return [v for v in check.violations()
            if not any(k.get("rule") == v.rule and k.get("key") == v.key for k in open_kf)]


def finish(check, repo=None, write_evidence=True, out=print):
    """Print the report, write evidence, return the exit code."""
    kf = load_known_findings()
    open_kf = [
        k for k in kf.get("open", []) if k.get("property") == check.prop_id
    ]
    viols = check.violations()
    known, new = [], []
    for v in viols:
        hit = None
        for k in open_kf:
            if k.get("rule") == v.rule and k.get("key") == v.key:
                hit = k
                break
        (known if hit else new).append((v, hit))
    wall = time.time() - check.t0
    n_ob = len([o for o in check.obs if o.verdict in (PASS, VIOLATION)])
    n_ok = len([o for o in check.obs if o.verdict == PASS])
    distinct = len({(o.rule, o.key) for o in check.obs if o.verdict in (PASS, VIOLATION)})
    code = 0
    if check.errors:
        code = 2
    if new:
        code = 1 if not check.errors else code
    # a violation wins over an analysis error only if there is no error in
    # the rule that produced it; keep it simple: errors -> 2 unless there
    # are genuine violations, which are still printed.
    if new and check.errors:
        code = 1

    out("== %s (%s tier): %d obligations, %d pass, %d violation(s), %d known, %.2fs"
        % (check.prop_id, check.tier, n_ob, n_ok, len(new), len(known), wall))
    for o in check.obs:
        if o.verdict == INFO and os.environ.get("SPVERIF_VERBOSE"):
            out("  info %s %s:%s %s -- %s %s" % (o.rule, o.file, o.line, o.function, o.found, o.required))
    for desc, found, minimum in check.floors:
        out("  instances: %s = %d (floor %d)" % (desc, found, minimum))
    for e in check.errors:
        out("ANALYSIS-ERROR property=%s %s" % (check.prop_id, e))
    for v, k in known:
        out("KNOWN-FINDING: property=%s %s %s:%s %s -- found %s; required %s"
            % (check.prop_id, v.rule, v.file, v.line, v.function, v.found, v.required))
    replay_paths = []
    if write_evidence:
        os.makedirs(REPLAY_DIR, exist_ok=True)
        # remove stale replays of this property
        for f in os.listdir(REPLAY_DIR):
            if f.startswith(check.prop_id + "-"):
                try:
                    os.remove(os.path.join(REPLAY_DIR, f))
                except OSError:
                    pass
    for i, (v, _) in enumerate(new):
        rel = "evidence/replay/%s-%d.json" % (check.prop_id, i + 1)
        out("%s:%s %s %s -- found: %s; required: %s%s"
            % (v.file, v.line, v.function, v.rule, v.found, v.required,
               ("; necessary because " + v.why) if v.why else ""))
        out("VIOLATION property=%s replay=%s" % (check.prop_id, rel))
        replay_paths.append(rel)
        if write_evidence:
            rec = v.record()
            rec["property"] = check.prop_id
            rec["files"] = repo.files() if repo is not None else {}
            with open(os.path.join(VERIF_ROOT, rel), "w") as fh:
                json.dump(rec, fh, indent=1)

    if write_evidence:
        os.makedirs(EVIDENCE_DIR, exist_ok=True)
        samples = [o.record() for o in check.obs if o.verdict != INFO]
        infos = [o.record() for o in check.obs if o.verdict == INFO]
        cov = {
            "explanation": check.explanation,
            "rule": check.rule_text
            or "one evaluation per rule instance found in the current tree; "
            "distinct = distinct (rule, construct key) pairs on which the rule "
            "had something to decide",
            "obligations": n_ob,
            "discharged": n_ok,
            "evaluations": max(n_ob, 0),
            "distinct_nontrivial": distinct,
            "samples": samples[:200],
            "information": infos[:60],
            "instance_floors": [
                {"what": d, "found": f, "floor": m} for d, f, m in check.floors
            ],
            "counters": check.counters,
            "files": repo.files() if repo is not None else {},
            "known_findings": [v.record() for v, _ in known],
            "analysis_errors": check.errors,
            "normal_forms_applied": ({
                m.name: {k: v for k, v in (getattr(m, "normalized", {}) or {}).items() if v}
                for m in repo.modules.values() if any((getattr(m, "normalized", {}) or {}).values())
            } if repo is not None else {}),
            "keywords_made_positional": getattr(repo, "keywords_made_positional", 0) if repo is not None else 0,
        }
        cov.update(check.extra)
        ev = {
            "property_id": check.prop_id,
            "tier": check.tier,
            "seed": int(check.seed),
            "level": "other",
            "coverage": cov,
            "assumptions": check.assumptions,
            "wall_s": round(wall, 3),
            "violations": len(new),
        }
        with open(os.path.join(EVIDENCE_DIR, "%s.json" % check.prop_id), "w") as fh:
            json.dump(ev, fh, indent=1)
    if code == 0:
        out("OK property=%s" % check.prop_id)
    return code
