"""Index spaces: a position found by looking a key up in one column array may only index arrays that have
the same rows.

  i = position of K in A          (idioms.index_lookup: argwhere(A == K)[0, 0], searchsorted, .index ...)
  X[i], X[i:j], X[i + 1]          X must hold the rows A holds

Arrays are the column arrays bound from SELECT statements (sqlbind).  Two arrays have the same rows when they
come from the same statement.  For arrays of different statements the rows are compared by what the loader
guarantees about the tables (frozen here, one line of reason each):

  grid_time, rainfall_intensity, evapotranspiration   one row per instant of the uniform grid
                                                      (rainfall / ET: all but the closing instant)
  water_level                                         only the instants inside valid data intervals: no rows
                                                      inside gaps of the source record (load.populate_water_level)

A statement that reads water_level (directly, through a view or an inner join) yields rows for valid instants
only; one that reads only the grid tables yields a row for every grid instant.  Position k in one is not
position k in the other as soon as the record has a gap.
"""

import ast

from .flow import Flow
from .idioms import index_lookup
from .report import where_of
from .sqlbind import bindings

GRID_TABLES = {"grid_time", "rainfall_intensity", "evapotranspiration"}
VALID_TABLES = {"water_level"}


def row_class(ctx, sel):
    """'valid' / 'grid' / None (unknown) for the rows of a SELECT over the time-series tables."""
    base = set()
    for src in sel.sources:
        if src.table is None:
            return None
        if src.join == "LEFT":
            continue
        base |= set(ctx.schema.base_tables(src.table))
    if base & VALID_TABLES:
        return "valid"
    if base and base <= GRID_TABLES:
        return "grid"
    return None


def _strip_conv(e):
    while isinstance(e, ast.Call) and e.args and isinstance(e.func, (ast.Attribute, ast.Name)) and \
            (e.func.attr if isinstance(e.func, ast.Attribute) else e.func.id) in ("array", "asarray", "float64", "list", "tuple", "ascontiguousarray"):
        e = e.args[0]
    return e


def check(ctx, chk, rule, f, key_prefix):
    """Report every subscript of a bound column array by an index looked up in an array with other rows."""
    flow = Flow.of(f)
    arr = {}
    for b in bindings(ctx, f):
        if b.kind == "columns":
            for nm in b.names:
                if nm:
                    arr.setdefault(nm, b)

    def space_of(name_node, depth=0):
        if not isinstance(name_node, ast.Name) or depth > 4:
            return None
        if name_node.id in arr:
            return arr[name_node.id]
        dv = flow.def_value(name_node)
        if dv is None:
            return None
        dv = _strip_conv(dv)
        return space_of(dv, depth + 1) if isinstance(dv, ast.Name) else None

    idx = {}
    for st in ast.walk(f.node):
        if isinstance(st, ast.Assign) and len(st.targets) == 1 and isinstance(st.targets[0], ast.Name):
            lk = index_lookup(st.value)
            if lk is None:
                continue
            kind, a, b, off = lk
            cands = [x for x in ((a, b) if kind == "eq" else (a,)) if isinstance(x, ast.Name) and space_of(x) is not None]
            if len(cands) == 1:
                idx[st.targets[0].id] = (space_of(cands[0]), cands[0].id, st)
    n_uses = 0
    for sub in ast.walk(f.node):
        if not (isinstance(sub, ast.Subscript) and isinstance(sub.value, ast.Name)):
            continue
        used = sorted({n.id for n in ast.walk(sub.slice) if isinstance(n, ast.Name) and n.id in idx})
        if not used:
            continue
        xs = space_of(sub.value)
        if xs is None:
            continue
        for i in used:
            ispace, aname, ist = idx[i]
            n_uses += 1
            if xs is ispace or xs.site is ispace.site:
                chk.ob(rule, True, where_of(f, sub), "%s indexed by %s, a position in %s: columns of the same query" % (sub.value.id, i, aname),
                       "an index is used only on arrays that have the rows of the array it was looked up in", key="%s|index-space|%s[%s]" % (key_prefix, sub.value.id, i))
                continue
            ca, cb = row_class(ctx, xs.site.stmt), row_class(ctx, ispace.site.stmt)
            same_shape = ca is not None and ca == cb
            desc = "%s[%s]: %s is a position in %s (rows of `%s`: %s), %s holds the rows of `%s` (%s)" % (
                sub.value.id, ast.unparse(sub.slice)[:30], i, aname, _from(ispace.site.stmt), cb or "?", sub.value.id, _from(xs.site.stmt), ca or "?")
            if ca is not None and cb is not None and ca != cb:
                chk.ob(rule, False, where_of(f, sub), desc, "an index is used only on arrays that have the rows of the array it was looked up in",
                       key="%s|index-space|%s[%s]" % (key_prefix, sub.value.id, i),
                       why="water_level has no rows inside gaps of the record while the grid tables have one per grid instant: after a gap the position is shifted by the number of missing instants")
            else:
                chk.indeterminate(rule, where_of(f, sub), desc + " -- whether the two statements return the same rows is not decided")
    chk.count("%s index uses checked" % key_prefix, n_uses)
    return n_uses


def _from(sel):
    return ", ".join(s.table or "(subquery)" for s in sel.sources)
