"""Setup-time self check of the engine (no dependence on /repo's content
beyond being parseable): algebra normal forms, comparison normal forms,
SQL parser round trips, CFG dominators on a fixture."""

import ast
import sys
from fractions import Fraction

from . import norm
from .cfg import CFG, ENTRY, EXIT, ReachingDefs
from .sqlmodel import parse_one, parse_sql


def _p(src, symmap=None):
    return norm.py_poly(ast.parse(src, mode="eval").body, symmap=symmap)


def main():
    ok = True

    def check(cond, what):
        nonlocal ok
        if not cond:
            ok = False
            print("SELFCHECK FAILED:", what)

    check(_p("(a + b) * (a - b)") == _p("a*a - b*b"), "difference of squares")
    check(_p("x / 3600.0") == _p("x * (1/3600)"), "division by literal")
    check(_p("a / (b + c)") == _p("a * (c + b) ** -1"), "inverse of sum")
    check(_p("K * (zm - z / 10) ** (1 - al) / (100 * (al - 1))")
          == _p("(K * (zm - z * 0.1) ** (1 - al)) / (100 * al - 100)"), "peatclsm form")
    check(_p("a - b") != _p("b - a"), "sign matters")
    c1 = norm.py_compare(ast.parse("a > b", mode="eval").body)
    c2 = norm.py_compare(ast.parse("b < a", mode="eval").body)
    c3 = norm.py_compare(ast.parse("not (a <= b)", mode="eval").body)
    c4 = norm.py_compare(ast.parse("a >= b", mode="eval").body)
    check(c1 == c2 == c3, "comparison mirror/negation")
    check(c1 != c4, "strictness matters")
    s = parse_one("SELECT a, sum(b * (c - d) / 3600.) AS x FROM t JOIN u ON t.k >= u.k AND t.j <= u.j WHERE z = ? GROUP BY a ORDER BY a DESC")
    check(s.order_by[0][1] == "DESC" and len(s.sources) == 2, "sql select")
    i = parse_one("INSERT INTO t (a, b) VALUES (:x, :y)")
    check(i.table == "t" and i.columns == ["a", "b"], "sql insert")
    sts = parse_sql("CREATE TABLE t (a integer NOT NULL PRIMARY KEY, b text UNIQUE, FOREIGN KEY (b) REFERENCES u (c)); COMMIT;")
    check(sts[0].pk == ["a"] and sts[0].uniques == [["b"]] and sts[1].kind == "txn", "sql ddl")
    # SQL normal forms
    from .sqlmodel import conjuncts, expr_str
    q = parse_one("SELECT a AS x, b FROM t WHERE NOT (a IS NULL) AND NOT (b > ?) AND c IN ('k') ORDER BY 2 DESC, x")
    check([expr_str(c) for c in conjuncts(q.where)] == ["(a ISNOT NULL)", "(b <= ?1)", "(c = 'k')"], "sql conjunct normal form")
    check([expr_str(e) for e, _ in q.order_by] == ["b", "a"], "sql ORDER BY ordinal / alias")
    q = parse_one("SELECT (SELECT min(z) FROM w), (SELECT max(z) FROM w)")
    check([x.table for x in q.sources] == ["w"] and [expr_str(e) for e, _ in q.columns] == ["MIN(z)", "MAX(z)"], "sql scalar sub-queries merged")
    q = parse_one("SELECT i.epoch, wl.z FROM (SELECT gt.epoch FROM grid_time AS gt WHERE gt.d = ?) AS i JOIN water_level AS wl USING (epoch) ORDER BY 1")
    check([(x.table, x.alias) for x in q.sources] == [("grid_time", "i"), ("water_level", "wl")] and expr_str(q.where) == "(i.d = ?1)", "sql sub-select flattened")
    q = parse_one("WITH c (a, b) AS (SELECT x, y FROM t JOIN u ON t.k = u.k) SELECT c.b FROM s, c WHERE s.id = c.a")
    check([x.table for x in q.sources] == ["s", "t", "u"] and expr_str(q.columns[0][0]) == "y", "sql join CTE flattened")
    q = parse_one("SELECT a FROM (SELECT DISTINCT a FROM t) AS d")
    check(q.sources[0].subq is not None, "sql DISTINCT sub-select kept")
    q = parse_one("WITH p AS (SELECT k FROM z WHERE k = :k) INSERT INTO r (k, v) SELECT k, :v FROM p RETURNING k")
    check(q.kind == "insert" and q.first_keyword == "WITH" and q.conflict is None, "sql WITH-prefixed insert")
    check(parse_one("INSERT OR IGNORE INTO t (a) VALUES (?)").conflict == "IGNORE", "sql conflict clause")
    fn = ast.parse("def f(x):\n    if x:\n        raise ValueError\n    y = 1\n    for i in x:\n        y += i\n    return y\n")
    for n in ast.walk(fn):
        for c in ast.iter_child_nodes(n):
            c.parent = n
    cfg = CFG(fn.body[0])
    test = cfg.node(fn.body[0].body[0])
    asg = cfg.node(fn.body[0].body[1])
    check(cfg.dominates(test, asg), "dominators")
    rd = ReachingDefs(cfg)
    ret = cfg.node(fn.body[0].body[3])
    check(len(rd.reaching("y", ret)) == 2, "reaching definitions")
    if not ok:
        sys.exit(1)
    print("spverif selfcheck ok")


if __name__ == "__main__":
    main()
