"""Cursor typestate: a cursor that is being iterated lazily (`for row in cursor:` / `for row in cursor.execute(...)`)
must not be executed again -- by the loop body or by a function the body hands it to -- before the iteration
ends.  sqlite3 resets the result set on execute: the outer loop ends early, silently."""

import ast

from .report import where_of
from .source import dotted_name, enclosing_func


def lazy_cursor(it):
    """Name of the cursor if `it` iterates it lazily."""
    n = it
    if isinstance(n, ast.Call) and isinstance(n.func, ast.Name) and n.func.id in ("enumerate", "iter") and n.args:
        n = n.args[0]
    if isinstance(n, ast.Call) and isinstance(n.func, ast.Name) and n.func.id == "zip":
        for a in n.args:
            if isinstance(a, ast.Starred):
                return None  # zip(*cursor) consumes everything first
            if isinstance(a, ast.Name) and "cursor" in a.id:
                return a.id
        return None
    if isinstance(n, ast.Name) and ("cursor" in n.id or n.id in ("cur", "c")):
        return n.id
    if isinstance(n, ast.Call) and isinstance(n.func, ast.Attribute) and n.func.attr == "execute":
        return dotted_name(n.func.value)
    return None


def lazy_cursor_loops(ctx, chk, rule, modules, why="execute on the iterated cursor silently truncates the list of intervals"):
    n_lazy = 0
    for modname in modules:
        m = ctx.repo.modules.get(modname)
        if m is None:
            continue
        for q, f in sorted(m.functions.items()):
            for loop in [n for n in ast.walk(f.node) if isinstance(n, ast.For) and enclosing_func(n) is f.node]:
                recv = lazy_cursor(loop.iter)
                if recv is None:
                    continue
                n_lazy += 1
                bad = [c for st in loop.body for c in ast.walk(st)
                       if isinstance(c, ast.Call) and isinstance(c.func, ast.Attribute) and c.func.attr in ("execute", "executemany", "executescript")
                       and dotted_name(c.func.value) == recv]
                passed = [c for st in loop.body for c in ast.walk(st)
                          if isinstance(c, ast.Call) and any(isinstance(a, ast.Name) and a.id == recv for a in c.args)
                          and ctx.cg.resolve_callee(f, c.func)]
                chk.ob(rule, not bad and not passed, where_of(f, loop),
                       "loop iterates %s lazily; re-executed inside the loop: %s" % (recv, [ast.unparse(c)[:40] for c in bad + passed] or "no"),
                       "a cursor being iterated is not executed again before the iteration ends",
                       key="%s|lazy-cursor|%s" % (f.qualname, recv), why=why)
    # positive control for the zero-expected rule
    ctl = ast.parse("for row in cursor:\n    cursor.execute('SELECT 1')\n").body[0]
    fired = lazy_cursor(ctl.iter) == "cursor" and any(isinstance(c, ast.Call) and isinstance(c.func, ast.Attribute) and c.func.attr == "execute"
                                                      for st in ctl.body for c in ast.walk(st))
    if not fired:
        chk.errors.append("%s positive control did not fire" % rule)
    return n_lazy
