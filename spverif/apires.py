"""E7 -- API resolution.

(a) every attribute chain rooted at an imported third-party / stdlib
    module is resolved with getattr on the module actually installed in
    the interpreter that runs the analysis (/venv);
(b) for locals whose every reaching binding is a literal / comprehension /
    constructor of one builtin container type, every method called on
    them is resolved against that type.
"""

import ast
import importlib
from collections import defaultdict

from .cfg import ENTRY, assigned_value
from .flow import Flow
from .source import dotted_name, enclosing_func

_import_cache = {}


def _import(name):
    if name not in _import_cache:
        try:
            _import_cache[name] = importlib.import_module(name)
        except Exception as exc:  # noqa
            _import_cache[name] = exc
    return _import_cache[name]


def resolve_dotted(full):
    """Resolve 'numpy.linalg.solve' -> (ok, detail)."""
    parts = full.split(".")
    # longest importable module prefix
    obj = None
    idx = 0
    for i in range(len(parts), 0, -1):
        m = _import(".".join(parts[:i]))
        if not isinstance(m, Exception):
            obj = m
            idx = i
            break
    if obj is None:
        return None, "module %s not importable in this environment" % parts[0]
    for j in range(idx, len(parts)):
        if not hasattr(obj, parts[j]):
            return False, "%s has no attribute %r" % (".".join(parts[:j]), parts[j])
        try:
            obj = getattr(obj, parts[j])
        except Exception as exc:  # numpy raises AttributeError for removed names
            return False, "%s.%s: %s" % (".".join(parts[:j]), parts[j], exc)
    return True, "resolves"


def external_chains(module):
    """[(node, full dotted name)] for attribute chains / names rooted at an
    alias of a non-spowtd import, anywhere in the module."""
    out = []
    ext = {k: v for k, v in module.aliases.items() if not v.startswith("spowtd")}
    seen = set()
    for node in ast.walk(module.tree):
        if isinstance(node, ast.Attribute) and not isinstance(getattr(node, "parent", None), ast.Attribute):
            d = dotted_name(node)
            if d:
                head, _, rest = d.partition(".")
                if head in ext and not _shadowed(node, head):
                    out.append((node, ext[head] + "." + rest))
        elif isinstance(node, ast.Name) and isinstance(node.ctx, ast.Load) and node.id in ext \
                and not isinstance(getattr(node, "parent", None), ast.Attribute):
            if "." in ext[node.id] and not _shadowed(node, node.id):
                out.append((node, ext[node.id]))
    return out


def _shadowed(node, name):
    f = enclosing_func(node)
    while f is not None:
        a = f.args
        if name in [x.arg for x in a.posonlyargs + a.args + a.kwonlyargs]:
            return True
        for sub in ast.walk(f):
            if isinstance(sub, ast.Name) and isinstance(sub.ctx, ast.Store) and sub.id == name:
                return True
        f = enclosing_func(f)
    return False


CONTAINER_CTORS = {
    "set": set, "frozenset": frozenset, "dict": dict, "list": list, "tuple": tuple,
    "sorted": list, "defaultdict": defaultdict, "collections.defaultdict": defaultdict,
    "str": str,
}


def literal_type(value):
    if isinstance(value, (ast.Set, ast.SetComp)):
        return set
    if isinstance(value, (ast.Dict, ast.DictComp)):
        return dict
    if isinstance(value, (ast.List, ast.ListComp)):
        return list
    if isinstance(value, ast.Tuple):
        return tuple
    if isinstance(value, ast.Constant) and isinstance(value.value, str):
        return str
    if isinstance(value, ast.JoinedStr):
        return str
    if isinstance(value, ast.Call):
        d = dotted_name(value.func)
        if d in CONTAINER_CTORS:
            return CONTAINER_CTORS[d]
    return None


def container_method_sites(finfo):
    """[(call node, var name, type, method, exists?)] for method calls on
    locals of statically known builtin container type."""
    flow = Flow.of(finfo)
    out = []
    for node in ast.walk(finfo.node):
        if not (isinstance(node, ast.Call) and isinstance(node.func, ast.Attribute)
                and isinstance(node.func.value, ast.Name)):
            continue
        if enclosing_func(node) is not finfo.node:
            continue
        name = node.func.value
        defs = flow.reaching_defs(name)
        if not defs or ENTRY in defs:
            continue
        types = set()
        for d in defs:
            v = assigned_value(flow.cfg, d, name.id)
            t = literal_type(v) if v is not None else None
            types.add(t)
        if len(types) == 1 and None not in types:
            t = next(iter(types))
            out.append((node, name.id, t, node.func.attr, hasattr(t, node.func.attr)))
    return out
