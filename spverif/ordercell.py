"""E8b -- order-cell evaluation.

For a function that touches its numeric arguments only through
comparisons, min, max and linear terms: evaluate its branch structure
symbolically in one weak ordering of the symbols (a *cell*).  Values are
Poly objects over the symbols; `min`/`max`/comparisons are resolved by the
cell; anything else becomes an opaque atom through the `apply` hook.
"""

import ast
import itertools
from fractions import Fraction

from .norm import Poly, num_fraction


class Undecided(Exception):
    pass


def weak_orderings(symbols):
    """All weak orderings (ordered set partitions) of the symbols, each as
    a dict symbol -> rank."""
    symbols = list(symbols)
    out = []

    def rec(remaining, blocks):
        if not remaining:
            out.append({s: i for i, b in enumerate(blocks) for s in b})
            return
        # choose the next block: any non-empty subset containing the first
        # remaining element or not -- enumerate all non-empty subsets
        n = len(remaining)
        for r in range(1, n + 1):
            for comb in itertools.combinations(remaining, r):
                rest = [x for x in remaining if x not in comb]
                rec(rest, blocks + [comb])

    rec(symbols, [])
    return out


class ListVal:
    """A Python list of evaluated values built up by the interpreted body (`xs = []`, `xs.append(v)`)."""

    def __init__(self, items=()):
        self.items = list(items)


class CellEval:
    def __init__(self, cell, sym_of, apply=None, env=None):
        """cell: symbol -> rank.  sym_of(node) -> symbol name or None.
        apply(call_node, evaluated_args, self) -> Poly or None."""
        self.cell = cell
        self.sym_of = sym_of
        self.apply = apply
        self.env = dict(env or {})  # local name -> Poly

    def rank_of(self, p):
        """Rank of a Poly that is a single bare symbol, else None."""
        st = p.single_term()
        if st is None:
            return None
        k, c = st
        if c == 1 and len(k) == 1 and k[0][1] == 1 and k[0][0] in self.cell:
            return self.cell[k[0][0]]
        return None

    def compare(self, op, l, r):
        d = l - r
        if d.is_const():
            v = d.const_value()
            return _cmp(op, v, 0)
        rl, rr = self.rank_of(l), self.rank_of(r)
        if rl is not None and rr is not None:
            return _cmp(op, rl, rr)
        raise Undecided("cannot order %s and %s in this cell" % (l.key(), r.key()))

    def eval(self, node):
        s = self.sym_of(node)
        if s is not None:
            return Poly.atom(s)
        if isinstance(node, ast.Constant) and isinstance(node.value, (int, float)) and not isinstance(node.value, bool):
            return Poly.const(num_fraction(node.value))
        if isinstance(node, ast.Name):
            if node.id in self.env:
                return self.env[node.id]
            raise Undecided("unbound name %s" % node.id)
        if isinstance(node, ast.UnaryOp) and isinstance(node.op, ast.USub):
            return -self.eval(node.operand)
        if isinstance(node, ast.UnaryOp) and isinstance(node.op, ast.UAdd):
            return self.eval(node.operand)
        if isinstance(node, ast.IfExp):
            return self.eval(node.body) if self.test(node.test) else self.eval(node.orelse)
        if isinstance(node, ast.BinOp):
            a, b = self.eval(node.left), self.eval(node.right)
            if isinstance(node.op, ast.Add):
                return a + b
            if isinstance(node.op, ast.Sub):
                return a - b
            if isinstance(node.op, ast.Mult):
                return a * b
            if isinstance(node.op, ast.Div):
                return a * b.inverse()
            raise Undecided("operator %s" % type(node.op).__name__)
        if isinstance(node, ast.Subscript) and isinstance(node.slice, ast.Constant) and isinstance(node.slice.value, int) \
                and isinstance(node.value, (ast.Tuple, ast.List)) and 0 <= node.slice.value < len(node.value.elts):
            return self.eval(node.value.elts[node.slice.value])
        if isinstance(node, ast.Subscript) and isinstance(node.slice, ast.Constant) and isinstance(node.slice.value, int) \
                and isinstance(node.value, ast.Call) and self._call_name(node.value) == "clip" and node.value.args \
                and isinstance(node.value.args[0], (ast.Tuple, ast.List)) and 0 <= node.slice.value < len(node.value.args[0].elts):
            # np.clip((a, b), lo, hi)[k] = clip(k-th element)
            c = node.value
            one = ast.Call(func=c.func, args=[c.args[0].elts[node.slice.value]] + list(c.args[1:]), keywords=c.keywords)
            ast.copy_location(one, c)
            return self.eval(one)
        if isinstance(node, ast.Call) and self._call_name(node) == "clip" and not node.keywords:
            args = self._star_args(node.args, 3)
            if args is not None and len(args) == 3:
                x, lo, hi = (self.eval(a) for a in args)
                # clip(x, lo, hi) = min(max(x, lo), hi)
                m = x if self.compare(">=", x, lo) else lo
                return m if self.compare("<=", m, hi) else hi
        if isinstance(node, ast.Call) and isinstance(node.func, ast.Name) and node.func.id in ("int", "float") and len(node.args) == 1 and not node.keywords \
                and self.sym_of(node.args[0]) is not None:
            # int(R[i]) of an element that already is an integer level index / a float of a symbol: the same value
            return self.eval(node.args[0])
        if isinstance(node, ast.Call):
            fn = node.func
            name = fn.id if isinstance(fn, ast.Name) else (fn.attr if isinstance(fn, ast.Attribute) else None)
            if name in ("sum", "fsum") and len(node.args) == 1 and isinstance(node.args[0], ast.Name) \
                    and isinstance(self.env.get(node.args[0].id), ListVal):
                tot = Poly.const(0)
                for v in self.env[node.args[0].id].items:
                    tot = tot + v
                return tot
            if name in ("min", "max", "minimum", "maximum") and len(node.args) == 2 and not node.keywords:
                a, b = self.eval(node.args[0]), self.eval(node.args[1])
                lt = self.compare("<", a, b)
                if name in ("min", "minimum"):
                    return a if lt else b
                return b if lt else a
            if self.apply is not None:
                args = []
                for x in node.args:
                    try:
                        args.append(self.eval(x))
                    except Undecided:
                        args.append(None)
                r = self.apply(node, args, self)
                if r is not None:
                    return r
            raise Undecided("call %s" % ast.unparse(node)[:60])
        raise Undecided("expression %s" % ast.unparse(node)[:60])

    @staticmethod
    def _call_name(c):
        fn = c.func
        return fn.id if isinstance(fn, ast.Name) else (fn.attr if isinstance(fn, ast.Attribute) else None)

    def _star_args(self, args, want):
        """Positional arguments with `*f(...)` expanded to f(...)[0], f(...)[1], ... so that there are `want` of them."""
        stars = [a for a in args if isinstance(a, ast.Starred)]
        if not stars:
            return list(args)
        if len(stars) != 1 or not isinstance(stars[0].value, ast.Call):
            return None
        n = want - (len(args) - 1)
        if n < 0:
            return None
        out = []
        for a in args:
            if isinstance(a, ast.Starred):
                for k in range(n):
                    sub = ast.Subscript(value=a.value, slice=ast.Constant(value=k), ctx=ast.Load())
                    ast.copy_location(sub, a.value)
                    ast.copy_location(sub.slice, a.value)
                    out.append(sub)
            else:
                out.append(a)
        return out

    def test(self, node):
        """Truth value of a boolean expression in this cell."""
        if isinstance(node, ast.UnaryOp) and isinstance(node.op, ast.Not):
            return not self.test(node.operand)
        if isinstance(node, ast.BoolOp):
            vals = [self.test(v) for v in node.values]
            return all(vals) if isinstance(node.op, ast.And) else any(vals)
        if isinstance(node, ast.Compare):
            left = self.eval(node.left)
            res = True
            for op, right in zip(node.ops, node.comparators):
                r = self.eval(right)
                o = {ast.Lt: "<", ast.Gt: ">", ast.LtE: "<=", ast.GtE: ">=", ast.Eq: "==", ast.NotEq: "!="}.get(type(op))
                if o is None:
                    raise Undecided("comparison operator")
                res = res and self.compare(o, left, r)
                left = r
            return res
        if isinstance(node, ast.Constant):
            return bool(node.value)
        if isinstance(node, ast.Call) and self._call_name(node) in ("isclose", "allclose") and len(node.args) >= 2:
            # a tolerance comparison: its exact part is equality; that it can also hold for distinct values is recorded
            # for the rule that owns the function (a cell model has no "nearly equal" ordering)
            self.tolerance_tests = getattr(self, "tolerance_tests", []) + [node]
            return self.compare("==", self.eval(node.args[0]), self.eval(node.args[1]))
        raise Undecided("test %s" % ast.unparse(node)[:60])


def _cmp(op, a, b):
    return {"<": a < b, ">": a > b, "<=": a <= b, ">=": a >= b, "==": a == b, "!=": a != b}[op]


class Returned(Exception):
    def __init__(self, value):
        self.value = value


class Raised(Exception):
    """The interpreted body reaches a `raise` in this cell."""


class CellExec:
    """Execute a straight-line / if / return function body in one cell."""

    def __init__(self, ev, on_assign_call=None):
        self.ev = ev
        self.on_assign_call = on_assign_call
        self.asserts = []

    def run(self, stmts):
        try:
            self._block(stmts)
        except Returned as r:
            return r.value
        return None

    def _block(self, stmts):
        ev = self.ev
        for st in stmts:
            if isinstance(st, ast.Expr) and isinstance(st.value, ast.Constant):
                continue  # docstring
            if isinstance(st, ast.Return):
                raise Returned(ev.eval(st.value) if st.value is not None else None)
            if isinstance(st, ast.If):
                self._block(st.body if ev.test(st.test) else st.orelse)
            elif isinstance(st, ast.Assert):
                self.asserts.append((st, ev.test(st.test)))
            elif isinstance(st, ast.Assign) and len(st.targets) == 1 and isinstance(st.targets[0], ast.Name) \
                    and isinstance(st.value, (ast.List, ast.Tuple)):
                ev.env[st.targets[0].id] = ListVal([ev.eval(e) for e in st.value.elts])
            elif isinstance(st, ast.Expr) and isinstance(st.value, ast.Call) and isinstance(st.value.func, ast.Attribute) \
                    and st.value.func.attr == "append" and isinstance(st.value.func.value, ast.Name) \
                    and isinstance(ev.env.get(st.value.func.value.id), ListVal) and len(st.value.args) == 1:
                ev.env[st.value.func.value.id].items.append(ev.eval(st.value.args[0]))
            elif isinstance(st, ast.For) and isinstance(st.iter, ast.Name) and isinstance(ev.env.get(st.iter.id), ListVal) \
                    and isinstance(st.target, ast.Name) and not st.orelse:
                for v in list(ev.env[st.iter.id].items):
                    ev.env[st.target.id] = v
                    self._block(st.body)
            elif isinstance(st, ast.Assign) and len(st.targets) == 1 and isinstance(st.targets[0], ast.Subscript) \
                    and isinstance(st.targets[0].value, ast.Name) and st.targets[0].value.id in ev.env \
                    and isinstance(st.targets[0].slice, (ast.Compare, ast.BoolOp, ast.UnaryOp)):
                # masked store  X[<test on X>] = V : in a cell X stands for one element, so X := V where the test holds
                name = st.targets[0].value.id
                if ev.test(st.targets[0].slice):
                    ev.env[name] = ev.eval(st.value)
            elif isinstance(st, ast.Assign) and len(st.targets) == 1:
                tg = st.targets[0]
                if isinstance(tg, ast.Name):
                    ev.env[tg.id] = ev.eval(st.value)
                elif isinstance(tg, ast.Tuple) and all(isinstance(t_, ast.Name) for t_ in tg.elts):
                    vals = self.on_assign_call(st, ev) if self.on_assign_call is not None else None
                    if vals is None and isinstance(st.value, ast.Call):
                        # a, b = f(...): element k of the call's result (the evaluator decides what f(...)[k] is)
                        vals = []
                        for k_ in range(len(tg.elts)):
                            sub = ast.Subscript(value=st.value, slice=ast.Constant(value=k_), ctx=ast.Load())
                            ast.copy_location(sub, st.value)
                            ast.copy_location(sub.slice, st.value)
                            try:
                                vals.append(ev.eval(sub))
                            except Undecided:
                                vals.append(None)
                    if vals is None or len(vals) != len(tg.elts):
                        raise Undecided("tuple assignment %s" % ast.unparse(st)[:60])
                    for t_, v_ in zip(tg.elts, vals):
                        if v_ is None:
                            ev.env.pop(t_.id, None)
                        else:
                            ev.env[t_.id] = v_
                else:
                    raise Undecided("assignment %s" % ast.unparse(st)[:60])
            elif isinstance(st, ast.AugAssign) and isinstance(st.target, ast.Name):
                cur = ev.env.get(st.target.id)
                if cur is None:
                    raise Undecided("augmented assignment to unbound %s" % st.target.id)
                v = ev.eval(st.value)
                if isinstance(st.op, ast.Add):
                    ev.env[st.target.id] = cur + v
                elif isinstance(st.op, ast.Sub):
                    ev.env[st.target.id] = cur - v
                elif isinstance(st.op, ast.Mult):
                    ev.env[st.target.id] = cur * v
                else:
                    raise Undecided("augmented operator")
            elif isinstance(st, ast.Pass):
                continue
            elif isinstance(st, ast.Raise):
                raise Raised(ast.unparse(st)[:80])
            else:
                raise Undecided("statement %s" % type(st).__name__)
