"""E5 -- expression normal forms.

(b) Algebra: an expression is normalised to a polynomial
    { monomial : Fraction }, monomial = sorted tuple of (atom, exponent)
    with Fraction exponents.  Atoms are canonical strings: symbols,
    applications `f(canon args)`, subscripts, symbolic powers
    `pow(base;exp)` and non-expandable sums raised to non-natural powers.
    Used for Python, SQL and R expressions alike through a tiny common
    term language:
       ('num', Fraction) ('sym', name) ('add', a, b) ('sub', a, b)
       ('mul', a, b) ('div', a, b) ('neg', a) ('pow', a, b)
       ('call', fname, [args]) ('idx', base, index) ('opaque', text)
(a) Comparisons: `a OP b` -> (OP', canon(a - b)) with the sign fixed so
    that mirrored and negated forms coincide.
"""

import ast
from fractions import Fraction


class Poly:
    __slots__ = ("terms",)

    def __init__(self, terms=None):
        self.terms = {}
        if terms:
            for k, v in terms.items():
                if v != 0:
                    self.terms[k] = v

    # constructors
    @staticmethod
    def const(c):
        return Poly({(): Fraction(c)})

    @staticmethod
    def atom(name, exp=1):
        return Poly({((name, Fraction(exp)),): Fraction(1)})

    def is_const(self):
        return all(k == () for k in self.terms)

    def const_value(self):
        return self.terms.get((), Fraction(0))

    def const_or_none(self):
        """the value if the polynomial is a constant, else None"""
        return self.const_value() if self.is_const() else None

    def is_zero(self):
        return not self.terms

    def __add__(self, o):
        t = dict(self.terms)
        for k, v in o.terms.items():
            t[k] = t.get(k, 0) + v
        return Poly(t)

    def __neg__(self):
        return Poly({k: -v for k, v in self.terms.items()})

    def __sub__(self, o):
        return self + (-o)

    def __mul__(self, o):
        t = {}
        for k1, v1 in self.terms.items():
            for k2, v2 in o.terms.items():
                k = _mono_mul(k1, k2)
                t[k] = t.get(k, 0) + v1 * v2
        return Poly(t)

    def scale(self, c):
        return Poly({k: v * c for k, v in self.terms.items()})

    def single_term(self):
        if len(self.terms) == 1:
            return next(iter(self.terms.items()))
        return None

    def inverse(self):
        if not self.terms:
            raise ZeroDivisionError("inverse of the zero polynomial")
        st = self.single_term()
        if st is not None:
            k, v = st
            return Poly({tuple((a, -e) for a, e in k): 1 / v})
        lead, rest = self.factor_lead()
        return Poly({((rest.key(), Fraction(-1)),): 1 / lead})

    def factor_lead(self):
        """self = lead * rest with rest's leading coefficient 1."""
        k0 = min(self.terms, key=_mono_sort)
        lead = self.terms[k0]
        return lead, self.scale(1 / lead)

    def power(self, n):
        """n: Fraction."""
        if n.denominator == 1 and 0 <= n <= 6:
            r = Poly.const(1)
            for _ in range(int(n)):
                r = r * self
            return r
        st = self.single_term()
        if st is not None:
            k, v = st
            if n.denominator == 1 or v == 1:
                return Poly(
                    {tuple((a, e * n) for a, e in k): v ** int(n) if n.denominator == 1 else Fraction(1)}
                )
        if n.denominator == 1 and n < 0:
            return self.power(-n).inverse()
        lead, rest = self.factor_lead()
        if lead == 1:
            return Poly({((rest.key(), n),): Fraction(1)})
        return Poly({((self.key(), n),): Fraction(1)})

    def key(self):
        """Canonical string."""
        if not self.terms:
            return "0"
        parts = []
        for k in sorted(self.terms, key=_mono_sort):
            c = self.terms[k]
            m = "*".join(
                a if e == 1 else "%s^%s" % (a, _fr(e)) for a, e in k
            )
            if not m:
                parts.append(_fr(c))
            elif c == 1:
                parts.append(m)
            elif c == -1:
                parts.append("-" + m)
            else:
                parts.append("%s*%s" % (_fr(c), m))
        return "(" + " + ".join(parts) + ")"

    def __eq__(self, o):
        return isinstance(o, Poly) and self.terms == o.terms

    def __hash__(self):
        return hash(self.key())

    def __repr__(self):
        return "Poly" + self.key()

    def subst(self, mapping):
        """Replace atoms by polynomials: {atom name: Poly}.  Exponents may be negative / symbolic (Poly.power handles them)."""
        out = Poly.const(0)
        for mono, c in self.terms.items():
            t = Poly.const(c)
            for atom, ex in mono:
                t = t * (mapping[atom] if atom in mapping else Poly.atom(atom)).power(ex)
            out = out + t
        return out

    def atoms(self):
        out = set()
        for k in self.terms:
            for a, _ in k:
                out.add(a)
        return out

    def coeff_of_atom(self, atom):
        """Coefficient polynomial of atom^1 (terms where atom has exp 1)."""
        t = {}
        for k, v in self.terms.items():
            d = dict(k)
            if d.get(atom) == 1:
                kk = tuple(x for x in k if x[0] != atom)
                t[kk] = t.get(kk, 0) + v
        return Poly(t)

    def without_atom(self, atom):
        return Poly(
            {k: v for k, v in self.terms.items() if atom not in dict(k)}
        )


def _fr(f):
    f = Fraction(f)
    return str(f.numerator) if f.denominator == 1 else "%d/%d" % (f.numerator, f.denominator)


def _mono_sort(k):
    return (len(k), tuple((a, float(e)) for a, e in k))


def _mono_mul(k1, k2):
    d = {}
    for a, e in k1 + k2:
        d[a] = d.get(a, 0) + e
    return tuple(sorted((a, e) for a, e in d.items() if e != 0))


def num_fraction(text):
    """Exact decimal reading of a numeric literal."""
    if isinstance(text, (int,)):
        return Fraction(text)
    if isinstance(text, float):
        return Fraction(repr(text))
    return Fraction(str(text))


def to_poly(t, symmap=None):
    """Term language -> Poly.  symmap renames symbols."""
    k = t[0]
    if k == "num":
        return Poly.const(t[1])
    if k == "sym":
        name = t[1]
        if symmap and name in symmap:
            v = symmap[name]
            if isinstance(v, tuple):
                return to_poly(v, symmap)
            name = v
        return Poly.atom(name)
    if k == "opaque":
        return Poly.atom("<%s>" % t[1])
    if k == "add":
        return to_poly(t[1], symmap) + to_poly(t[2], symmap)
    if k == "sub":
        return to_poly(t[1], symmap) - to_poly(t[2], symmap)
    if k == "neg":
        return -to_poly(t[1], symmap)
    if k == "mul":
        return to_poly(t[1], symmap) * to_poly(t[2], symmap)
    if k == "div":
        return to_poly(t[1], symmap) * to_poly(t[2], symmap).inverse()
    if k == "pow":
        base = to_poly(t[1], symmap)
        ex = to_poly(t[2], symmap)
        if ex.is_const():
            return base.power(ex.const_value())
        return Poly.atom("pow(%s;%s)" % (base.key(), ex.key()))
    if k == "call":
        args = ",".join(
            a if isinstance(a, str) else to_poly(a, symmap).key() for a in t[2]
        )
        return Poly.atom("%s(%s)" % (t[1], args))
    if k == "idx":
        b = to_poly(t[1], symmap).key()
        i = t[2] if isinstance(t[2], str) else to_poly(t[2], symmap).key()
        return Poly.atom("%s[%s]" % (b, i))
    raise ValueError("unknown term %r" % (t,))


# ---------------------------------------------------------------------
# Python AST -> term language


class NotAlgebraic(Exception):
    pass


def py_term(node, resolve=None, callname=None, depth=0):
    """Translate a Python expression to the term language.

    resolve(name_node) -> ast expr or None : def-use expansion hook.
    callname(call_node) -> canonical function name or None.
    """
    if depth > 40:
        raise NotAlgebraic("expansion too deep")
    if isinstance(node, ast.Constant):
        if isinstance(node.value, bool) or node.value is None:
            return ("sym", repr(node.value))
        if isinstance(node.value, (int, float)):
            return ("num", num_fraction(node.value))
        return ("opaque", repr(node.value))
    if isinstance(node, ast.Name):
        if resolve is not None:
            v = resolve(node)
            if v is not None:
                return py_term(v, resolve, callname, depth + 1)
        return ("sym", node.id)
    if isinstance(node, ast.UnaryOp):
        if isinstance(node.op, ast.USub):
            return ("neg", py_term(node.operand, resolve, callname, depth + 1))
        if isinstance(node.op, ast.UAdd):
            return py_term(node.operand, resolve, callname, depth + 1)
        raise NotAlgebraic(ast.dump(node.op))
    if isinstance(node, ast.BinOp):
        a = py_term(node.left, resolve, callname, depth + 1)
        b = py_term(node.right, resolve, callname, depth + 1)
        op = {
            ast.Add: "add", ast.Sub: "sub", ast.Mult: "mul",
            ast.Div: "div", ast.Pow: "pow",
        }.get(type(node.op))
        if op is None:
            return (
                "call",
                type(node.op).__name__,
                [a, b],
            )
        return (op, a, b)
    if isinstance(node, ast.Attribute):
        from .source import dotted_name

        d = dotted_name(node)
        if d is not None:
            return ("sym", d)
        return ("call", "attr:" + node.attr, [py_term(node.value, resolve, callname, depth + 1)])
    if isinstance(node, ast.Subscript):
        base = py_term(node.value, resolve, callname, depth + 1)
        sl = node.slice
        if isinstance(sl, ast.Slice):
            def part(x):
                return "" if x is None else to_poly(py_term(x, resolve, callname, depth + 1)).key()
            idx = "%s:%s:%s" % (part(sl.lower), part(sl.upper), part(sl.step))
            return ("idx", base, idx)
        if isinstance(sl, ast.Tuple):
            return ("idx", base, ast.unparse(sl))
        return ("idx", base, py_term(sl, resolve, callname, depth + 1))
    if isinstance(node, ast.Call):
        name = None
        if callname is not None:
            name = callname(node)
        if name is None:
            from .source import dotted_name

            name = dotted_name(node.func) or ast.unparse(node.func)
        if name in ("float", "int") and len(node.args) == 1 and name == "float":
            return py_term(node.args[0], resolve, callname, depth + 1)
        # value-preserving numeric conversions: np.asarray(x), np.array(x[, dtype=float]), np.float64(x)
        if name.split(".")[-1] in ("asarray", "asanyarray", "array", "float64", "asfarray") and name.split(".")[0] in ("np", "numpy") \
                and len(node.args) == 1 and all(k.arg == "dtype" and ast.unparse(k.value).replace('"', "'") in ("float", "np.float64", "'float64'", "'float'", "numpy.float64")
                                                for k in node.keywords):
            return py_term(node.args[0], resolve, callname, depth + 1)
        args = [py_term(a, resolve, callname, depth + 1) for a in node.args]
        for kw in node.keywords:
            args.append(
                ("call", "kw:%s" % kw.arg, [py_term(kw.value, resolve, callname, depth + 1)])
            )
        return ("call", name, args)
    if isinstance(node, (ast.Tuple, ast.List)):
        return ("call", "tuple", [py_term(e, resolve, callname, depth + 1) for e in node.elts])
    raise NotAlgebraic(type(node).__name__)


def py_poly(node, resolve=None, callname=None, symmap=None):
    return to_poly(py_term(node, resolve, callname), symmap)


# ---------------------------------------------------------------------
# SQL expr -> term language


def sql_term(e, colname=None):
    k = e[0]
    if k == "num":
        return ("num", num_fraction(e[1].rstrip(".") if e[1].endswith(".") else e[1]))
    if k == "col":
        n = colname(e) if colname else None
        return ("sym", n or ((e[1] + "." if e[1] else "") + e[2]))
    if k == "param":
        return ("sym", "param:%s" % (e[1],))
    if k == "bin" and e[1] in ("+", "-", "*", "/"):
        op = {"+": "add", "-": "sub", "*": "mul", "/": "div"}[e[1]]
        return (op, sql_term(e[2], colname), sql_term(e[3], colname))
    if k == "un" and e[1] == "-":
        return ("neg", sql_term(e[2], colname))
    if k == "un" and e[1] == "+":
        return sql_term(e[2], colname)
    if k == "cast":
        # CAST to a floating type is value-preserving for our purposes
        return sql_term(e[1], colname)
    if k == "call":
        return ("call", e[1], [sql_term(a, colname) for a in e[2] if a[0] != "star"])
    raise NotAlgebraic("sql %r" % (e[0],))


def sql_poly(e, colname=None, symmap=None):
    return to_poly(sql_term(e, colname), symmap)


# ---------------------------------------------------------------------
# comparison normal form

_FLIP = {"<": ">", ">": "<", "<=": ">=", ">=": "<=", "==": "==", "!=": "!="}
_NEG = {"<": ">=", ">": "<=", "<=": ">", ">=": "<", "==": "!=", "!=": "=="}
_PYOP = {
    ast.Lt: "<", ast.Gt: ">", ast.LtE: "<=", ast.GtE: ">=",
    ast.Eq: "==", ast.NotEq: "!=",
}


def cmp_nf(op, left_poly, right_poly, negated=False):
    """Return (op, poly) meaning `poly OP 0`, canonical sign."""
    if negated:
        op = _NEG[op]
    p = left_poly - right_poly
    if p.is_zero():
        return (op, p)
    k0 = min(p.terms, key=_mono_sort)
    # choose the sign so that the first non-constant monomial (or the
    # constant, if alone) has a positive coefficient
    ks = sorted(p.terms, key=_mono_sort)
    lead = None
    for k in ks:
        if k != ():
            lead = k
            break
    if lead is None:
        lead = k0
    if p.terms[lead] < 0:
        p = -p
        op = _FLIP[op]
    return (op, p)


def py_compare(node, resolve=None, callname=None, symmap=None):
    """Normalise a Python comparison (possibly under `not`).
    Returns (op, Poly) or raises NotAlgebraic."""
    neg = False
    while isinstance(node, ast.UnaryOp) and isinstance(node.op, ast.Not):
        neg = not neg
        node = node.operand
    if not isinstance(node, ast.Compare) or len(node.ops) != 1:
        raise NotAlgebraic("not a simple comparison")
    op = _PYOP.get(type(node.ops[0]))
    if op is None:
        raise NotAlgebraic("operator")
    l = py_poly(node.left, resolve, callname, symmap)
    r = py_poly(node.comparators[0], resolve, callname, symmap)
    return cmp_nf(op, l, r, neg)
