"""Zero-expected rules over the SQL statements of a set of modules (none of these constructs exists on the
pinned tree; each rule keeps a positive control so that a rule that stopped matching fails the run).

conflict_clauses   every INSERT is a plain INSERT: `INSERT OR REPLACE / OR IGNORE`, `REPLACE INTO` resolve a key
                   conflict silently -- duplicate input rows are merged instead of refused, a second run of a step
                   keeps the rows of the first and reports success.
lossy_functions    a column that feeds the analysis (select list, ORDER BY, GROUP BY of a SELECT bound to Python
                   values) is not passed through a value-changing scalar function: ROUND, ABS, FLOOR, CEIL(ING),
                   TRUNC, SIGN, scalar MIN / MAX, IFNULL / COALESCE / NULLIF.  Columns of INTEGER type are exempt
                   (rounding an integer is the identity).
"""

import ast

from .report import where_of
from .sqlmodel import parse_one, walk_expr

LOSSY = {"ROUND", "ABS", "FLOOR", "CEIL", "CEILING", "TRUNC", "SIGN", "IFNULL", "COALESCE", "NULLIF"}


def _sites(ctx, modules):
    for modname in modules:
        m = ctx.repo.modules.get(modname)
        if m is None:
            continue
        for q, f in sorted(m.functions.items()):
            for s in ctx.sites_in(f):
                yield f, s


def conflict_clauses(ctx, chk, rule, modules, key_prefix, why):
    n = 0
    for f, s in _sites(ctx, modules):
        for st in s.statements:
            if st.kind != "insert":
                continue
            n += 1
            c = getattr(st, "conflict", None)
            if c in (None, "ABORT"):
                continue
            chk.ob(rule, False, where_of(f, s.call), "INSERT OR %s INTO %s: a key conflict is resolved silently (%s)" % (
                c, st.table, "the earlier row is replaced" if c == "REPLACE" else ("the new row is dropped" if c == "IGNORE" else "conflict handling changed")),
                "a plain INSERT: a duplicate key raises and the step is rolled back",
                key="%s|conflict|%s|%s" % (key_prefix, f.qualname, st.table), why=why)
    # positive control
    ctl = parse_one("INSERT OR REPLACE INTO t (a) VALUES (?)")
    if getattr(ctl, "conflict", None) != "REPLACE" or getattr(parse_one("INSERT OR IGNORE INTO t (a) VALUES (?)"), "conflict", None) != "IGNORE" \
            or getattr(parse_one("INSERT INTO t (a) VALUES (?)"), "conflict", "x") is not None:
        chk.errors.append("%s positive control (conflict clause) did not match" % rule)
    chk.count("%s INSERT statements read for a conflict clause" % key_prefix, n)
    return n


def parents_not_deleted(ctx, chk, rule, modules, children, key_prefix, why):
    """Rows that `children` tables reference by foreign key (transitively) are not deleted, nor their key columns updated,
    by a statement of `modules`, unless (a) the same function deletes every referencing child table before it, or
    (b) `PRAGMA foreign_keys = 1` is executed in the same function before it.  The command-line connections of every step
    but `load` run with SQLite's default (foreign keys not enforced), so a DELETE of a parent succeeds and leaves the
    children pointing at nothing.  Zero instances on the pinned tree; positive control."""
    sch = ctx.schema

    def ancestors(tabs):
        out, stack = set(), list(tabs)
        while stack:
            t = stack.pop()
            td = sch.tables.get(t)
            if td is None:
                continue
            for cols, rt, rcols in td.fks:
                if rt not in out:
                    out.add(rt)
                    stack.append(rt)
        return out

    def referencing(parent):
        return {t.name for t in sch.tables.values() if any(rt == parent for _c, rt, _r in t.fks)}

    prot = ancestors(set(children))
    n = 0
    for modname in modules:
        m = ctx.repo.modules.get(modname)
        if m is None:
            continue
        for q, f in sorted(m.functions.items()):
            sites = sorted(ctx.sites_in(f), key=lambda s_: s_.line)
            deleted_before = set()
            pragma_on = False
            for s in sites:
                for st in s.statements:
                    n += 1
                    if st.kind == "pragma" and "foreign_keys" in (s.sql_text or "").lower() and any(v in (s.sql_text or "").lower().replace(" ", "") for v in ("=1", "=on", "=true")):
                        pragma_on = True
                    if st.kind == "delete":
                        t = st.table
                        if t in prot and not pragma_on:
                            kids = {k for k in referencing(t) if k in set(children) | prot}
                            left = sorted(k for k in kids if k not in deleted_before and (k in children or k in prot))
                            # children that are themselves emptied earlier in this function are gone already
                            curve_left = [k for k in left if k in children or any(c in children for c in _descendants(sch, k))]
                            if curve_left:
                                chk.ob(rule, False, where_of(f, s.call), "DELETE FROM %s while rows of %s may reference it, on a connection where foreign keys are not enforced" % (t, ", ".join(curve_left)),
                                       "rows that a master-curve table references are never removed under it: foreign keys switched on for this connection, or the referencing rows removed first",
                                       key="%s|parent-deleted|%s|%s" % (key_prefix, q, t), why=why, local=True)
                        deleted_before.add(t)
    chk.count("%s statements read for deletes of referenced rows" % key_prefix, n)
    # positive control: zeta_interval is an ancestor of rising_interval in the schema
    if "zeta_interval" not in ancestors({"rising_interval", "recession_interval"}):
        chk.errors.append("%s positive control (foreign-key ancestors of the curve tables) did not match" % rule)
    return n


def _descendants(sch, parent):
    out, stack = set(), [parent]
    while stack:
        p = stack.pop()
        for t in sch.tables.values():
            if t.name not in out and any(rt == p for _c, rt, _r in t.fks):
                out.add(t.name)
                stack.append(t.name)
    return out


def _integer_only(ctx, sel, e):
    """Every column under e resolves to an INTEGER column of a base table."""
    cols = [x for x in walk_expr(e) if x[0] == "col"]
    if not cols:
        return False
    alias = {s.alias: s.table for s in sel.sources if s.table}
    for c in cols:
        cands = [alias.get(c[1], c[1])] if c[1] is not None else [t for t in alias.values()]
        ok = False
        for t in cands:
            tab = ctx.schema.tables.get(t)
            cd = tab.col(c[2]) if tab is not None else None
            if cd is not None:
                ok = cd.type_text.strip().upper().startswith("INT")
                break
        if not ok:
            return False
    return True


def lossy_functions(ctx, chk, rule, modules, key_prefix, why):
    n = 0
    for f, s in _sites(ctx, modules):
        for st in s.statements:
            if st.kind != "select":
                continue
            exprs = [e for e, _ in st.columns] + [e for e, _ in st.order_by] + list(st.group_by)
            for e in exprs:
                n += 1
                for x in walk_expr(e):
                    if x[0] == "call" and str(x[1]).upper() in LOSSY | {"MIN", "MAX"}:
                        name = str(x[1]).upper()
                        if name in ("MIN", "MAX") and len(x[2]) < 2:
                            continue          # the aggregate
                        if all(_integer_only(ctx, st, a) for a in x[2][:1]):
                            continue
                        from .sqlmodel import expr_str
                        chk.ob(rule, False, where_of(f, s.call), "the query passes a value through %s(...): %s" % (name, expr_str(e)[:70]),
                               "columns read for the analysis are the stored values (exact unit conversions and CAST only)",
                               key="%s|lossy|%s|%s" % (key_prefix, f.qualname, name), why=why)
    ctl = parse_one("SELECT ROUND(zeta_mm, 1) AS zeta_mm FROM v")
    if not any(x[0] == "call" and str(x[1]).upper() == "ROUND" for e, _ in ctl.columns for x in walk_expr(e)):
        chk.errors.append("%s positive control (lossy function) did not match" % rule)
    chk.count("%s select-list / ordering expressions read for value-changing functions" % key_prefix, n)
    return n
