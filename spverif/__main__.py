"""python -m spverif <property id> [--tier quick|thorough] [--replay path]

Exit codes: 0 all obligations pass (known findings printed);
1 at least one VIOLATION not listed as a known finding;
2 ANALYSIS-ERROR (anchor vanished, floor not met, internal error).
"""

import argparse
import importlib
import json
import os
import sys
import traceback

from . import report
from .source import AnalysisError

PROPS = [
    "C01", "C02", "C03", "C04", "C05", "C07", "C09", "C10", "C11", "C12",
    "C13", "C14", "C15", "C16", "C17", "C18", "C19", "C20",
]


def run_property(pid, tier="quick", overlay=None, write=True, out=print, root=None):
    from .ctx import Ctx

    seed = int(os.environ.get("VERIF_SEED", "0") or 0)
    chk = report.Check(pid, tier, seed)
    ctx = None
    try:
        mod = importlib.import_module("spverif.props.%s" % pid.lower())
        ctx = Ctx(overlay=overlay, root=root)
        chk.ctx = ctx
        mod.run(ctx, chk, tier=tier)
        if tier == "thorough" and overlay is None:
            if hasattr(mod, "thorough"):
                mod.thorough(ctx, chk)
            if not report.new_violations(chk) and not chk.errors:
                from . import selftest

                selftest.run(pid, ctx, chk)
    except AnalysisError as exc:
        chk.errors.append("analysis error: %s" % exc)
    except Exception as exc:  # noqa
        tb = traceback.format_exc().strip().splitlines()
        chk.errors.append("internal error: %r at %s" % (exc, " | ".join(tb[-3:])))
    code = report.finish(chk, repo=ctx.repo if ctx else None, write_evidence=write, out=out)
    return code, chk


def main(argv=None):
    ap = argparse.ArgumentParser(prog="spverif")
    ap.add_argument("property")
    ap.add_argument("--tier", default=os.environ.get("VERIF_TIER", "quick"),
                    choices=["quick", "thorough"])
    ap.add_argument("--replay")
    ap.add_argument("--no-evidence", action="store_true")
    args = ap.parse_args(argv)
    pid = args.property.upper()
    if pid == "ALL":
        worst = 0
        for p in PROPS:
            code, _ = run_property(p, args.tier, write=not args.no_evidence)
            worst = max(worst, code)
        return worst
    if pid not in PROPS:
        print("ANALYSIS-ERROR property=%s unknown or not claimed" % pid)
        return 2
    if args.replay:
        try:
            with open(args.replay) as fh:
                rec = json.load(fh)
        except Exception as exc:
            print("ANALYSIS-ERROR property=%s cannot read replay file: %s" % (pid, exc))
            return 2
        code, chk = run_property(pid, args.tier, write=False, out=lambda *_: None)
        hits = [v for v in chk.violations() if v.rule == rec.get("rule") and v.key == rec.get("key")]
        if hits:
            v = hits[0]
            print("%s:%s %s %s -- found: %s; required: %s" % (v.file, v.line, v.function, v.rule, v.found, v.required))
            print("VIOLATION property=%s replay=%s" % (pid, args.replay))
            return 1
        if chk.errors:
            for e in chk.errors:
                print("ANALYSIS-ERROR property=%s %s" % (pid, e))
            return 2
        print("replayed obligation %s [%s] no longer fails on the current tree" % (rec.get("rule"), rec.get("key")))
        return 0
    code, _ = run_property(pid, args.tier, write=not args.no_evidence)
    return code


if __name__ == "__main__":
    try:
        rc = main()
    except SystemExit:
        raise
    except BaseException as exc:  # noqa
        print("ANALYSIS-ERROR internal: %r" % (exc,))
        rc = 2
    sys.exit(rc)
