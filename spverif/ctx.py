"""Shared analysis context, built once per run from the current tree."""

import ast

from .callgraph import CallGraph
from .flow import Flow
from .source import AnalysisError, Repo, dotted_name
from .sqlmodel import Schema, load_schema, parse_sql, sql_sites


class Ctx:
    def __init__(self, overlay=None, root=None):
        self.repo = Repo(root=root, overlay=overlay)
        self.schema = load_schema(self.repo)
        self.sites = sql_sites(self.repo)
        self.cg = CallGraph(self.repo)
        self._sites_by_func = {}
        for s in self.sites:
            self._sites_by_func.setdefault(s.func.fq, []).append(s)
        # executescript(schema_file.read()) idiom: attach the schema
        for s in self.sites:
            if s.method == "executescript" and s.sql_text is None:
                s.statements = list(self.schema.statements)
                s.is_schema_script = True

    def flow(self, finfo):
        return Flow.of(finfo)

    def func(self, dotted):
        return self.repo.func(dotted)

    def sites_in(self, finfo):
        return self._sites_by_func.get(finfo.fq, [])

    def sites_in_tree(self, root_fq):
        out = []
        for fq in sorted(self.cg.reachable(root_fq)):
            out += self._sites_by_func.get(fq, [])
        return out

    def site_of_call(self, call):
        for s in self.sites:
            if s.call is call:
                return s
        return None

    def sites_writing(self, table, funcs=None):
        out = []
        for s in self.sites:
            for st in s.statements:
                if st.kind in ("insert", "update", "delete") and st.table == table:
                    if funcs is None or s.func.fq in funcs:
                        out.append(s)
        return out
