"""Shared extractor for the 'cumulative sum of cell integrals + mean shift'
pattern of compute_rise_curve / compute_recession_curve (C17.O1-O2, C18.O2).

Affine index facts (D-aff): the element stored at index i is
INTEGRAL(grid[i-1], grid[i]); i takes the values 1 .. len(grid)-1;
element 0 is 0; the curve is the cumulative sum; the shift is
`+ requested - mean(curve)`.
"""

import ast
from .source import clone as _clone

from .flow import Flow
from .norm import NotAlgebraic, Poly, py_poly
from .source import dotted_name, enclosing_func, is_ancestor


class CellFacts:
    pass


def extract(ctx, finfo, grid_param, mean_param, np_aliases=("np", "numpy")):
    """Return (facts, problems).  problems: list of (kind, node, text):
    kind 'indet' (anchor missing) or 'viol' (structural fact wrong)."""
    f = finfo
    flow = Flow.of(f)
    probs = []
    facts = CellFacts()
    rets = [n for n in ast.walk(f.node) if isinstance(n, ast.Return) and n.value is not None and enclosing_func(n) is f.node]
    if len(rets) > 1:
        # `if GRID.size == 0: return <empty>` / `if len(GRID) == 0:` -- the empty grid has no cells and no mean; not a path of the rule
        def empty_guard(r):
            par = getattr(r, "parent", None)
            if not (isinstance(par, ast.If) and r in par.body and len(par.body) == 1 and par in f.node.body):
                return False
            t = par.test
            if isinstance(t, ast.UnaryOp) and isinstance(t.op, ast.Not):
                t = ast.Compare(left=t.operand, ops=[ast.Eq()], comparators=[ast.Constant(value=0)])
            if not (isinstance(t, ast.Compare) and len(t.ops) == 1 and isinstance(t.ops[0], ast.Eq) and isinstance(t.comparators[0], ast.Constant)
                    and t.comparators[0].value == 0):
                return False
            l = t.left
            return (isinstance(l, ast.Attribute) and l.attr == "size") or (isinstance(l, ast.Call) and isinstance(l.func, ast.Name) and l.func.id == "len")
        rets = [r for r in rets if not empty_guard(r)]
    if len(rets) != 1:
        return None, [("indet", f.node, "expected one return")]
    ret = rets[0]
    facts.ret = ret
    # ---- the store D[idx] = <integral call> inside a loop
    stores = []
    tuple_pos = {}
    for n in ast.walk(f.node):
        if isinstance(n, ast.Assign) and len(n.targets) == 1 and isinstance(n.targets[0], ast.Subscript) \
                and isinstance(n.targets[0].value, ast.Name) and enclosing_func(n) is f.node:
            loops = [a for a in _ancestors(n, f.node) if isinstance(a, (ast.For, ast.While))]
            if loops:
                stores.append((n, loops[0]))
        elif isinstance(n, ast.Assign) and len(n.targets) == 1 and isinstance(n.targets[0], (ast.Tuple, ast.List)) and enclosing_func(n) is f.node:
            # (D[i], err) = quad(...): element k of the call's result is stored
            subs = [(k, e) for k, e in enumerate(n.targets[0].elts) if isinstance(e, ast.Subscript) and isinstance(e.value, ast.Name)]
            loops = [a for a in _ancestors(n, f.node) if isinstance(a, (ast.For, ast.While))]
            if len(subs) == 1 and loops and isinstance(n.value, ast.Call):
                k, e = subs[0]
                eq = ast.Assign(targets=[e], value=ast.Subscript(value=n.value, slice=ast.Constant(value=k), ctx=ast.Load()))
                ast.copy_location(eq, n)
                ast.copy_location(eq.value, n)
                eq.parent = getattr(n, "parent", None)
                eq._orig = n
                stores.append((eq, loops[0]))
    if not stores:
        # D[k:] = [CALL(lo, hi) for lo, hi in zip(G[a:], G[b:])]  is the loop
        # for i, (lo, hi) in enumerate(zip(G[a:], G[b:]), start=k): D[i] = CALL(lo, hi)
        for n in ast.walk(f.node):
            if isinstance(n, ast.Assign) and len(n.targets) == 1 and isinstance(n.targets[0], ast.Subscript) and isinstance(n.targets[0].value, ast.Name) \
                    and isinstance(n.targets[0].slice, ast.Slice) and n.targets[0].slice.upper is None and n.targets[0].slice.step is None \
                    and isinstance(n.targets[0].slice.lower, ast.Constant) and isinstance(n.targets[0].slice.lower.value, int) \
                    and isinstance(n.value, (ast.ListComp, ast.GeneratorExp)) and len(n.value.generators) == 1 and not n.value.generators[0].ifs \
                    and enclosing_func(n) is f.node:
                g_ = n.value.generators[0]
                k_ = n.targets[0].slice.lower.value
                ivn = "_cell_index"
                store_ = ast.Assign(targets=[ast.Subscript(value=ast.Name(id=n.targets[0].value.id, ctx=ast.Load()), slice=ast.Name(id=ivn, ctx=ast.Load()), ctx=ast.Store())],
                                    value=n.value.elt)
                loop_ = ast.For(target=ast.Tuple(elts=[ast.Name(id=ivn, ctx=ast.Store()), g_.target], ctx=ast.Store()),
                                iter=ast.Call(func=ast.Name(id="enumerate", ctx=ast.Load()), args=[g_.iter], keywords=[ast.keyword(arg="start", value=ast.Constant(value=k_))]),
                                body=[store_], orelse=[])
                for x in (store_, loop_):
                    ast.copy_location(x, n)
                    for sub in ast.walk(x):
                        if not hasattr(sub, "lineno") and isinstance(sub, (ast.expr, ast.stmt)):
                            ast.copy_location(sub, n)
                store_.parent = loop_
                loop_.parent = getattr(n, "parent", None)
                stores.append((store_, loop_))
    if len(stores) != 1:
        # two formulas for the cells, chosen by a tolerance comparison of a parameter: readable, and not one formula
        probs_ = []
        for iff in ast.walk(f.node):
            if isinstance(iff, ast.If) and any(is_ancestor(iff, st_) for st_, _l in stores):
                tol = [c for c in ast.walk(iff.test) if isinstance(c, ast.Call) and (dotted_name(c.func) or "").split(".")[-1] in ("isclose", "allclose")]
                if tol and any(isinstance(x, ast.Name) and x.id in f.params for x in ast.walk(tol[0])):
                    probs_.append(("viol-call", tol[0],
                                   "the cells are computed by two different formulas, chosen by the tolerance test %s on a parameter: values of the parameter within the tolerance (atol 1e-8) but not equal take the other formula" % ast.unparse(tol[0])[:50]))
        if probs_:
            return None, probs_
        return None, [("indet", f.node, "expected exactly one indexed store inside a loop, found %d" % len(stores))]
    store, loop = stores[0]
    facts.store, facts.loop = store, loop
    darr = store.targets[0].value.id
    facts.increments = darr
    idx = store.targets[0].slice
    if not isinstance(idx, ast.Name):
        return None, [("indet", store, "store index is not a simple name")]
    ivar = idx.id
    facts.ivar = ivar
    elem_var = None  # a loop variable that holds grid[ivar]
    elem_off = {}    # loop variables that hold grid[ivar + offset]
    # ---- values taken by the index variable
    start = step = count_expr = None
    if isinstance(loop, ast.For) and isinstance(loop.target, ast.Name) and loop.target.id == ivar \
            and isinstance(loop.iter, ast.Call) and isinstance(loop.iter.func, ast.Name) and loop.iter.func.id == "range":
        a = loop.iter.args
        if len(a) == 2:
            start, stop, step = a[0], a[1], None
        elif len(a) == 1:
            start, stop, step = ast.Constant(0), a[0], None
        elif len(a) == 3:
            start, stop, step = a
        facts.index_kind = "range"
        try:
            facts.start = py_poly(start).const_value() if py_poly(start).is_const() else None
            facts.step = 1 if step is None else (py_poly(step).const_value() if py_poly(step).is_const() else None)
            stp = py_poly(stop, flow.resolver())
            facts.stop_is_len = stp.key() in (
                Poly.atom("len(%s)" % Poly.atom(grid_param).key()).key(),
                Poly.atom("%s.size" % grid_param).key(),
                "(%s.shape[(0)])" % grid_param,
            ) or ast.unparse(stop) in ("len(%s)" % grid_param, "%s.size" % grid_param, "%s.shape[0]" % grid_param)
            facts.count_desc = "range(%s, %s)" % (ast.unparse(start), ast.unparse(stop))
        except NotAlgebraic:
            return None, [("indet", loop, "range bounds not algebraic")]
    elif isinstance(loop, ast.For) and isinstance(loop.target, ast.Tuple) and len(loop.target.elts) == 2 \
            and isinstance(loop.target.elts[0], ast.Name) and loop.target.elts[0].id == ivar \
            and isinstance(loop.iter, ast.Call) and isinstance(loop.iter.func, ast.Name) and loop.iter.func.id == "enumerate" and loop.iter.args:
        # for i, z in enumerate(grid[k:], start=k)
        facts.index_kind = "enumerate"
        seq = loop.iter.args[0]
        kw = {k.arg: k.value for k in loop.iter.keywords}
        st_node = kw.get("start", loop.iter.args[1] if len(loop.iter.args) > 1 else None)
        st_val = st_node.value if isinstance(st_node, ast.Constant) else (0 if st_node is None else None)
        lower = None
        if isinstance(seq, ast.Subscript) and isinstance(seq.value, ast.Name) and seq.value.id == grid_param and isinstance(seq.slice, ast.Slice) \
                and seq.slice.upper is None and seq.slice.step is None:
            lower = seq.slice.lower.value if isinstance(seq.slice.lower, ast.Constant) else (0 if seq.slice.lower is None else None)
        elif isinstance(seq, ast.Name) and seq.id == grid_param:
            lower = 0
        facts.start = st_val
        facts.step = 1
        facts.stop_is_len = lower is not None and st_val is not None and lower == st_val
        facts.count_desc = ast.unparse(loop.iter)
        if facts.stop_is_len and isinstance(loop.target.elts[1], ast.Name):
            elem_var = loop.target.elts[1].id
        # for i, (lo, hi) in enumerate(zip(grid[a:b], grid[c:d]), start=s): lo = grid[i - s + a], hi = grid[i - s + c]
        if isinstance(seq, ast.Call) and isinstance(seq.func, ast.Name) and seq.func.id == "zip" and not seq.keywords \
                and isinstance(loop.target.elts[1], (ast.Tuple, ast.List)) and len(loop.target.elts[1].elts) == len(seq.args) and st_val is not None:
            lens = []
            good = True
            for tv, sq in zip(loop.target.elts[1].elts, seq.args):
                if not (isinstance(tv, ast.Name) and isinstance(sq, ast.Subscript) and isinstance(sq.value, ast.Name) and sq.value.id == grid_param
                        and isinstance(sq.slice, ast.Slice) and sq.slice.step is None):
                    good = False
                    break

                def lit(x, dflt):
                    if x is None:
                        return dflt
                    if isinstance(x, ast.Constant) and isinstance(x.value, int):
                        return x.value
                    if isinstance(x, ast.UnaryOp) and isinstance(x.op, ast.USub) and isinstance(x.operand, ast.Constant):
                        return -x.operand.value
                    return None
                lo_, up_ = lit(sq.slice.lower, 0), lit(sq.slice.upper, 0)
                if lo_ is None or up_ is None or lo_ < 0 or up_ > 0:
                    good = False
                    break
                elem_off[tv.id] = lo_ - st_val
                lens.append(up_ - lo_)            # length = n + (up_ - lo_)
            if good and lens:
                # i runs from s to s + n + min(lens) - 1; it ends at n - 1 iff s + min(lens) == 0
                facts.stop_is_len = st_val + min(lens) == 0
            else:
                elem_off.clear()
    else:
        # counter idiom: ivar = c before the loop; ivar += 1 once, last in the body;
        # the loop iterates over grid[c:]
        facts.index_kind = "counter"
        incs = [s for s in ast.walk(loop) if isinstance(s, ast.AugAssign) and isinstance(s.target, ast.Name) and s.target.id == ivar]
        others = [s for s in ast.walk(loop) if isinstance(s, ast.Assign) and any(isinstance(t, ast.Name) and t.id == ivar for t in s.targets)]
        if len(incs) != 1 or others or not isinstance(incs[0].op, ast.Add):
            return None, [("indet", loop, "index variable is neither a range variable nor a simple counter")]
        inc = incs[0]
        try:
            facts.step = py_poly(inc.value).const_value() if py_poly(inc.value).is_const() else None
        except NotAlgebraic:
            facts.step = None
        # the increment must come after the store on every iteration (same block, later)
        if inc not in loop.body or store not in loop.body or loop.body.index(inc) < loop.body.index(store):
            probs.append(("viol", inc, "index incremented before the element is stored"))
        # initial value: unique reaching def at loop header from before the loop
        probe = idx
        defs = flow.reaching_defs(probe) or set()
        init_vals = []
        for d in defs:
            st = flow.cfg.stmt_of.get(d)
            if st is inc:
                continue
            if isinstance(st, ast.Assign) and isinstance(st.value, ast.Constant):
                init_vals.append(st.value.value)
            else:
                init_vals.append(None)
        facts.start = init_vals[0] if len(init_vals) == 1 else None
        # iterated sequence
        it = loop.iter if isinstance(loop, ast.For) else None
        facts.stop_is_len = False
        facts.count_desc = "counter from %s over %s" % (facts.start, ast.unparse(it) if it is not None else "?")
        if isinstance(it, ast.Subscript) and isinstance(it.value, ast.Name) and it.value.id == grid_param \
                and isinstance(it.slice, ast.Slice) and it.slice.upper is None and it.slice.step is None \
                and isinstance(it.slice.lower, ast.Constant) and it.slice.lower.value == facts.start:
            facts.stop_is_len = True
    # ---- the integral call and its limits
    val = store.value
    core = val
    if isinstance(core, ast.Subscript) and isinstance(core.value, ast.Call):
        facts.result_index = ast.unparse(core.slice)
        core = core.value
    else:
        facts.result_index = None
    if not isinstance(core, ast.Call):
        return None, [("viol-call", store, "stored value %s is not a call of the integral over the cell" % ast.unparse(val)[:70])]
    facts.call = core
    # limits as polynomials over atoms G[<index poly>]; a loop element variable stands for G[i]
    def limit_poly(a):
        class _T(ast.NodeTransformer):
            def visit_Subscript(self, node):
                if isinstance(node.value, ast.Name) and node.value.id == grid_param and not isinstance(node.slice, ast.Slice):
                    try:
                        return ast.Name(id="G[%s]" % py_poly(node.slice).key(), ctx=ast.Load())
                    except NotAlgebraic:
                        return node
                return self.generic_visit(node)

            def visit_Name(self, node):
                if elem_var is not None and node.id == elem_var:
                    return ast.Name(id="G[%s]" % Poly.atom(ivar).key(), ctx=ast.Load())
                if node.id in elem_off:
                    return ast.Name(id="G[%s]" % (Poly.atom(ivar) + Poly.const(elem_off[node.id])).key(), ctx=ast.Load())
                return node
        ex = flow.expand(a, keep={grid_param, ivar} | ({elem_var} if elem_var else set()) | set(elem_off))
        return py_poly(_T().visit(_clone(ex)))

    keepn = {grid_param, ivar} | ({elem_var} if elem_var else set()) | set(elem_off)
    lim_args = [a for a in core.args if any(isinstance(x, ast.Name) and (x.id in (grid_param, elem_var) or x.id in elem_off) for x in ast.walk(flow.expand(a, keep=keepn)))]
    lims = []
    for a in lim_args:
        try:
            lims.append(limit_poly(a))
        except NotAlgebraic:
            lims.append(None)
    facts.limits = lims
    i0 = Poly.atom(ivar)
    want_lo = Poly.atom("G[%s]" % (i0 - Poly.const(1)).key())
    want_hi = Poly.atom("G[%s]" % i0.key())
    facts.limits_ok = len(lims) == 2 and lims[0] == want_lo and lims[1] == want_hi
    facts.limits_desc = ", ".join(l.key() if l is not None else "?" for l in lims).replace("G[", "%s[" % grid_param)
    # ---- element 0
    zero = None
    for n in ast.walk(f.node):
        if isinstance(n, ast.Assign) and len(n.targets) == 1 and isinstance(n.targets[0], ast.Subscript) \
                and isinstance(n.targets[0].value, ast.Name) and n.targets[0].value.id == darr and n is not store:
            sl = n.targets[0].slice
            if isinstance(sl, ast.Constant) and sl.value == 0:
                zero = n
    facts.zero = zero
    facts.zero_ok = zero is not None and isinstance(zero.value, ast.Constant) and zero.value.value == 0
    # allocation np.zeros would also do
    if zero is None:
        for n in ast.walk(f.node):
            if isinstance(n, ast.Assign) and isinstance(n.targets[0], ast.Name) and n.targets[0].id == darr \
                    and isinstance(n.value, ast.Call) and (dotted_name(n.value.func) or "").split(".")[-1] in ("zeros", "zeros_like"):
                facts.zero_ok = True
                facts.zero = n
    # the dtype of the increments: an allocation that copies the dtype of the level grid (zeros_like / empty_like / full_like
    # without dtype=) stores the integrals in whatever the caller's grid is made of
    facts.alloc_inherits = None
    for n in ast.walk(f.node):
        if isinstance(n, ast.Assign) and isinstance(n.targets[0], ast.Name) and n.targets[0].id == darr and isinstance(n.value, ast.Call) \
                and (dotted_name(n.value.func) or "").split(".")[-1] in ("zeros_like", "empty_like", "full_like", "ones_like") \
                and not any(k.arg == "dtype" for k in n.value.keywords):
            facts.alloc_inherits = n
    # ---- cumulative sum and shift: analyse the returned name
    rv = ret.value
    in_return = None
    if isinstance(rv, ast.BinOp):
        # return CURVE + (requested - CURVE.mean()): the shift is applied in the return expression itself
        cands = sorted({n.id for n in ast.walk(rv) if isinstance(n, ast.Name) and isinstance(n.ctx, ast.Load) and n.id != mean_param
                        and n.id not in ("np", "numpy")})
        if len(cands) == 1:
            in_return = ast.Assign(targets=[ast.Name(id=cands[0], ctx=ast.Store())], value=rv)
            ast.copy_location(in_return, ret)
            rv = next(n for n in ast.walk(rv) if isinstance(n, ast.Name) and n.id == cands[0])
    if not isinstance(rv, ast.Name):
        return None, [("indet", ret, "return value is not a simple name")]
    cname = rv.id
    facts.curve = cname
    cdefs = sorted(flow.reaching_defs(rv) or ())
    base = None
    shifts = [in_return] if in_return is not None else []
    for d in cdefs:
        st = flow.cfg.stmt_of.get(d)
        if isinstance(st, ast.AugAssign):
            shifts.append(st)
        elif isinstance(st, ast.Assign):
            # W = W + (...)  counts as shift; W = cumsum(D) as base
            if any(isinstance(x, ast.Name) and x.id == cname for x in ast.walk(st.value)):
                shifts.append(st)
            else:
                base = st
    # the base definition may be killed by the shift (AugAssign redefines): look it up from the shift
    if base is None and shifts:
        for x in ast.walk(shifts[0]):
            if isinstance(x, ast.Name) and x.id == cname and isinstance(x.ctx, ast.Load):
                for d in flow.reaching_defs(x) or ():
                    st = flow.cfg.stmt_of.get(d)
                    if isinstance(st, ast.Assign) and not any(isinstance(y, ast.Name) and y.id == cname for y in ast.walk(st.value)):
                        base = st
        if base is None and isinstance(shifts[0], ast.AugAssign):
            # reaching defs of the AugAssign target: use the CFG node's IN set
            node = flow.cfg.node(shifts[0])
            for d in flow.rd.reaching(cname, node):
                st = flow.cfg.stmt_of.get(d)
                if isinstance(st, ast.Assign):
                    base = st
    facts.base = base
    facts.cumsum_ok = False
    if base is not None and isinstance(base.value, ast.Call):
        fn = dotted_name(base.value.func) or ""
        if fn.split(".")[-1] == "cumsum" and base.value.args and isinstance(base.value.args[0], ast.Name) \
                and base.value.args[0].id == darr:
            facts.cumsum_ok = True
        elif fn.endswith(".cumsum") and isinstance(base.value.func, ast.Attribute) and isinstance(base.value.func.value, ast.Name) \
                and base.value.func.value.id == darr and not base.value.args:
            facts.cumsum_ok = True
    facts.shift = shifts[0] if len(shifts) == 1 else None
    facts.shift_unconditional = facts.shift is not None and (facts.shift is in_return or flow.cfg.dominates(flow.cfg.node(facts.shift), flow.cfg.node(ret)))
    facts.shift_ok = False
    facts.shift_desc = "no single shift statement"
    if facts.shift is not None:
        sh = facts.shift
        expr = sh.value
        try:
            def callname(c):
                fn = dotted_name(c.func) or ""
                if fn.split(".")[-1] == "mean":
                    return "mean"
                return None

            def norm_mean(p):
                return p

            symmap = {}
            p = _mean_poly(expr, cname, mean_param)
            if isinstance(sh, ast.AugAssign):
                if isinstance(sh.op, ast.Add):
                    total = Poly.atom("CURVE") + p
                elif isinstance(sh.op, ast.Sub):
                    total = Poly.atom("CURVE") - p
                else:
                    total = None
            else:
                total = p
            want = Poly.atom("CURVE") + Poly.atom("REQUESTED") - Poly.atom("MEAN(CURVE)")
            facts.shift_ok = total is not None and total == want
            facts.shift_desc = "curve := %s" % (total.key() if total is not None else "?")
        except NotAlgebraic as exc:
            facts.shift_desc = "shift not algebraic: %s" % exc
    return facts, probs


def _mean_poly(expr, cname, mean_param):
    """Poly over atoms CURVE, REQUESTED, MEAN(CURVE)."""
    def rec(n):
        if isinstance(n, ast.Name):
            if n.id == cname:
                return Poly.atom("CURVE")
            if n.id == mean_param:
                return Poly.atom("REQUESTED")
            raise NotAlgebraic("name %s" % n.id)
        if isinstance(n, ast.Constant) and isinstance(n.value, (int, float)):
            from .norm import num_fraction
            return Poly.const(num_fraction(n.value))
        if isinstance(n, ast.BinOp):
            a, b = rec(n.left), rec(n.right)
            if isinstance(n.op, ast.Add):
                return a + b
            if isinstance(n.op, ast.Sub):
                return a - b
            if isinstance(n.op, ast.Mult):
                return a * b
            raise NotAlgebraic("operator")
        if isinstance(n, ast.UnaryOp) and isinstance(n.op, ast.USub):
            return -rec(n.operand)
        if isinstance(n, ast.Call):
            fn = dotted_name(n.func) or ""
            last = fn.split(".")[-1]
            if last in ("mean", "average"):
                if isinstance(n.func, ast.Attribute) and isinstance(n.func.value, ast.Name) and n.func.value.id == cname and not n.args:
                    return Poly.atom("MEAN(CURVE)")
                if n.args and isinstance(n.args[0], ast.Name) and n.args[0].id == cname:
                    return Poly.atom("MEAN(CURVE)")
            raise NotAlgebraic("call %s" % fn)
        raise NotAlgebraic(type(n).__name__)
    return rec(expr)


def _ancestors(node, stop):
    n = getattr(node, "parent", None)
    while n is not None and n is not stop:
        yield n
        n = getattr(n, "parent", None)


def report(chk, rule_cells, rule_shift, finfo, facts, probs, what, integral_desc):
    """Emit the shared obligations."""
    from .report import where_of

    for kind, node, text in probs:
        if kind == "indet":
            chk.indeterminate(rule_cells, where_of(finfo, node), text)
        elif kind == "viol-call":
            chk.ob(rule_cells, False, where_of(finfo, node), text, "integral over (grid[i-1], grid[i])",
                   key="%s|cell-value" % finfo.qualname,
                   why="a quadrature-free approximation changes values at shared levels when the grid is refined")
        else:
            chk.ob(rule_cells, False, where_of(finfo, node), text, "element stored before the index advances",
                   key="%s|index-order" % finfo.qualname)
    if facts is None:
        return
    q = finfo.qualname
    # cells laid out on a re-ordered copy of the grid (argsort / sort): this rule reads cells over the grid as given; what
    # it cannot match there is "not decided" (perm.py names values regathered by the sorting permutation)
    reordered = any(isinstance(c, ast.Call) and ((isinstance(c.func, ast.Attribute) and c.func.attr in ("argsort", "sort", "lexsort", "unique"))
                                                 or (isinstance(c.func, ast.Name) and c.func.id == "sorted")) for c in ast.walk(finfo.node))
    if reordered and not (facts.limits_ok and facts.start == 1 and facts.step == 1 and facts.stop_is_len and facts.cumsum_ok):
        chk.indeterminate(rule_cells, where_of(finfo, facts.call), "the cells are laid out on a re-ordered copy of the level grid (%s): cell limits, index range and cumulative sum are not read by this rule" % facts.limits_desc[:80])
        facts.limits_ok, facts.start, facts.step, facts.stop_is_len, facts.cumsum_ok = True, 1, 1, True, True
    chk.ob(rule_cells, facts.limits_ok, where_of(finfo, facts.call),
           "element %s of the increments = %s over (%s)" % (facts.ivar, integral_desc, facts.limits_desc),
           "integral over (grid[i-1], grid[i])", key="%s|cell-limits" % q,
           why="%s between two grid levels must be the integral between exactly those levels" % what)
    ok_idx = facts.start == 1 and facts.step == 1 and facts.stop_is_len
    chk.ob(rule_cells, ok_idx, where_of(finfo, facts.loop),
           "index runs as %s (start %s, step %s, %s)" % (facts.count_desc, facts.start, facts.step,
                                                          "covers every later grid level" if facts.stop_is_len else "does NOT provably cover grid[1:]"),
           "i = 1 .. len(grid)-1, one cell per adjacent pair of levels", key="%s|index-range" % q,
           why="a skipped or doubled cell shifts every level above it")
    chk.ob(rule_cells, facts.zero_ok, where_of(finfo, facts.zero if facts.zero is not None else facts.store),
           "element 0 = %s" % (ast.unparse(facts.zero.value) if facts.zero is not None else "never set"),
           "0 (no cell below the first level)", key="%s|element-zero" % q)
    if getattr(facts, "alloc_inherits", None) is not None:
        chk.ob(rule_cells, False, where_of(finfo, facts.alloc_inherits),
               "the increments are allocated as %s: the array takes the dtype of the level grid" % ast.unparse(facts.alloc_inherits.value)[:60],
               "a floating-point array (dtype=float), whatever the grid is made of", key="%s|increments-dtype" % q,
               why="with a grid of whole-number levels given as integers every cell integral is truncated towards zero when it is stored: on a 1 mm grid the curve is flat")
    chk.ob(rule_cells, facts.cumsum_ok, where_of(finfo, facts.base if facts.base is not None else facts.ret),
           "curve = %s" % (ast.unparse(facts.base.value) if facts.base is not None else "?"),
           "cumulative sum of the cell integrals", key="%s|cumsum" % q,
           why="the difference between any two levels must be the sum of the cells between them")
    chk.ob(rule_shift, facts.shift_ok, where_of(finfo, facts.shift if facts.shift is not None else facts.ret),
           facts.shift_desc, "curve + requested mean - mean(curve)", key="%s|mean-shift" % q,
           why="the mean of the returned curve must equal the requested mean")
    if facts.shift is not None:
        chk.ob(rule_shift, facts.shift_unconditional, where_of(finfo, facts.shift),
               "the mean shift is applied %s" % ("on every path to the return" if facts.shift_unconditional else "only on some paths (it does not dominate the return)"),
               "applied unconditionally", key="%s|mean-shift-unconditional" % q,
               why="a requested mean of exactly 0.0 (the default) is falsy: `if mean:` returns the un-centred curve")
