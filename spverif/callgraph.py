"""E2 -- call graph over the spowtd package.

Resolution: bare names (same module, nested defs, from-imports), module
aliases (`classify_mod.f`), `self.method` / `cls.method` /
`Base.method(self, ..)`, constructors (-> `Class.__init__`), the
dict-dispatch idiom `{'k': f, ...}[key](...)`, and callables passed as
arguments (`quad(f, ..)`, `sorted(key=f)`): those become edges as well.
"""

import ast

from .source import dotted_name, enclosing_func


class CallGraph:
    def __init__(self, repo):
        self.repo = repo
        self.edges = {}  # fq -> set(fq)
        self.calls = {}  # fq -> list of (ast.Call, [callee fq])
        self.by_fq = {}
        for f in repo.all_funcs():
            self.by_fq[f.fq] = f
        for f in repo.all_funcs():
            self._scan(f)

    def _scan(self, f):
        out = set()
        calls = []
        for node in ast.walk(f.node):
            if isinstance(node, ast.Call):
                # belongs to innermost enclosing def
                if enclosing_func(node) is not f.node:
                    continue
                tg = self.resolve_callee(f, node.func)
                # callables passed as arguments
                for a in list(node.args) + [k.value for k in node.keywords]:
                    if isinstance(a, (ast.Name, ast.Attribute)):
                        for t in self.resolve_callee(f, a):
                            if t not in tg:
                                tg = tg + [t]
                calls.append((node, tg))
                out |= set(tg)
        self.edges[f.fq] = out
        self.calls[f.fq] = calls

    def resolve_callee(self, f, fn):
        repo = self.repo
        m = f.module
        if isinstance(fn, ast.Name):
            n = fn.id
            # nested def in the enclosing function chain
            q = f.qualname
            while True:
                cand = "%s.<locals>.%s" % (q, n)
                if cand in m.functions:
                    return ["%s.%s" % (m.name, cand)]
                if ".<locals>." in q:
                    q = q.rsplit(".<locals>.", 1)[0]
                else:
                    break
            if n in m.functions:
                return ["%s.%s" % (m.name, n)]
            if n in m.classes:
                return self._ctor(m, n)
            tgt = m.aliases.get(n)
            if tgt and tgt.startswith("spowtd."):
                parts = tgt.split(".")
                if len(parts) == 3 and parts[1] in repo.modules:
                    mm = repo.modules[parts[1]]
                    if parts[2] in mm.functions:
                        return ["%s.%s" % (mm.name, parts[2])]
                    if parts[2] in mm.classes:
                        return self._ctor(mm, parts[2])
            return []
        if isinstance(fn, ast.Attribute):
            d = dotted_name(fn)
            if d:
                head, _, rest = d.partition(".")
                tgt = m.aliases.get(head)
                if tgt and tgt.startswith("spowtd.") and tgt.count(".") == 1:
                    mm = repo.modules.get(tgt.split(".")[1])
                    if mm is not None:
                        if rest in mm.functions:
                            return ["%s.%s" % (mm.name, rest)]
                        if rest in mm.classes:
                            return self._ctor(mm, rest)
                        if "." in rest:
                            c, _, meth = rest.partition(".")
                            if c in mm.classes:
                                return self._method(mm, c, meth)
                if head in ("self", "cls") and f.cls is not None and "." not in rest:
                    return self._method(m, f.cls.name, rest)
                if head in m.classes and "." in d:
                    return self._method(m, head, rest)
            return []
        if isinstance(fn, ast.Subscript) and isinstance(fn.value, ast.Dict):
            out = []
            for v in fn.value.values:
                out += self.resolve_callee(f, v)
            return out
        if isinstance(fn, ast.Call):
            # e.g. {..}[k](**p) handled above; f()() not used
            return []
        return []

    def _ctor(self, m, cname):
        r = self._method(m, cname, "__init__")
        return r

    def _method(self, m, cname, meth):
        seen = set()
        stack = [(m, cname)]
        while stack:
            mm, cn = stack.pop()
            if (mm.name, cn) in seen:
                continue
            seen.add((mm.name, cn))
            q = "%s.%s" % (cn, meth)
            if q in mm.functions:
                return ["%s.%s" % (mm.name, q)]
            cls = mm.classes.get(cn)
            if cls is None:
                continue
            for b in cls.bases:
                bn = dotted_name(b)
                if bn and bn in mm.classes:
                    stack.append((mm, bn))
                elif bn and "." in bn:
                    head, _, rest = bn.partition(".")
                    tgt = mm.aliases.get(head)
                    if tgt and tgt.startswith("spowtd."):
                        m2 = self.repo.modules.get(tgt.split(".")[1])
                        if m2 is not None and rest in m2.classes:
                            stack.append((m2, rest))
        return []

    def reachable(self, root_fq):
        seen = set()
        stack = [root_fq]
        while stack:
            n = stack.pop()
            if n in seen:
                continue
            seen.add(n)
            stack.extend(self.edges.get(n, ()))
        return seen

    def func(self, fq):
        return self.by_fq[fq]
