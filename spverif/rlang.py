"""E9 -- R mini-parser: enough for spowtd/test/peatclsm_hydraulic_functions.R.

Produces a small AST:
  ('assign', target_expr, value_expr)
  ('for', var, iter_expr, [stmts])   ('if', cond, [then], [else])
  ('return', expr)   ('expr', expr)
Expressions:
  ('num', text) ('str', s) ('name', id) ('bool', b) ('na',)
  ('bin', op, l, r)  ('un', op, e)  ('call', fexpr, [(argname|None, expr)])
  ('index', base, [exprs])  ('dollar', base, name)
  ('function', [(param, default|None)], [stmts])
"""

import re

from .source import AnalysisError

_tok = re.compile(
    r"""
    (?P<ws>[ \t\r]+|\#[^\n]*)
  | (?P<nl>\n)
  | (?P<num>(?:\d+\.\d*|\.\d+|\d+)(?:[eE][+-]?\d+)?L?)
  | (?P<str>"(?:[^"\\]|\\.)*"|'(?:[^'\\]|\\.)*')
  | (?P<id>[A-Za-z.][A-Za-z0-9._]*)
  | (?P<op><-|<<-|->|<=|>=|==|!=|&&|\|\||%%|%/%|[-+*/^<>=!&|(){}\[\],;:$])
    """,
    re.X,
)


def tokenize(src):
    out = []
    pos = 0
    while pos < len(src):
        m = _tok.match(src, pos)
        if not m:
            raise AnalysisError("R tokenizer: bad input %r" % src[pos:pos + 20])
        pos = m.end()
        k = m.lastgroup
        if k == "ws":
            continue
        out.append((k, m.group(k)))
    out.append(("eof", ""))
    return out


BINPREC = {
    "||": 1, "|": 1, "&&": 2, "&": 2,
    "==": 4, "!=": 4, "<": 4, ">": 4, "<=": 4, ">=": 4,
    "+": 5, "-": 5, "*": 6, "/": 6, "%%": 6, "%/%": 6,
    ":": 8, "^": 10,
}


class RParser:
    def __init__(self, src):
        self.t = tokenize(src)
        self.i = 0
        self.depth = 0  # inside () or [] newlines are insignificant

    def peek(self):
        while self.depth > 0 and self.t[self.i][0] == "nl":
            self.i += 1
        return self.t[self.i]

    def take(self):
        tok = self.peek()
        self.i += 1
        return tok

    def at(self, v):
        return self.peek()[1] == v and self.peek()[0] in ("op", "id")

    def skip_nl(self):
        while self.t[self.i][0] == "nl" or self.t[self.i] == ("op", ";"):
            self.i += 1

    def expect(self, v):
        if not self.at(v):
            raise AnalysisError("R parser: expected %r, got %r" % (v, self.peek()))
        return self.take()

    def program(self):
        out = []
        self.skip_nl()
        while self.peek()[0] != "eof":
            out.append(self.statement())
            self.skip_nl()
        return out

    def block(self):
        if self.at("{"):
            self.take()
            saved = self.depth
            self.depth = 0
            out = []
            self.skip_nl()
            while not self.at("}"):
                out.append(self.statement())
                self.skip_nl()
            self.take()
            self.depth = saved
            return out
        return [self.statement()]

    def statement(self):
        if self.at("for"):
            self.take()
            self.expect("(")
            self.depth += 1
            var = self.take()[1]
            self.expect("in")
            it = self.expr(0)
            self.depth -= 1
            self.expect(")")
            self.skip_nl_soft()
            return ("for", var, it, self.block())
        if self.at("if"):
            self.take()
            self.expect("(")
            self.depth += 1
            c = self.expr(0)
            self.depth -= 1
            self.expect(")")
            self.skip_nl_soft()
            then = self.block()
            els = []
            save = self.i
            self.skip_nl()
            if self.at("else"):
                self.take()
                self.skip_nl_soft()
                els = self.block()
            else:
                self.i = save
            return ("if", c, then, els)
        e = self.expr(0)
        if self.peek()[1] in ("<-", "=", "<<-") and self.peek()[0] == "op":
            self.take()
            self.skip_nl_soft()
            v = self.expr(0)
            # chained assignment not used
            return ("assign", e, v)
        if e[0] == "call" and e[1] == ("name", "return") and len(e[2]) == 1:
            return ("return", e[2][0][1])
        return ("expr", e)

    def skip_nl_soft(self):
        while self.t[self.i][0] == "nl":
            self.i += 1

    def expr(self, minprec):
        left = self.unary()
        while True:
            tok = self.peek()
            if tok[0] == "op" and tok[1] in BINPREC and BINPREC[tok[1]] >= minprec:
                op = tok[1]
                prec = BINPREC[op]
                self.take()
                self.skip_nl_soft()
                # ^ is right associative
                right = self.expr(prec if op == "^" else prec + 1)
                left = ("bin", op, left, right)
            else:
                return left

    def unary(self):
        tok = self.peek()
        if tok == ("op", "-"):
            self.take()
            # unary minus binds weaker than ^ but stronger than * in R
            return ("un", "-", self.expr(7))
        if tok == ("op", "+"):
            self.take()
            return self.expr(7)
        if tok == ("op", "!"):
            self.take()
            return ("un", "!", self.expr(3))
        return self.postfix(self.primary())

    def primary(self):
        tok = self.take()
        if tok[0] == "num":
            return ("num", tok[1].rstrip("L"))
        if tok[0] == "str":
            return ("str", tok[1][1:-1])
        if tok == ("op", "("):
            self.depth += 1
            e = self.expr(0)
            self.depth -= 1
            self.expect(")")
            return e
        if tok[0] == "id":
            if tok[1] == "function":
                self.expect("(")
                self.depth += 1
                params = []
                while not self.at(")"):
                    p = self.take()[1]
                    d = None
                    if self.at("="):
                        self.take()
                        d = self.expr(0)
                    params.append((p, d))
                    if self.at(","):
                        self.take()
                self.depth -= 1
                self.expect(")")
                self.skip_nl_soft()
                saved = self.depth
                self.depth = 0
                body = self.block()
                self.depth = saved
                return ("function", params, body)
            if tok[1] in ("TRUE", "FALSE", "T", "F"):
                return ("bool", tok[1] in ("TRUE", "T"))
            if tok[1] in ("NA", "NULL", "NaN"):
                return ("na",)
            return ("name", tok[1])
        raise AnalysisError("R parser: unexpected token %r" % (tok,))

    def postfix(self, e):
        while True:
            if self.at("("):
                self.take()
                self.depth += 1
                args = []
                while not self.at(")"):
                    name = None
                    if self.peek()[0] == "id" and self.t[self.i + 1] == ("op", "="):
                        name = self.take()[1]
                        self.take()
                    args.append((name, self.expr(0)))
                    if self.at(","):
                        self.take()
                self.depth -= 1
                self.expect(")")
                e = ("call", e, args)
            elif self.at("["):
                self.take()
                self.depth += 1
                idx = []
                while not self.at("]"):
                    idx.append(self.expr(0))
                    if self.at(","):
                        self.take()
                self.depth -= 1
                self.expect("]")
                e = ("index", e, idx)
            elif self.at("$"):
                self.take()
                e = ("dollar", e, self.take()[1])
            else:
                return e


def parse_r(src):
    return RParser(src).program()


def functions(prog):
    """name -> ('function', params, body)"""
    out = {}
    for st in prog:
        if st[0] == "assign" and st[1][0] == "name" and st[2][0] == "function":
            out[st[1][1]] = st[2]
    return out


def toplevel_assignments(prog):
    out = {}
    for st in prog:
        if st[0] == "assign" and st[2][0] != "function":
            tgt = st[1]
            if tgt[0] == "name":
                out.setdefault(tgt[1], []).append(st[2])
            elif tgt[0] == "dollar" and tgt[1][0] == "name":
                out.setdefault("%s$%s" % (tgt[1][1], tgt[2]), []).append(st[2])
    return out
