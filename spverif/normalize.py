"""Semantics-preserving normal forms applied to every module's AST before analysis.

The rules of the property checks are written against the shapes of the code;
a refactoring that computes the same thing must not change a verdict.  Rather
than teach every rule every spelling, three rewrites bring the tree to one
spelling first (nodes keep their original positions, so reports still point at
the real lines):

  N1  single-use temporaries:   t = E ; S[t]   ->   S[E]
      when t is stored exactly once in its function (a plain `t = E`), loaded
      exactly once, the load is in the statement that immediately follows in
      the same block, not inside a nested scope or a loop header that is
      re-evaluated, and moving E there cannot reorder it against a call.
  N2  tests in negation normal form:   not (a or b) -> not a and not b,
      not not a -> a   (only where only truthiness is observed: tests of
      if / while / assert / conditional expressions), and
      `if not c: A else: B` -> `if c: B else: A`.
  N4  literals on the right:   'spline' == x -> x == 'spline',  0 < n -> n > 0,
      1 + i -> i + 1,  2 * k -> k * 2   (numeric literals only for + and *).
  N5  x[len(x) - k] -> x[-k]  (x a plain name, k a positive integer literal; the two
      differ only when len(x) < k, where one raises and the other wraps), and
      x[1:] - x[:-1] -> np.diff(x)  (x a plain name; numpy imported by the module).
  N6  calls of expression functions are unfolded:  a module-level function of the
      same module whose body is a single `return E` (no nested scope in E), called
      with call-free positional arguments, is replaced by E with the parameters
      substituted -- `_index_of(epoch, t)` reads as `np.argwhere(epoch == t)[0, 0]`.
  N7  calls of helpers the rules have never read (same-module functions / `self.` methods that are
      not in known_functions.json) are replaced by the helper's body, locals renamed, early returns
      turned into if / else -- when the call is the whole value of its statement.
  N8  plain aliases:  a = b  (both bound once)  ->  every use of a reads b.
  N9  f(a, *t) with t bound once to a tuple literal of stable elements -> f(a, e1, e2, ...).
  N10 L = [] ; for T in IT: L.append(E)  ->  L = [E for T in IT]  (single-statement body, loop variables unused afterwards).
  N11 after a helper was unfolded: 'text {}'.format('literal') and 'a' + 'b' of literals are folded
      (an SQL statement assembled from a literal table name becomes a literal statement again).
  N12 a, b = (x, y) -> a = x ; b = y  when no target occurs on the right.
  N13 literal tests: `if True: A else: B` -> A,  `x if False else y` -> y.
  N14 D = {'k': a, ...} used only as D['k'] with names / literals as values -> the values themselves.
  N17 a, b = (E(x) for x in cur.fetchone()) -> t = cur.fetchone() ; a = E(t[0]) ; b = E(t[1]).
  N16 x = A if C else B -> if C: x = A else: x = B ; return A if C else B -> if C: return A else: return B.
  N18 X = np.asarray(E) ; X op= F -> X = np.asarray(E) ; X = X op F  (value of a once-bound local array; aliasing is
      decided on the source as written, alias.py).
  N15 np.logical_and(A, B) -> A & B, np.logical_or -> |, np.logical_not(A) -> ~A  when A, B are comparisons.
  N3  keyword arguments that name the next positional parameter of a function
      of the repository become positional  (done by Repo once all modules are
      parsed).

SPVERIF_NO_NORMALIZE=1 switches all of this off (debugging only).
"""

import ast
from .source import clone as _clone
import os

OFF = os.environ.get("SPVERIF_NO_NORMALIZE") == "1"

SCOPES = (ast.Lambda, ast.ListComp, ast.GeneratorExp, ast.SetComp, ast.DictComp, ast.FunctionDef, ast.AsyncFunctionDef, ast.ClassDef)


# ------------------------------------------------------------------ N2
def _nnf(test, neg=False):
    """Truthiness-equivalent negation normal form of a test expression."""
    if isinstance(test, ast.UnaryOp) and isinstance(test.op, ast.Not):
        return _nnf(test.operand, not neg)
    if isinstance(test, ast.BoolOp):
        if not neg:
            test.values = [_nnf(v, False) for v in test.values]
            return test
        op = ast.Or() if isinstance(test.op, ast.And) else ast.And()
        new = ast.BoolOp(op=op, values=[_nnf(v, True) for v in test.values])
        return ast.copy_location(new, test)
    if neg:
        return ast.copy_location(ast.UnaryOp(op=ast.Not(), operand=test), test)
    return test


def _flatten_bool(e):
    if isinstance(e, ast.BoolOp):
        vals = []
        for v in e.values:
            v = _flatten_bool(v)
            if isinstance(v, ast.BoolOp) and type(v.op) is type(e.op):
                vals.extend(v.values)
            else:
                vals.append(v)
        e.values = vals
    return e


def normalize_tests(tree):
    n = 0
    for node in ast.walk(tree):
        if isinstance(node, (ast.If, ast.While, ast.Assert, ast.IfExp)):
            before = ast.dump(node.test)
            node.test = _flatten_bool(_nnf(node.test))
            if isinstance(node, (ast.If, ast.IfExp)) and isinstance(node.test, ast.UnaryOp) and isinstance(node.test.op, ast.Not):
                if isinstance(node, ast.IfExp):
                    node.test = node.test.operand
                    node.body, node.orelse = node.orelse, node.body
                elif node.orelse and not (len(node.orelse) == 1 and isinstance(node.orelse[0], ast.If)):
                    node.test = node.test.operand
                    node.body, node.orelse = node.orelse, node.body
            if ast.dump(node.test) != before:
                n += 1
    return n


# ------------------------------------------------------------------ N1
def _own_nodes(fnode):
    """Nodes of the function's own scope (nested scopes are entered only to
    see which names they capture)."""
    own, nested = [], []
    stack = list(ast.iter_child_nodes(fnode))
    while stack:
        n = stack.pop()
        if isinstance(n, SCOPES):
            nested.append(n)
            # default values / decorators / the first iterable belong to the enclosing scope,
            # but treating the whole construct as nested is the conservative choice
            continue
        own.append(n)
        stack.extend(ast.iter_child_nodes(n))
    return own, nested


def _eval_order(stmt):
    """Expression nodes of a simple statement in (approximate) evaluation order, post-order."""
    out = []

    def visit(n):
        if isinstance(n, SCOPES):
            out.append(n)
            return
        if isinstance(n, ast.Dict):
            for k, v in zip(n.keys, n.values):
                if k is not None:
                    visit(k)
                visit(v)
        else:
            for c in ast.iter_child_nodes(n):
                visit(c)
        out.append(n)

    if isinstance(stmt, ast.Assign):
        visit(stmt.value)
        for t in stmt.targets:
            visit(t)
    elif isinstance(stmt, ast.AugAssign):
        visit(stmt.target)
        visit(stmt.value)
    elif isinstance(stmt, ast.AnnAssign):
        if stmt.value is not None:
            visit(stmt.value)
        visit(stmt.target)
    elif isinstance(stmt, (ast.Expr, ast.Return)):
        if stmt.value is not None:
            visit(stmt.value)
    elif isinstance(stmt, ast.If):
        visit(stmt.test)
    elif isinstance(stmt, ast.For):
        visit(stmt.iter)
    elif isinstance(stmt, ast.Assert):
        visit(stmt.test)
    else:
        return None
    return out


def _has_call(n):
    return any(isinstance(x, (ast.Call, ast.Await, ast.Yield, ast.YieldFrom, ast.NamedExpr)) for x in ast.walk(n))


def _blocks(fnode):
    for n in ast.walk(fnode):
        for fld in ("body", "orelse", "finalbody"):
            b = getattr(n, fld, None)
            if isinstance(b, list) and b and isinstance(b[0], ast.stmt):
                yield b
        if isinstance(n, ast.Try):
            for h in n.handlers:
                yield h.body


def inline_temporaries(fnode):
    """N1 on one function; returns the number of temporaries inlined."""
    total = 0
    for _round in range(8):
        own, nested = _own_nodes(fnode)
        if any(isinstance(n, (ast.Global, ast.Nonlocal)) for n in own):
            return total
        stores, loads = {}, {}
        for n in own:
            if isinstance(n, ast.Name):
                (stores if isinstance(n.ctx, (ast.Store, ast.Del)) else loads).setdefault(n.id, []).append(n)
            elif isinstance(n, ast.ExceptHandler) and n.name:
                stores.setdefault(n.name, []).append(n)
            elif isinstance(n, ast.alias):
                stores.setdefault((n.asname or n.name).split(".")[0], []).append(n)
        captured = set()
        for s in nested:
            for x in ast.walk(s):
                if isinstance(x, ast.Name):
                    captured.add(x.id)
                elif isinstance(x, ast.arg):
                    captured.add(x.arg)
        params = {a.arg for a in fnode.args.posonlyargs + fnode.args.args + fnode.args.kwonlyargs}
        if fnode.args.vararg:
            params.add(fnode.args.vararg.arg)
        if fnode.args.kwarg:
            params.add(fnode.args.kwarg.arg)
        done = False
        for block in _blocks(fnode):
            for i in range(len(block) - 1):
                st, nxt = block[i], block[i + 1]
                if not (isinstance(st, ast.Assign) and len(st.targets) == 1 and isinstance(st.targets[0], ast.Name)):
                    continue
                t = st.targets[0].id
                if t in params or t in captured or len(stores.get(t, [])) != 1 or len(loads.get(t, [])) != 1:
                    continue
                if isinstance(st.value, (ast.Yield, ast.YieldFrom, ast.Await)):
                    continue
                use = loads[t][0]
                order = _eval_order(nxt)
                if order is None or not any(x is use for x in order):
                    continue
                # the value's own free names must not be rebound by the target statement before the use:
                # nothing in a simple statement binds before evaluating its expressions, except walrus (excluded by _has_call)
                k = next(j for j, x in enumerate(order) if x is use)
                before = order[:k]
                if _has_call(st.value) and any(isinstance(x, (ast.Call, ast.Await, ast.Yield, ast.YieldFrom, ast.NamedExpr) + SCOPES) for x in before):
                    continue
                # a use that is a *store context partner* (e.g. augmented target) cannot be replaced
                if not isinstance(use.ctx, ast.Load):
                    continue
                if not _replace(nxt, use, st.value):
                    continue
                del block[i]
                total += 1
                done = True
                break
            if done:
                break
        if not done:
            return total
    return total


def _replace(root, old, new):
    for p in ast.walk(root):
        for fld, val in ast.iter_fields(p):
            if val is old:
                setattr(p, fld, new)
                return True
            if isinstance(val, list):
                for j, x in enumerate(val):
                    if x is old:
                        val[j] = new
                        return True
    return False


_MIRROR = {ast.Gt: ast.Lt, ast.Lt: ast.Gt, ast.GtE: ast.LtE, ast.LtE: ast.GtE, ast.Eq: ast.Eq, ast.NotEq: ast.NotEq}


def _numlit(n):
    if isinstance(n, ast.UnaryOp) and isinstance(n.op, (ast.USub, ast.UAdd)):
        n = n.operand
    return isinstance(n, ast.Constant) and isinstance(n.value, (int, float)) and not isinstance(n.value, bool)


def literals_right(tree):
    n = 0
    for node in ast.walk(tree):
        if isinstance(node, ast.Compare) and len(node.ops) == 1 and type(node.ops[0]) in _MIRROR:
            l, r = node.left, node.comparators[0]
            if (isinstance(l, ast.Constant) or _numlit(l)) and not (isinstance(r, ast.Constant) or _numlit(r)):
                node.left, node.comparators[0] = r, l
                node.ops[0] = _MIRROR[type(node.ops[0])]()
                n += 1
        elif isinstance(node, ast.BinOp) and isinstance(node.op, (ast.Add, ast.Mult)) and _numlit(node.left) and not _numlit(node.right) \
                and not isinstance(node.right, (ast.List, ast.Tuple, ast.Constant, ast.JoinedStr)):
            node.left, node.right = node.right, node.left
            n += 1
    return n


def _posint(n):
    return isinstance(n, ast.Constant) and isinstance(n.value, int) and not isinstance(n.value, bool) and n.value > 0


def index_forms(tree):
    np_alias = None
    for st in tree.body:
        if isinstance(st, ast.Import):
            for a in st.names:
                if a.name == "numpy":
                    np_alias = a.asname or "numpy"
    n = 0
    for node in ast.walk(tree):
        if isinstance(node, ast.Subscript) and isinstance(node.value, ast.Name) and isinstance(node.slice, ast.BinOp) \
                and isinstance(node.slice.op, ast.Sub) and _posint(node.slice.right):
            l = node.slice.left
            if isinstance(l, ast.Call) and isinstance(l.func, ast.Name) and l.func.id == "len" and len(l.args) == 1 and not l.keywords \
                    and isinstance(l.args[0], ast.Name) and l.args[0].id == node.value.id:
                node.slice = ast.copy_location(ast.UnaryOp(op=ast.USub(), operand=node.slice.right), node.slice)
                n += 1
    if np_alias:
        for parent in ast.walk(tree):
            for fld, val in ast.iter_fields(parent):
                items = val if isinstance(val, list) else [val]
                for j, x in enumerate(items):
                    if isinstance(x, ast.BinOp) and isinstance(x.op, ast.Sub) and _is_tail(x.left) and _is_head(x.right) \
                            and x.left.value.id == x.right.value.id:
                        new = ast.Call(func=ast.Attribute(value=ast.Name(id=np_alias, ctx=ast.Load()), attr="diff", ctx=ast.Load()),
                                       args=[ast.Name(id=x.left.value.id, ctx=ast.Load())], keywords=[])
                        ast.copy_location(new, x)
                        for sub in ast.walk(new):
                            ast.copy_location(sub, x)
                        if isinstance(val, list):
                            val[j] = new
                        else:
                            setattr(parent, fld, new)
                        n += 1
    if np_alias:
        n += logical_functions(tree, np_alias)
    return n


def _is_tail(n):
    return isinstance(n, ast.Subscript) and isinstance(n.value, ast.Name) and isinstance(n.slice, ast.Slice) and n.slice.step is None \
        and isinstance(n.slice.lower, ast.Constant) and n.slice.lower.value == 1 and n.slice.upper is None


def _is_head(n):
    return isinstance(n, ast.Subscript) and isinstance(n.value, ast.Name) and isinstance(n.slice, ast.Slice) and n.slice.step is None \
        and n.slice.lower is None and isinstance(n.slice.upper, ast.UnaryOp) and isinstance(n.slice.upper.op, ast.USub) \
        and isinstance(n.slice.upper.operand, ast.Constant) and n.slice.upper.operand.value == 1


def propagate_aliases(fnode):
    """N8: `a = b` (plain names, each bound exactly once in the function, `a` not a parameter) --
    every use of `a` reads `b`, the assignment disappears.  Also elementwise for `(a, c) = (b, d)`."""
    total = 0
    for _round in range(6):
        own, nested = _own_nodes(fnode)
        if any(isinstance(n, (ast.Global, ast.Nonlocal)) for n in own):
            return total
        stores = {}
        for n in own:
            if isinstance(n, ast.Name) and isinstance(n.ctx, (ast.Store, ast.Del)):
                stores.setdefault(n.id, []).append(n)
            elif isinstance(n, ast.ExceptHandler) and n.name:
                stores.setdefault(n.name, []).append(n)
            elif isinstance(n, ast.alias):
                stores.setdefault((n.asname or n.name).split(".")[0], []).append(n)
        nested_stores = set()
        for sc in nested:
            for x in ast.walk(sc):
                if isinstance(x, ast.Name) and isinstance(x.ctx, ast.Store):
                    nested_stores.add(x.id)
                elif isinstance(x, ast.arg):
                    nested_stores.add(x.arg)
        params = {a.arg for a in fnode.args.posonlyargs + fnode.args.args + fnode.args.kwonlyargs}
        if fnode.args.vararg:
            params.add(fnode.args.vararg.arg)
        if fnode.args.kwarg:
            params.add(fnode.args.kwarg.arg)

        def once(nm):
            return len(stores.get(nm, [])) == 1 and nm not in params and nm not in nested_stores

        def source_ok(nm):
            # the source may be a parameter (never rebound) or a name bound once
            return nm not in nested_stores and ((nm in params and not stores.get(nm)) or (nm not in params and len(stores.get(nm, [])) == 1))

        done = False
        for block in _blocks(fnode):
            for i, st in enumerate(block):
                if not (isinstance(st, ast.Assign) and len(st.targets) == 1):
                    continue
                tg, val = st.targets[0], st.value
                pairs = None
                if isinstance(tg, ast.Name) and isinstance(val, ast.Name):
                    pairs = [(tg.id, val.id)]
                elif isinstance(tg, (ast.Tuple, ast.List)) and isinstance(val, (ast.Tuple, ast.List)) and len(tg.elts) == len(val.elts) \
                        and all(isinstance(e, ast.Name) for e in list(tg.elts) + list(val.elts)):
                    pairs = [(t.id, v.id) for t, v in zip(tg.elts, val.elts)]
                    if len({a for a, _ in pairs}) != len(pairs) or {a for a, _ in pairs} & {b for _, b in pairs}:
                        pairs = None
                if not pairs or not all(once(a) and source_ok(b) and a != b for a, b in pairs):
                    continue
                ren = dict(pairs)
                for x in ast.walk(fnode):
                    if isinstance(x, ast.Name) and isinstance(x.ctx, ast.Load) and x.id in ren:
                        x.id = ren[x.id]
                del block[i]
                if not block:
                    block.append(ast.Pass())
                total += 1
                done = True
                break
            if done:
                break
        if not done:
            return total
    return total


def propagate_subscript_aliases(fnode):
    """N8b: `a = P[k]` with P a parameter that is never rebound and never stored into (`P[..] = ..`), k a plain name bound
    exactly once, in the same block and before this statement, `a` bound exactly once, every use of `a` inside later
    statements of that block: `a` is another name for the object `P[k]` -- every use of `a` reads `P[k]`, the assignment
    disappears.  (The object is the same one, so in-place methods on `a` are in-place methods on `P[k]`.)"""
    total = 0
    COMPS_ = (ast.ListComp, ast.SetComp, ast.DictComp, ast.GeneratorExp)
    for _round in range(6):
        own, nested = _own_nodes(fnode)
        if any(isinstance(n, (ast.Global, ast.Nonlocal)) for n in own):
            return total
        stores = {}
        COMPS = (ast.ListComp, ast.SetComp, ast.DictComp, ast.GeneratorExp)

        inside = {}
        for c_ in ast.walk(fnode):
            if isinstance(c_, COMPS):
                for x_ in ast.walk(c_):
                    if x_ is not c_:
                        inside.setdefault(id(x_), []).append(c_)

        def comp_scopes(n):
            return inside.get(id(n), [])

        def comp_targets(c):
            return {x.id for g in c.generators for x in ast.walk(g.target) if isinstance(x, ast.Name)}
        for n in own:
            if isinstance(n, ast.Name) and isinstance(n.ctx, (ast.Store, ast.Del)):
                if comp_scopes(n):
                    continue          # a comprehension's own variable: its scope is the comprehension
                stores.setdefault(n.id, []).append(n)
            elif isinstance(n, ast.ExceptHandler) and n.name:
                stores.setdefault(n.name, []).append(n)
        nested_names, nested_stores = set(), set()
        for sc in nested:
            for x in ast.walk(sc):
                if isinstance(x, ast.Name):
                    nested_names.add(x.id)
                    if isinstance(x.ctx, ast.Store) and not isinstance(sc, COMPS_):
                        nested_stores.add(x.id)
                elif isinstance(x, ast.arg):
                    nested_names.add(x.arg)
                    nested_stores.add(x.arg)
        params = {a.arg for a in fnode.args.posonlyargs + fnode.args.args + fnode.args.kwonlyargs}
        sub_stored = {x.value.id for x in own if isinstance(x, ast.Subscript) and isinstance(x.ctx, (ast.Store, ast.Del)) and isinstance(x.value, ast.Name)}
        done = False
        for block in _blocks(fnode):
            for i, st in enumerate(block):
                if not (isinstance(st, ast.Assign) and len(st.targets) == 1 and isinstance(st.targets[0], ast.Name)):
                    continue
                a, v = st.targets[0].id, st.value
                if not (isinstance(v, ast.Subscript) and isinstance(v.value, ast.Name) and isinstance(v.slice, ast.Name)):
                    continue
                P, k = v.value.id, v.slice.id
                if P not in params or stores.get(P) or P in sub_stored or P in nested_stores:
                    continue
                a_nested = any(isinstance(x, ast.Name) and x.id == a for sc in nested
                               if not (isinstance(sc, COMPS_) and a in {y.id for g in sc.generators for y in ast.walk(g.target) if isinstance(y, ast.Name)})
                               for x in ast.walk(sc))
                if a in params or a_nested or len(stores.get(a, [])) != 1 or a in sub_stored:
                    continue
                if k in nested_stores or len(stores.get(k, [])) != (0 if k in params else 1):
                    continue
                if k not in params:
                    kst = stores[k][0]
                    # k is bound by an earlier statement of this very block (so once per cycle, before the alias)
                    if not any(any(x is kst for x in ast.walk(b)) for b in block[:i]) or any(isinstance(b, (ast.For, ast.While)) and any(x is kst for x in ast.walk(b)) for b in block[:i]):
                        continue
                later = set()
                for b in block[i + 1:]:
                    for x in ast.walk(b):
                        later.add(id(x))
                uses = [x for x in own if isinstance(x, ast.Name) and x.id == a and isinstance(x.ctx, ast.Load)
                        and not any(a in comp_targets(c) for c in comp_scopes(x))]
                if not uses or not all(id(u) in later for u in uses):
                    continue
                if any({a, k, P} & comp_targets(c) for u in uses for c in comp_scopes(u)):
                    continue
                for u in uses:
                    par = getattr(u, "parent", None)
                    new = ast.Subscript(value=ast.Name(id=P, ctx=ast.Load()), slice=ast.Name(id=k, ctx=ast.Load()), ctx=ast.Load())
                    ast.copy_location(new, u)
                    ast.copy_location(new.value, u)
                    ast.copy_location(new.slice, u)
                    _replace(fnode, u, new)
                del block[i]
                if not block:
                    block.append(ast.Pass())
                total += 1
                done = True
                break
            if done:
                break
        if not done:
            return total
    return total


def unroll_literal_loops(fnode):
    """N19: `for T in (E1, E2, ...): BODY` over a literal display of at most 6 elements whose elements are built from names,
    constants, attributes and displays of those (no calls, no subscripts), with a body that has no break / continue / return
    inside this loop, does not store to the target names nor to any name the elements mention: BODY with T := E1, then BODY
    with T := E2, ...  (The display is evaluated before the first cycle; with pure elements over names the body does not
    change, evaluating each element at its cycle gives the same values.)"""
    total = 0

    def pure(e):
        if isinstance(e, (ast.Name, ast.Constant)):
            return True
        if isinstance(e, ast.Attribute):
            return pure(e.value)
        if isinstance(e, (ast.Tuple, ast.List)):
            return all(pure(x) for x in e.elts)
        if isinstance(e, ast.Dict):
            return all(k is not None and pure(k) and pure(v) for k, v in zip(e.keys, e.values))
        if isinstance(e, ast.UnaryOp):
            return pure(e.operand)
        return False

    for _round in range(4):
        done = False
        for block in _blocks(fnode):
            for i, st in enumerate(block):
                if not (isinstance(st, ast.For) and not st.orelse and isinstance(st.iter, (ast.Tuple, ast.List)) and 1 <= len(st.iter.elts) <= 6):
                    continue
                tg = st.target
                names = [tg.id] if isinstance(tg, ast.Name) else ([e.id for e in tg.elts] if isinstance(tg, (ast.Tuple, ast.List)) and all(isinstance(e, ast.Name) for e in tg.elts) else None)
                if not names or len(set(names)) != len(names):
                    continue
                elts = st.iter.elts
                if not all(pure(e) for e in elts):
                    continue
                if isinstance(tg, (ast.Tuple, ast.List)) and not all(isinstance(e, (ast.Tuple, ast.List)) and len(e.elts) == len(names) for e in elts):
                    continue
                body_nodes = [x for b in st.body for x in ast.walk(b)]
                if any(isinstance(x, (ast.Break, ast.Continue, ast.Return, ast.FunctionDef, ast.AsyncFunctionDef, ast.Lambda, ast.ClassDef, ast.Global, ast.Nonlocal,
                                      ast.Yield, ast.YieldFrom)) for x in body_nodes):
                    continue
                mentioned = {x.id for e in elts for x in ast.walk(e) if isinstance(x, ast.Name)}
                stored = {x.id for x in body_nodes if isinstance(x, ast.Name) and isinstance(x.ctx, (ast.Store, ast.Del))}
                if stored & (set(names) | mentioned):
                    continue
                # the target names are not read after the loop
                after = [x for b in block[i + 1:] for x in ast.walk(b) if isinstance(x, ast.Name) and x.id in names and isinstance(x.ctx, ast.Load)]
                if after:
                    continue
                new_stmts = []
                for e in elts:
                    env = {names[0]: e} if isinstance(tg, ast.Name) else dict(zip(names, e.elts))
                    for b in st.body:
                        nb = _subst_stmt(_clone(b), env)
                        new_stmts.append(nb)
                block[i:i + 1] = new_stmts
                total += 1
                done = True
                break
            if done:
                break
        if not done:
            break
    return total


def _subst_stmt(stmt, env):
    class R(ast.NodeTransformer):
        def visit_Name(self, node):
            if isinstance(node.ctx, ast.Load) and node.id in env:
                return ast.copy_location(_clone(env[node.id]), node)
            return node
    out = R().visit(stmt)
    ast.fix_missing_locations(out)
    return out


def loops_to_comprehensions(fnode):
    """N10:  L = [] ; for T in IT: L.append(E)   ->   L = [E for T in IT]
    when the loop body is that one statement, L is not read in E / IT, and the loop variables are not used
    after the loop (a comprehension does not leak them)."""
    n = 0
    for block in list(_blocks(fnode)):
        i = 0
        while i + 1 < len(block):
            a, b = block[i], block[i + 1]
            if isinstance(a, ast.Assign) and len(a.targets) == 1 and isinstance(a.targets[0], ast.Name) and isinstance(a.value, ast.List) and not a.value.elts \
                    and isinstance(b, ast.For) and not b.orelse and len(b.body) == 1 and isinstance(b.body[0], ast.Expr) \
                    and isinstance(b.body[0].value, ast.Call) and isinstance(b.body[0].value.func, ast.Attribute) and b.body[0].value.func.attr == "append" \
                    and isinstance(b.body[0].value.func.value, ast.Name) and b.body[0].value.func.value.id == a.targets[0].id \
                    and len(b.body[0].value.args) == 1 and not b.body[0].value.keywords:
                L = a.targets[0].id
                E = b.body[0].value.args[0]
                tnames = {x.id for x in ast.walk(b.target) if isinstance(x, ast.Name)}
                uses_L = any(isinstance(x, ast.Name) and x.id == L for x in list(ast.walk(E)) + list(ast.walk(b.iter)))
                has_scope_or_yield = any(isinstance(x, (ast.Yield, ast.YieldFrom, ast.Await, ast.NamedExpr)) for x in list(ast.walk(E)) + list(ast.walk(b.iter)))
                leaked = False
                inside = {id(x) for x in ast.walk(b)}
                for x in ast.walk(fnode):
                    if isinstance(x, ast.Name) and x.id in tnames and id(x) not in inside:
                        leaked = True
                if not uses_L and not leaked and not has_scope_or_yield:
                    comp = ast.ListComp(elt=E, generators=[ast.comprehension(target=b.target, iter=b.iter, ifs=[], is_async=0)])
                    ast.copy_location(comp, b)
                    a.value = comp
                    del block[i + 1]
                    n += 1
                    continue
            i += 1
    # N10b: a one-statement append loop anywhere:  for T in IT: L.append(E)  ->  L += [E for T in IT]
    for block in list(_blocks(fnode)):
        for i, b in enumerate(block):
            if isinstance(b, ast.For) and not b.orelse and len(b.body) == 1 and isinstance(b.body[0], ast.Expr) \
                    and isinstance(b.body[0].value, ast.Call) and isinstance(b.body[0].value.func, ast.Attribute) and b.body[0].value.func.attr == "append" \
                    and isinstance(b.body[0].value.func.value, ast.Name) and len(b.body[0].value.args) == 1 and not b.body[0].value.keywords:
                L = b.body[0].value.func.value.id
                E = b.body[0].value.args[0]
                tnames = {x.id for x in ast.walk(b.target) if isinstance(x, ast.Name)}
                if L in tnames:
                    continue
                uses_L = any(isinstance(x, ast.Name) and x.id == L for x in list(ast.walk(E)) + list(ast.walk(b.iter)))
                bad = any(isinstance(x, (ast.Yield, ast.YieldFrom, ast.Await, ast.NamedExpr)) for x in list(ast.walk(E)) + list(ast.walk(b.iter)))
                inside = {id(x) for x in ast.walk(b)}
                leaked = any(isinstance(x, ast.Name) and x.id in tnames and id(x) not in inside for x in ast.walk(fnode))
                # L must be a plain local list: bound in this function by a list display / comprehension / list()
                is_list = False
                for x in ast.walk(fnode):
                    if isinstance(x, ast.Assign) and len(x.targets) == 1 and isinstance(x.targets[0], ast.Name) and x.targets[0].id == L \
                            and (isinstance(x.value, (ast.List, ast.ListComp)) or
                                 (isinstance(x.value, ast.Call) and isinstance(x.value.func, ast.Name) and x.value.func.id == "list")):
                        is_list = True
                if uses_L or bad or leaked or not is_list:
                    continue
                comp = ast.ListComp(elt=E, generators=[ast.comprehension(target=b.target, iter=b.iter, ifs=[], is_async=0)])
                ast.copy_location(comp, b)
                new = ast.AugAssign(target=ast.Name(id=L, ctx=ast.Store()), op=ast.Add(), value=comp)
                ast.copy_location(new, b)
                ast.copy_location(new.target, b)
                block[i] = new
                n += 1
    return n


def fold_constant_formats(tree):
    """N11: 'text {}'.format('lit', 3) with literal arguments only -> the formatted literal; also
    'a' + 'b' and 'a' 'b' concatenations of string literals."""
    n = 0
    for parent in ast.walk(tree):
        for fld, val in ast.iter_fields(parent):
            items = val if isinstance(val, list) else [val]
            for j, x in enumerate(items):
                new = None
                if isinstance(x, ast.Call) and isinstance(x.func, ast.Attribute) and x.func.attr == "format" and isinstance(x.func.value, ast.Constant) \
                        and isinstance(x.func.value.value, str) and (x.args or x.keywords) \
                        and all(isinstance(a, ast.Constant) and isinstance(a.value, (str, int)) and not isinstance(a.value, bool) for a in x.args) \
                        and all(k.arg is not None and isinstance(k.value, ast.Constant) and isinstance(k.value.value, (str, int)) and not isinstance(k.value.value, bool)
                                for k in x.keywords):
                    try:
                        txt = x.func.value.value.format(*[a.value for a in x.args], **{k.arg: k.value.value for k in x.keywords})
                        new = ast.copy_location(ast.Constant(value=txt), x)
                    except Exception:
                        new = None
                elif isinstance(x, ast.BinOp) and isinstance(x.op, ast.Add) and isinstance(x.left, ast.Constant) and isinstance(x.right, ast.Constant) \
                        and isinstance(x.left.value, str) and isinstance(x.right.value, str):
                    new = ast.copy_location(ast.Constant(value=x.left.value + x.right.value), x)
                if new is not None:
                    if isinstance(val, list):
                        val[j] = new
                    else:
                        setattr(parent, fld, new)
                    n += 1
    return n


def conditional_statements(fnode):
    """N16:  x = A if C else B  ->  if C: x = A else: x = B ;   return A if C else B  ->  if C: return A else: return B
    (whole value of the statement; a plain name as the target)."""
    n = 0
    for parent in ast.walk(fnode):
        for fld in ("body", "orelse", "finalbody"):
            blk = getattr(parent, fld, None)
            if not isinstance(blk, list):
                continue
            for j, st in enumerate(list(blk)):
                v = getattr(st, "value", None)
                if not isinstance(v, ast.IfExp):
                    continue
                if isinstance(st, ast.Assign) and len(st.targets) == 1 and isinstance(st.targets[0], ast.Name):
                    def mk(val):
                        a = ast.Assign(targets=[ast.Name(id=st.targets[0].id, ctx=ast.Store())], value=val)
                        return a
                elif isinstance(st, ast.Return):
                    def mk(val):
                        return ast.Return(value=val)
                else:
                    continue
                new = ast.If(test=v.test, body=[mk(v.body)], orelse=[mk(v.orelse)])
                for node in (new, new.body[0], new.orelse[0]):
                    ast.copy_location(node, st)
                    for sub in ast.iter_child_nodes(node):
                        if not hasattr(sub, "lineno"):
                            ast.copy_location(sub, st)
                blk[j] = new
                n += 1
    return n


_N17 = [0]


def unpack_comprehensions(fnode):
    """N17:  a, b = (E(x) for x in cur.fetchone())   ->   t = cur.fetchone() ; a = E(t[0]) ; b = E(t[1])
    (k plain names on the left, one generator without conditions over a plain loop variable; the number of targets
    fixes the length S must have, otherwise both forms raise)."""
    n = 0
    for parent in ast.walk(fnode):
        for fld in ("body", "orelse", "finalbody"):
            blk = getattr(parent, fld, None)
            if not isinstance(blk, list):
                continue
            j = 0
            while j < len(blk):
                st = blk[j]
                j += 1
                if not (isinstance(st, ast.Assign) and len(st.targets) == 1 and isinstance(st.targets[0], (ast.Tuple, ast.List))
                        and all(isinstance(t, ast.Name) for t in st.targets[0].elts) and len(st.targets[0].elts) >= 2):
                    continue
                v = st.value
                while isinstance(v, ast.Call) and isinstance(v.func, ast.Name) and v.func.id in ("tuple", "list") and len(v.args) == 1:
                    v = v.args[0]
                if not (isinstance(v, (ast.GeneratorExp, ast.ListComp)) and len(v.generators) == 1 and not v.generators[0].ifs
                        and isinstance(v.generators[0].target, ast.Name) and not v.generators[0].is_async):
                    continue
                g = v.generators[0]
                var = g.target.id
                if any(isinstance(x, SCOPES) for x in ast.walk(v.elt)):
                    continue
                # only over one fetched row (cursor.fetchone()): `zip(*rows)` column unpacking is an idiom the bindings read as it is
                if not (isinstance(g.iter, ast.Call) and isinstance(g.iter.func, ast.Attribute) and g.iter.func.attr == "fetchone"):
                    continue
                targets = [t.id for t in st.targets[0].elts]
                if any(isinstance(x, ast.Name) and x.id in targets for x in ast.walk(v.elt)) or any(isinstance(x, ast.Name) and x.id in targets for x in ast.walk(g.iter)):
                    continue
                new = []
                if isinstance(g.iter, ast.Name):
                    seq = g.iter.id
                else:
                    _N17[0] += 1
                    seq = "_n17_%d" % _N17[0]
                    a0 = ast.Assign(targets=[ast.Name(id=seq, ctx=ast.Store())], value=g.iter)
                    new.append(a0)
                for k, t in enumerate(targets):
                    elem = ast.Subscript(value=ast.Name(id=seq, ctx=ast.Load()), slice=ast.Constant(value=k), ctx=ast.Load())
                    val = _subst(_clone(v.elt), {var: elem})
                    new.append(ast.Assign(targets=[ast.Name(id=t, ctx=ast.Store())], value=val))
                for node in new:
                    ast.copy_location(node, st)
                    for sub in ast.walk(node):
                        if not hasattr(sub, "lineno"):
                            ast.copy_location(sub, st)
                blk[j - 1:j] = new
                j += len(new) - 1
                n += 1
    return n


def inplace_arithmetic(fnode):
    """N18:  X = np.asarray(E, ...) ; X op= F   ->   X = np.asarray(E, ...) ; X = X op F
    for a local bound once to a numpy array constructor / conversion and changed by one augmented assignment
    later in the same block.  The *value* of X is the same; whether the buffer that is changed in place belongs
    to the caller is decided on the source as written (alias.py), not on this normal form."""
    n = 0
    own, _nested = _own_nodes(fnode)
    stores = {}
    for x in own:
        if isinstance(x, ast.Name) and isinstance(x.ctx, (ast.Store, ast.Del)):
            stores.setdefault(x.id, []).append(x)
    for blk in _blocks(fnode):
        for i, st in enumerate(blk):
            if not (isinstance(st, ast.AugAssign) and isinstance(st.target, ast.Name)
                    and isinstance(st.op, (ast.Add, ast.Sub, ast.Mult, ast.Div))):
                continue
            x = st.target.id
            if len(stores.get(x, [])) != 2:
                continue
            first = [b for b in blk[:i] if isinstance(b, ast.Assign) and len(b.targets) == 1 and isinstance(b.targets[0], ast.Name) and b.targets[0].id == x]
            if len(first) != 1 or not isinstance(first[0].value, ast.Call):
                continue
            c = first[0].value
            fn = c.func
            last = fn.attr if isinstance(fn, ast.Attribute) else (fn.id if isinstance(fn, ast.Name) else "")
            if last not in ("asarray", "asanyarray", "array", "asfarray", "astype", "copy", "atleast_1d"):
                continue
            new = ast.Assign(targets=[ast.Name(id=x, ctx=ast.Store())],
                             value=ast.BinOp(left=ast.Name(id=x, ctx=ast.Load()), op=st.op, right=st.value))
            ast.copy_location(new, st)
            ast.fix_missing_locations(new)
            blk[i] = new
            n += 1
    return n


def fold_constant_tests(fnode):
    """N13: `if True: A else: B` -> A ;  `x if False else y` -> y  (literal tests, as they arise when a helper
    called with a literal flag is unfolded)."""
    n = 0

    def truth(t):
        if isinstance(t, ast.Constant) and isinstance(t.value, (bool, int, type(None))) and not isinstance(t.value, str):
            return bool(t.value)
        if isinstance(t, ast.UnaryOp) and isinstance(t.op, ast.Not):
            v = truth(t.operand)
            return None if v is None else (not v)
        return None

    for block in list(_blocks(fnode)):
        i = 0
        while i < len(block):
            st = block[i]
            if isinstance(st, ast.If):
                v = truth(st.test)
                if v is not None:
                    keep = st.body if v else st.orelse
                    block[i:i + 1] = keep if keep else [ast.copy_location(ast.Pass(), st)]
                    n += 1
                    continue
            i += 1
    for parent in ast.walk(fnode):
        for fld, val in ast.iter_fields(parent):
            items = val if isinstance(val, list) else [val]
            for j, x in enumerate(items):
                if isinstance(x, ast.IfExp):
                    v = truth(x.test)
                    if v is not None:
                        new = x.body if v else x.orelse
                        if isinstance(val, list):
                            val[j] = new
                        else:
                            setattr(parent, fld, new)
                        n += 1
    return n


def unpack_literal_dicts(fnode):
    """N14: D = {'k': a, ...} (bound once, never changed in place, used only as D['k']) with plain names /
    literals as values:  D['k'] -> a,  and the dict disappears."""
    own, nested = _own_nodes(fnode)
    stores, defs = {}, {}
    for n_ in own:
        if isinstance(n_, ast.Name) and isinstance(n_.ctx, (ast.Store, ast.Del)):
            stores[n_.id] = stores.get(n_.id, 0) + 1
        if isinstance(n_, ast.Assign) and len(n_.targets) == 1 and isinstance(n_.targets[0], ast.Name) and isinstance(n_.value, ast.Dict):
            defs[n_.targets[0].id] = n_
    captured = {x.id for sc in nested for x in ast.walk(sc) if isinstance(x, ast.Name)}
    params = {a.arg for a in fnode.args.posonlyargs + fnode.args.args + fnode.args.kwonlyargs}
    total = 0
    for name, st in list(defs.items()):
        d = st.value
        if stores.get(name) != 1 or name in captured or name in params:
            continue
        if not all(isinstance(k, ast.Constant) for k in d.keys) or len({k.value for k in d.keys}) != len(d.keys):
            continue
        if not all(isinstance(v, ast.Constant) or (isinstance(v, ast.Name) and ((v.id in params and not stores.get(v.id)) or stores.get(v.id) == 1)) for v in d.values):
            continue
        table = {k.value: v for k, v in zip(d.keys, d.values)}
        uses = [x for x in own if isinstance(x, ast.Name) and x.id == name and isinstance(x.ctx, ast.Load)]
        subs = []
        ok = True
        for u in uses:
            hit = None
            for p_ in own:
                if isinstance(p_, ast.Subscript) and p_.value is u and isinstance(p_.ctx, ast.Load) and isinstance(p_.slice, ast.Constant) and p_.slice.value in table:
                    hit = p_
            if hit is None:
                ok = False
                break
            subs.append(hit)
        if not ok or not subs:
            continue
        for sub in subs:
            _replace(fnode, sub, _clone(table[sub.slice.value]))
        for block in _blocks(fnode):
            if st in block:
                block.remove(st)
                if not block:
                    block.append(ast.Pass())
                break
        total += 1
    return total


def split_tuple_assignments(fnode):
    """N12: a, b = (x, y) -> a = x ; b = y   when no target name occurs in any right-hand element."""
    n = 0
    for block in list(_blocks(fnode)):
        i = 0
        while i < len(block):
            st = block[i]
            if isinstance(st, ast.Assign) and len(st.targets) == 1 and isinstance(st.targets[0], (ast.Tuple, ast.List)) \
                    and isinstance(st.value, (ast.Tuple, ast.List)) and len(st.targets[0].elts) == len(st.value.elts) \
                    and all(isinstance(t, ast.Name) for t in st.targets[0].elts) and not any(isinstance(v, ast.Starred) for v in st.value.elts):
                tn = {t.id for t in st.targets[0].elts}
                rn = {x.id for v in st.value.elts for x in ast.walk(v) if isinstance(x, ast.Name)}
                if len(tn) == len(st.targets[0].elts) and not (tn & rn):
                    news = []
                    for t, v in zip(st.targets[0].elts, st.value.elts):
                        a = ast.Assign(targets=[t], value=v)
                        ast.copy_location(a, st)
                        news.append(a)
                    block[i:i + 1] = news
                    n += 1
                    i += len(news)
                    continue
            i += 1
    return n


def expand_star_tuples(fnode):
    """N9: f(a, *t) with t bound once to a tuple / list literal of stable elements -> f(a, e1, e2, ...)."""
    own, nested = _own_nodes(fnode)
    stores, tdef = {}, {}
    attr_stores = set()
    for n in own:
        if isinstance(n, ast.Name) and isinstance(n.ctx, (ast.Store, ast.Del)):
            stores[n.id] = stores.get(n.id, 0) + 1
        if isinstance(n, ast.Attribute) and isinstance(n.ctx, (ast.Store, ast.Del)):
            attr_stores.add(ast.unparse(n))
        if isinstance(n, ast.Assign) and len(n.targets) == 1 and isinstance(n.targets[0], ast.Name) and isinstance(n.value, (ast.Tuple, ast.List)):
            tdef[n.targets[0].id] = n.value
    params = {a.arg for a in fnode.args.posonlyargs + fnode.args.args + fnode.args.kwonlyargs}

    def stable(e):
        if isinstance(e, ast.Constant):
            return True
        if isinstance(e, ast.Name):
            return (e.id in params and not stores.get(e.id)) or stores.get(e.id) == 1
        if isinstance(e, ast.Attribute):
            return ast.unparse(e) not in attr_stores and stable(e.value)
        return False

    n = 0
    for c in own:
        if isinstance(c, ast.Call) and any(isinstance(a, ast.Starred) for a in c.args):
            new = []
            ok = True
            for a in c.args:
                if isinstance(a, ast.Starred):
                    t = a.value
                    if isinstance(t, ast.Name) and stores.get(t.id) == 1 and t.id in tdef and not isinstance(tdef[t.id], ast.List) \
                            and all(stable(e) for e in tdef[t.id].elts):
                        new.extend(_clone(e) for e in tdef[t.id].elts)
                    else:
                        ok = False
                        break
                else:
                    new.append(a)
            if ok:
                c.args = new
                n += 1
    return n


def _boolean_valued(e):
    """Comparisons and &, |, ~ of comparisons: elementwise boolean whatever the operands are."""
    if isinstance(e, ast.Compare):
        return True
    if isinstance(e, ast.BinOp) and isinstance(e.op, (ast.BitAnd, ast.BitOr)):
        return _boolean_valued(e.left) and _boolean_valued(e.right)
    if isinstance(e, ast.UnaryOp) and isinstance(e.op, ast.Invert):
        return _boolean_valued(e.operand)
    return False


def logical_functions(tree, np_alias):
    """N15: np.logical_and(A, B) -> A & B, np.logical_or(A, B) -> A | B, np.logical_not(A) -> ~A
    when A and B are comparisons (or such combinations of comparisons): on booleans they are the same function."""
    n = 0
    changed = True
    while changed:
        changed = False
        for parent in ast.walk(tree):
            for fld, val in ast.iter_fields(parent):
                items = val if isinstance(val, list) else [val]
                for j, x in enumerate(items):
                    if not (isinstance(x, ast.Call) and isinstance(x.func, ast.Attribute) and isinstance(x.func.value, ast.Name)
                            and x.func.value.id == np_alias and not x.keywords and all(_boolean_valued(a) for a in x.args)):
                        continue
                    new = None
                    if x.func.attr in ("logical_and", "logical_or") and len(x.args) == 2:
                        new = ast.BinOp(left=x.args[0], op=ast.BitAnd() if x.func.attr == "logical_and" else ast.BitOr(), right=x.args[1])
                    elif x.func.attr == "logical_not" and len(x.args) == 1:
                        new = ast.UnaryOp(op=ast.Invert(), operand=x.args[0])
                    if new is None:
                        continue
                    ast.copy_location(new, x)
                    ast.copy_location(new.op, x)
                    if isinstance(val, list):
                        val[j] = new
                    else:
                        setattr(parent, fld, new)
                    n += 1
                    changed = True
    return n


def normalize_module(tree, modname=None, foreign=None):
    """N1 + N2 + N4 + N5 + N6 + N7 in place; returns counters."""
    if OFF:
        return {"inlined": 0, "tests": 0}
    literals_right(tree)
    index_forms(tree)
    n_h = inline_unknown_helpers(tree, modname, foreign) if modname else 0
    unfold_expression_functions(tree)
    n_inl = 0
    for node in ast.walk(tree):
        if isinstance(node, (ast.FunctionDef, ast.AsyncFunctionDef)):
            expand_star_tuples(node)
            unroll_literal_loops(node)
            loops_to_comprehensions(node)
            fold_constant_tests(node)
            conditional_statements(node)
            unpack_comprehensions(node)
            inplace_arithmetic(node)
            for _k in range(3):
                a_ = inline_temporaries(node)
                c_ = split_tuple_assignments(node)
                b_ = propagate_aliases(node) + propagate_subscript_aliases(node)
                d_ = unpack_literal_dicts(node)
                e_ = unroll_literal_loops(node)
                n_inl += a_ + b_
                if not (a_ or b_ or c_ or d_ or e_):
                    break
    if n_h:
        fold_constant_formats(tree)       # literal arguments that arrived by unfolding a helper
    n_t = normalize_tests(tree)
    return {"inlined": n_inl, "tests": n_t, "helpers": n_h}


# ------------------------------------------------------------------ N3
def positional_keywords(modules):
    """Keyword arguments naming the next positional parameter of a repository
    function become positional.  `modules`: name -> Module (already indexed)."""
    if OFF:
        return 0
    sig = {}
    for name, m in modules.items():
        for st in m.tree.body:
            if isinstance(st, ast.FunctionDef) and not st.args.posonlyargs:
                sig[(name, st.name)] = [a.arg for a in st.args.args]
    n = 0
    for name, m in modules.items():
        for call in ast.walk(m.tree):
            if not isinstance(call, ast.Call) or not call.keywords:
                continue
            f = call.func
            ps = None
            if isinstance(f, ast.Name) and (name, f.id) in sig and f.id not in m.aliases:
                ps = sig[(name, f.id)]
            elif isinstance(f, ast.Attribute) and isinstance(f.value, ast.Name):
                tgt = m.aliases.get(f.value.id, "")
                if tgt.startswith("spowtd.") and (tgt.split(".")[-1], f.attr) in sig:
                    ps = sig[(tgt.split(".")[-1], f.attr)]
            elif isinstance(f, ast.Name) and m.aliases.get(f.id, "").startswith("spowtd."):
                parts = m.aliases[f.id].split(".")
                if len(parts) == 3 and (parts[1], parts[2]) in sig:
                    ps = sig[(parts[1], parts[2])]
            if ps is None or any(isinstance(a, ast.Starred) for a in call.args):
                continue
            while call.keywords and call.keywords[0].arg is not None and len(call.args) < len(ps) \
                    and call.keywords[0].arg == ps[len(call.args)]:
                kw = call.keywords.pop(0)
                kw.value.parent = call
                call.args.append(kw.value)
                n += 1
    return n


# ------------------------------------------------------------------ N6
def _expression_functions(tree):
    out = {}
    for st in tree.body:
        if isinstance(st, ast.FunctionDef) and not st.decorator_list and not st.args.vararg and not st.args.kwarg \
                and not st.args.kwonlyargs and not st.args.posonlyargs:
            body = [b for b in st.body if not (isinstance(b, ast.Expr) and isinstance(b.value, ast.Constant) and isinstance(b.value.value, str))]
            if len(body) == 1 and isinstance(body[0], ast.Return) and body[0].value is not None:
                e = body[0].value
                if any(isinstance(x, SCOPES + (ast.Yield, ast.YieldFrom, ast.Await, ast.NamedExpr)) for x in ast.walk(e)):
                    continue
                if any(isinstance(x, ast.Call) and isinstance(x.func, ast.Name) and x.func.id == st.name for x in ast.walk(e)):
                    continue
                out[st.name] = (st, [a.arg for a in st.args.args], e)
    return out


def _subst(e, env):
    import copy

    class T(ast.NodeTransformer):
        def visit_Name(self, node):
            if isinstance(node.ctx, ast.Load) and node.id in env:
                return _clone(env[node.id])
            return node

    return T().visit(_clone(e))


def unfold_expression_functions(tree):
    if OFF:
        return 0
    funcs = _expression_functions(tree)
    if not funcs:
        return 0
    n = 0
    for fn in ast.walk(tree):
        if not isinstance(fn, (ast.FunctionDef, ast.AsyncFunctionDef)):
            continue
        local_stores = {x.id for x in ast.walk(fn) if isinstance(x, ast.Name) and isinstance(x.ctx, ast.Store)} | \
                       {a.arg for a in fn.args.args + fn.args.kwonlyargs + fn.args.posonlyargs}
        for parent in ast.walk(fn):
            for fld, val in ast.iter_fields(parent):
                items = val if isinstance(val, list) else [val]
                for j, x in enumerate(items):
                    if isinstance(x, ast.Call) and isinstance(x.func, ast.Name) and x.func.id in funcs and fn.name != x.func.id \
                            and x.func.id not in local_stores:
                        fdef, params, e = funcs[x.func.id]
                        if x.keywords or len(x.args) != len(params) or any(isinstance(a, ast.Starred) for a in x.args):
                            continue
                        if any(_has_call(a) for a in x.args):
                            continue
                        free = {y.id for y in ast.walk(e) if isinstance(y, ast.Name)} - set(params)
                        if free & local_stores:
                            continue
                        new = _subst(e, dict(zip(params, x.args)))
                        for sub in ast.walk(new):
                            ast.copy_location(sub, x)
                        if isinstance(val, list):
                            val[j] = new
                        else:
                            setattr(parent, fld, new)
                        n += 1
    return n


# ------------------------------------------------------------------ N7
def _known():
    import json

    path = os.path.join(os.path.dirname(os.path.abspath(__file__)), "known_functions.json")
    try:
        with open(path) as fh:
            return set(json.load(fh)["functions"])
    except OSError:
        return None


def _contains_return(node):
    """a `return` of this function (those of nested function definitions do not count)"""
    if isinstance(node, (ast.FunctionDef, ast.AsyncFunctionDef, ast.Lambda)):
        return False
    stack = [node]
    while stack:
        x = stack.pop()
        if isinstance(x, ast.Return):
            return True
        for c in ast.iter_child_nodes(x):
            if not isinstance(c, (ast.FunctionDef, ast.AsyncFunctionDef, ast.Lambda)):
                stack.append(c)
    return False


def _always_returns(stmts):
    if not stmts:
        return False
    last = stmts[-1]
    if isinstance(last, (ast.Return, ast.Raise)):
        return True
    if isinstance(last, ast.If):
        return _always_returns(last.body) and _always_returns(last.orelse)
    return False


class _NoInline(Exception):
    pass


def _single_exit(stmts, result):
    """Rewrite a statement list whose `return`s sit at tail positions of if / else branches into one
    without `return`: the value is assigned to `result` instead."""
    out = []
    for i, st in enumerate(stmts):
        if isinstance(st, ast.Return):
            val = st.value if st.value is not None else ast.Constant(value=None)
            out.append(ast.copy_location(ast.Assign(targets=[ast.Name(id=result, ctx=ast.Store())], value=val), st))
            return out
        if isinstance(st, ast.If) and _contains_return(st):
            rest = stmts[i + 1:]
            body = _single_exit(list(st.body) + ([] if _always_returns(st.body) else [_clone(x) for x in rest]), result)
            orelse = _single_exit(list(st.orelse) + ([] if _always_returns(st.orelse) else [_clone(x) for x in rest]), result)
            new = ast.copy_location(ast.If(test=st.test, body=body or [ast.Pass()], orelse=orelse), st)
            out.append(new)
            return out
        if isinstance(st, ast.Try) and i == len(stmts) - 1 and not st.finalbody and not st.orelse and st.body and isinstance(st.body[-1], ast.Return) \
                and not any(_contains_return(b) for b in st.body[:-1]) and st.handlers \
                and all(h.body and isinstance(h.body[-1], ast.Raise) and not any(_contains_return(b) for b in h.body) for h in st.handlers):
            # the last statement: `try: ...; return E  except X: ... raise Y` -- the value is assigned inside the try (so E is still
            # evaluated under the handlers), nothing follows
            r = st.body[-1]
            val = r.value if r.value is not None else ast.Constant(value=None)
            nb = list(st.body[:-1]) + [ast.copy_location(ast.Assign(targets=[ast.Name(id=result, ctx=ast.Store())], value=val), r)]
            out.append(ast.copy_location(ast.Try(body=nb, handlers=st.handlers, orelse=[], finalbody=[]), st))
            return out
        if _contains_return(st):
            raise _NoInline("return inside a loop / try / with")
        out.append(st)
    return out


def _inlinable(fdef):
    if fdef.decorator_list or fdef.args.kwarg or fdef.args.kwonlyargs or fdef.args.posonlyargs:
        return False
    if fdef.args.vararg and fdef.args.defaults:
        return False
    for x in ast.walk(fdef):
        if x is fdef:
            continue
        if isinstance(x, ast.FunctionDef) and not x.decorator_list:
            continue          # a plain local function travels with the body (renamed like any other local)
        if isinstance(x, (ast.FunctionDef, ast.AsyncFunctionDef, ast.ClassDef, ast.Yield, ast.YieldFrom, ast.Await, ast.Global, ast.Nonlocal)):
            return False
        if isinstance(x, ast.Call) and isinstance(x.func, ast.Name) and x.func.id in (fdef.name, "locals", "vars", "eval", "exec"):
            return False
    return True


def _simple_arg(a):
    if isinstance(a, (ast.Name, ast.Constant)):
        return True
    if isinstance(a, ast.Attribute):
        return _simple_arg(a.value)
    if isinstance(a, ast.UnaryOp) and isinstance(a.operand, ast.Constant):
        return True
    return False


_inline_counter = [0]


def _instantiate(fdef, args, defaults_from):
    """(statements, result expression or None) of one inlined call."""
    _inline_counter[0] += 1
    pre = "_h%d_" % _inline_counter[0]
    params = [a.arg for a in fdef.args.args]
    if fdef.args.vararg:
        # f(a, b, *rest): the extra positional arguments are evaluated at the call, in order, into a tuple
        if len(args) < len(params):
            raise _NoInline("arguments do not cover the parameters")
        extra = list(args[len(params):])
        args = list(args[:len(params)]) + [ast.Tuple(elts=extra, ctx=ast.Load())]
        params = params + [fdef.args.vararg.arg]
    body = [b for b in fdef.body if not (isinstance(b, ast.Expr) and isinstance(b.value, ast.Constant) and isinstance(b.value.value, str))]
    body = [_clone(b) for b in body]
    stored = set(params)
    for b in body:
        for x in ast.walk(b):
            if isinstance(x, ast.Name) and isinstance(x.ctx, (ast.Store, ast.Del)):
                stored.add(x.id)
            elif isinstance(x, ast.ExceptHandler) and x.name:
                stored.add(x.name)
            elif isinstance(x, ast.arg):
                stored.add(x.arg)
            elif isinstance(x, ast.FunctionDef):
                stored.add(x.name)
    reassigned = set()
    for b in body:
        for x in ast.walk(b):
            if isinstance(x, ast.Name) and isinstance(x.ctx, (ast.Store, ast.Del)) and x.id in params:
                reassigned.add(x.id)
            if isinstance(x, ast.arg) and x.arg in params:
                reassigned.add(x.arg)
    result = pre + "ret"
    has_value = False
    stack_ = list(body)
    while stack_:
        x = stack_.pop()
        if isinstance(x, ast.Return) and x.value is not None:
            has_value = True
        for c_ in ast.iter_child_nodes(x):
            if not isinstance(c_, (ast.FunctionDef, ast.AsyncFunctionDef, ast.Lambda)):
                stack_.append(c_)
    body = _single_exit(body, result)
    # bind parameters
    bound = dict(zip(params, args))
    nd = len(fdef.args.defaults)
    for k, d in enumerate(fdef.args.defaults):
        p = params[len(params) - nd + k]
        if p not in bound:
            bound[p] = _clone(d)
    if set(bound) != set(params):
        raise _NoInline("arguments do not cover the parameters")
    subst, pre_stmts = {}, []
    for p in params:
        a = bound[p]
        if _simple_arg(a) and p not in reassigned:
            subst[p] = a
        else:
            pre_stmts.append(ast.Assign(targets=[ast.Name(id=pre + p, ctx=ast.Store())], value=a))
    rename = {n: pre + n for n in stored if n not in subst}

    class R(ast.NodeTransformer):
        def visit_Name(self, node):
            if node.id in subst and isinstance(node.ctx, ast.Load):
                return _clone(subst[node.id])
            if node.id in rename:
                node.id = rename[node.id]
            return node

        def visit_arg(self, node):
            if node.arg in rename:
                node.arg = rename[node.arg]
            return node

        def visit_ExceptHandler(self, node):
            if node.name in rename:
                node.name = rename[node.name]
            self.generic_visit(node)
            return node

        def visit_FunctionDef(self, node):
            if node.name in rename:
                node.name = rename[node.name]
            self.generic_visit(node)
            return node

    body = [R().visit(b) for b in body]
    # arguments that are evaluated now (not substituted) keep their evaluation order: they come first
    return pre_stmts + body, (ast.Name(id=result, ctx=ast.Load()) if has_value else None)


def inline_unknown_helpers(tree, modname, foreign=None):
    """N7: calls of same-module functions (or `self.` methods of the same class) that are NOT among the
    functions the rules were written against are replaced by the callee's body, when the call is the
    whole value of its statement (so hoisting the body keeps the evaluation order)."""
    if OFF:
        return 0
    known = _known()
    if known is None:
        return 0
    cands = {}
    for st in tree.body:
        if isinstance(st, ast.FunctionDef) and "%s.%s" % (modname, st.name) not in known and _inlinable(st):
            cands[("", st.name)] = st
        elif isinstance(st, ast.ClassDef):
            for m in st.body:
                if isinstance(m, ast.FunctionDef) and "%s.%s.%s" % (modname, st.name, m.name) not in known and _inlinable(m) \
                        and m.args.args and m.args.args[0].arg == "self":
                    cands[(st.name, m.name)] = m
    foreign = foreign or {}
    has_local = any(isinstance(x, ast.FunctionDef) and isinstance(getattr(x, "parent", None), ast.FunctionDef) for x in ast.walk(tree)) or \
        any(isinstance(y, ast.FunctionDef) for st in ast.walk(tree) if isinstance(st, ast.FunctionDef) for y in st.body)
    if not cands and not foreign and not has_local:
        return 0
    total = 0

    local_defs = {}

    def callee_of(call, cls):
        f = call.func
        if isinstance(f, ast.Name) and f.id in local_defs:
            return local_defs[f.id], list(call.args)
        if isinstance(f, ast.Name) and ("", f.id) in cands:
            return cands[("", f.id)], list(call.args)
        # a helper of another module of the package (imported by name / called through the module alias)
        if isinstance(f, ast.Name) and ("name", f.id) in foreign:
            return foreign[("name", f.id)], list(call.args)
        if isinstance(f, ast.Attribute) and isinstance(f.value, ast.Name) and ("attr", f.value.id, f.attr) in foreign:
            return foreign[("attr", f.value.id, f.attr)], list(call.args)
        if isinstance(f, ast.Attribute) and isinstance(f.value, ast.Name) and f.value.id == "self" and cls and (cls, f.attr) in cands:
            return cands[(cls, f.attr)], [ast.Name(id="self", ctx=ast.Load())] + list(call.args)
        return None, None

    def owners():
        for st in tree.body:
            if isinstance(st, ast.FunctionDef):
                yield "", st
            elif isinstance(st, ast.ClassDef):
                for m in st.body:
                    if isinstance(m, ast.FunctionDef):
                        yield st.name, m

    for _round in range(3):
        changed = False
        for cls, fn in owners():
            local_stores = {x.id for x in ast.walk(fn) if isinstance(x, ast.Name) and isinstance(x.ctx, ast.Store)} | {a.arg for a in fn.args.args}
            # closures defined directly in this function's body (bound once, never rebound, not recursive): a call reads the
            # enclosing variables as they are at the call, which is what the inlined body does
            local_defs.clear()
            for y in fn.body:
                if isinstance(y, ast.FunctionDef) and _inlinable(y) and y.name not in local_stores \
                        and sum(1 for z in ast.walk(fn) if isinstance(z, ast.FunctionDef) and z.name == y.name) == 1 \
                        and not any(isinstance(z, ast.Name) and z.id == y.name and id(z) not in
                                    {id(c.func) for c in ast.walk(fn) if isinstance(c, ast.Call)} for z in ast.walk(fn)):
                    local_defs[y.name] = y
            for block in list(_blocks(fn)):
                i = 0
                while i < len(block):
                    st = block[i]
                    call = None
                    if isinstance(st, (ast.Assign, ast.Expr, ast.Return)) and isinstance(getattr(st, "value", None), ast.Call) \
                            and callee_of(st.value, cls)[0] is not None:
                        call = st.value
                        where = "value"
                    elif isinstance(st, ast.For) and isinstance(st.iter, ast.Call) and callee_of(st.iter, cls)[0] is not None:
                        call = st.iter
                        where = "iter"
                    elif isinstance(st, ast.For):
                        # the first call evaluated in the iterable (it is evaluated once, before the loop)
                        order = _eval_order(st) or []
                        for k_, x in enumerate(order):
                            if isinstance(x, ast.Call):
                                inside = {id(y) for y in ast.walk(x)}
                                before = [y for y in order[:k_] if id(y) not in inside]
                                if callee_of(x, cls)[0] is not None and all(
                                        isinstance(y, (ast.Name, ast.Constant, ast.expr_context)) for y in before):
                                    call = x
                                    where = "nested"
                                break
                    elif isinstance(st, (ast.Assign, ast.AugAssign, ast.Expr, ast.Return)) and getattr(st, "value", None) is not None \
                            and (not isinstance(st, ast.AugAssign) or isinstance(st.target, ast.Name)):
                        # the first call evaluated in the statement, when only plain names / literals are read before it
                        order = _eval_order(st) or []
                        for k_, x in enumerate(order):
                            if isinstance(x, ast.Call):
                                inside = {id(y) for y in ast.walk(x)}
                                before = [y for y in order[:k_] if id(y) not in inside]
                                argnames = {z.id for a_ in x.args for z in ast.walk(a_) if isinstance(z, ast.Name)}

                                def harmless(y):
                                    if isinstance(y, (ast.Name, ast.Constant, ast.operator, ast.unaryop, ast.cmpop, ast.expr_context, ast.Tuple, ast.List, ast.Dict,
                                                      ast.BinOp, ast.UnaryOp, ast.Compare, ast.BoolOp, ast.keyword)):
                                        return True
                                    # a method looked up on a local object that is not handed to the helper
                                    return isinstance(y, ast.Attribute) and isinstance(y.value, ast.Name) and y.value.id not in argnames and y.value.id in local_stores
                                if callee_of(x, cls)[0] is not None and all(harmless(y) for y in before) and not any(isinstance(y, SCOPES) for y in order[:k_]):
                                    call = x
                                    where = "nested"
                                break
                    if call is None or any(k.arg is None for k in call.keywords):
                        i += 1
                        continue
                    starred = [a for a in call.args if isinstance(a, ast.Starred)]
                    if starred and not (len(starred) == 1 and call.args[-1] is starred[0] and isinstance(starred[0].value, ast.Name) and not call.keywords):
                        i += 1
                        continue
                    fdef, args = callee_of(call, cls)
                    if fdef is not None and starred:
                        # f(a, *T) with T a name and f taking a fixed number of parameters without defaults: T supplies exactly the
                        # remaining ones (anything else is a TypeError before the body runs), so they are T[0], T[1], ...
                        if fdef.args.vararg or fdef.args.defaults or fdef.args.kwonlyargs or fdef.args.kwarg:
                            i += 1
                            continue
                        n_par = len(fdef.args.args)
                        fixed = args[:-1]
                        n_missing = n_par - len(fixed)
                        if n_missing < 1 or n_missing > 6:
                            i += 1
                            continue
                        tname = starred[0].value.id
                        args = list(fixed) + [ast.Subscript(value=ast.Name(id=tname, ctx=ast.Load()), slice=ast.Constant(value=k_), ctx=ast.Load()) for k_ in range(n_missing)]
                        for a_ in args[len(fixed):]:
                            ast.copy_location(a_, call)
                            ast.fix_missing_locations(a_)
                    if fdef is not None and call.keywords and fdef.args.vararg:
                        i += 1
                        continue
                    if fdef is not None and call.keywords:
                        # keywords bind by name; evaluation order (positionals, then keywords as written) is kept
                        # because _instantiate evaluates non-trivial arguments in parameter order only if that is the same order
                        pnames = [a.arg for a in fdef.args.args]
                        rest = pnames[len(args):]
                        kw = {k.arg: k.value for k in call.keywords}
                        if len(kw) != len(call.keywords) or not set(kw) <= set(rest):
                            i += 1
                            continue
                        in_order = [k.arg for k in call.keywords] == [p_ for p_ in rest if p_ in kw]
                        if not in_order and not all(_simple_arg(v_) or not _has_call(v_) for v_ in kw.values()):
                            i += 1
                            continue
                        nd_ = len(fdef.args.defaults)
                        ok_ = True
                        for p_ in rest:
                            if p_ in kw:
                                args.append(kw[p_])
                            elif pnames.index(p_) >= len(pnames) - nd_:
                                args.append(_clone(fdef.args.defaults[pnames.index(p_) - (len(pnames) - nd_)]))
                            else:
                                ok_ = False
                        if not ok_:
                            i += 1
                            continue
                    if fdef is None or fdef is fn or (isinstance(call.func, ast.Name) and call.func.id in local_stores):
                        i += 1
                        continue
                    # free names of the helper must mean the same at the call site
                    free = {x.id for x in ast.walk(fdef) if isinstance(x, ast.Name)} - {a.arg for a in fdef.args.args} \
                        - {x.id for x in ast.walk(fdef) if isinstance(x, ast.Name) and isinstance(x.ctx, ast.Store)} \
                        - {x.arg for x in ast.walk(fdef) if isinstance(x, ast.arg)} \
                        - {x.name for x in ast.walk(fdef) if isinstance(x, ast.FunctionDef) and x is not fdef}
                    if free & local_stores and fdef not in local_defs.values():
                        i += 1
                        continue
                    try:
                        stmts, res = _instantiate(fdef, args, None)
                    except _NoInline:
                        i += 1
                        continue
                    if where == "value":
                        if isinstance(st, ast.Expr):
                            block[i:i + 1] = stmts or [ast.Pass()]
                        else:
                            st.value = res if res is not None else ast.Constant(value=None)
                            block[i:i] = stmts
                    elif where == "nested":
                        if not _replace(st, call, res if res is not None else ast.Constant(value=None)):
                            i += 1
                            continue
                        block[i:i] = stmts
                    else:
                        st.iter = res if res is not None else ast.Constant(value=None)
                        block[i:i] = stmts
                    for s_ in stmts:
                        ast.fix_missing_locations(s_) if not hasattr(s_, "lineno") else None
                        for sub in ast.walk(s_):
                            if not hasattr(sub, "lineno") and isinstance(sub, (ast.expr, ast.stmt)):
                                ast.copy_location(sub, st)
                    total += 1
                    fdef._sv_unfolded = getattr(fdef, "_sv_unfolded", 0) + 1
                    changed = True
                    i += len(stmts) + 1
        if not changed:
            break
    if total:
        # a helper that was unfolded everywhere and is not referenced any more is dead code: drop it,
        # so that its statements are not read a second time as if they were another function's
        for (cls, name), fdef in list(cands.items()):
            refs = 0
            for x in ast.walk(tree):
                if x is fdef:
                    continue
                if isinstance(x, ast.Name) and x.id == name and not cls:
                    refs += 1
                elif isinstance(x, ast.Attribute) and x.attr == name:
                    refs += 1
            inside = {id(y) for y in ast.walk(fdef)}
            refs -= sum(1 for x in ast.walk(fdef) if x is not fdef and ((isinstance(x, ast.Name) and x.id == name and not cls) or (isinstance(x, ast.Attribute) and x.attr == name)))
            if refs == 0 and getattr(fdef, "_sv_unfolded", 0):
                if not cls and fdef in tree.body:
                    tree.body.remove(fdef)
                else:
                    for c_ in tree.body:
                        if isinstance(c_, ast.ClassDef) and c_.name == cls and fdef in c_.body:
                            c_.body.remove(fdef)
                            if not c_.body:
                                c_.body.append(ast.Pass())
    return total


def foreign_helpers(modules):
    """For every module: helpers of OTHER modules of the package that the rules have never read and that can be
    unfolded at their call sites there (their free names mean the same in both modules).
    modules: name -> Module (indexed).  -> {module name: {call form: FunctionDef}}"""
    import builtins

    if OFF:
        return {}
    known = _known()
    if known is None:
        return {}
    out = {}
    for hname, hm in modules.items():
        for st in hm.tree.body:
            if not (isinstance(st, ast.FunctionDef) and "%s.%s" % (hname, st.name) not in known and _inlinable(st)):
                continue
            local = {a.arg for a in st.args.args} | {x.id for x in ast.walk(st) if isinstance(x, ast.Name) and isinstance(x.ctx, ast.Store)} \
                | {x.arg for x in ast.walk(st) if isinstance(x, ast.arg)} | {x.name for x in ast.walk(st) if isinstance(x, ast.FunctionDef)}
            free = {x.id for x in ast.walk(st) if isinstance(x, ast.Name)} - local
            for mname, mm in modules.items():
                if mname == hname:
                    continue
                if not all(hasattr(builtins, n) or (hm.aliases.get(n) is not None and mm.aliases.get(n) == hm.aliases.get(n)) for n in free):
                    continue
                for alias, target in mm.aliases.items():
                    if target == "spowtd.%s" % hname:
                        out.setdefault(mname, {})[("attr", alias, st.name)] = st
                    elif target == "spowtd.%s.%s" % (hname, st.name):
                        out.setdefault(mname, {})[("name", alias)] = st
    return out
