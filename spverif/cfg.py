"""E3 -- statement-level control-flow graph, dominators, reaching definitions.

Hand-built for the statement kinds the repository uses.  Nodes are
integers; node 0 is ENTRY, 1 is EXIT (normal return / fall off the end),
2 is RAISE (exceptional exit).  Each simple statement is one node; an
`if`/`while` contributes a node for its test, a `for` a node for its
iterator header, a `with` a node for its items, a `try` no node of its
own.  `assert` has an edge to the next statement and to the exceptional
successor.
"""

import ast

ENTRY, EXIT, RAISE = 0, 1, 2


class CFG:
    def __init__(self, fnode):
        self.fnode = fnode
        self.succ = {ENTRY: set(), EXIT: set(), RAISE: set()}
        self.pred = {ENTRY: set(), EXIT: set(), RAISE: set()}
        self.stmt_of = {}  # node -> ast stmt
        self.node_of = {}  # id(ast stmt) -> node (header node for compound)
        self.kind = {ENTRY: "entry", EXIT: "exit", RAISE: "raise"}
        self._n = 3
        self._loops = []  # stack of (continue_target, break_collector)
        self._handlers = []  # stack of lists of handler entry nodes
        self._finally = []
        self.loop_members = {}  # header node -> set(nodes in body)
        outs = self._body(fnode.body, [ENTRY])
        for o in outs:
            self._edge(o, EXIT)
        self._dom = None
        self._pdom = None

    # -- construction -------------------------------------------------
    def _new(self, stmt, kind):
        n = self._n
        self._n += 1
        self.succ[n] = set()
        self.pred[n] = set()
        self.stmt_of[n] = stmt
        self.kind[n] = kind
        if id(stmt) not in self.node_of:
            self.node_of[id(stmt)] = n
        return n

    def _edge(self, a, b):
        self.succ[a].add(b)
        self.pred[b].add(a)

    def _exc_targets(self):
        if self._handlers:
            return list(self._handlers[-1])
        return [RAISE]

    def _body(self, stmts, ins):
        cur = list(ins)
        for s in stmts:
            cur = self._stmt(s, cur)
        return cur

    def _stmt(self, s, ins):
        if isinstance(s, ast.If):
            t = self._new(s, "if")
            for i in ins:
                self._edge(i, t)
            self._maybe_exc(t)
            a = self._body(s.body, [t])
            b = self._body(s.orelse, [t]) if s.orelse else [t]
            return a + b
        if isinstance(s, (ast.While, ast.For, ast.AsyncFor)):
            h = self._new(s, "loop")
            for i in ins:
                self._edge(i, h)
            self._maybe_exc(h)
            breaks = []
            self._loops.append((h, breaks))
            before = self._n
            outs = self._body(s.body, [h])
            self.loop_members[h] = set(range(before, self._n)) | {h}
            self._loops.pop()
            for o in outs:
                self._edge(o, h)
            infinite = (
                isinstance(s, ast.While)
                and isinstance(s.test, ast.Constant)
                and bool(s.test.value)
            )
            after = [] if infinite else [h]
            if s.orelse:
                after = self._body(s.orelse, after)
            return after + breaks
        if isinstance(s, (ast.With, ast.AsyncWith)):
            w = self._new(s, "with")
            for i in ins:
                self._edge(i, w)
            self._maybe_exc(w)
            return self._body(s.body, [w])
        if isinstance(s, ast.Try):
            return self._try(s, ins)
        if isinstance(s, ast.Return):
            n = self._new(s, "return")
            for i in ins:
                self._edge(i, n)
            self._maybe_exc(n)
            if self._finally:
                # approximate: finally body then exit
                pass
            self._edge(n, EXIT)
            return []
        if isinstance(s, ast.Raise):
            n = self._new(s, "raise")
            for i in ins:
                self._edge(i, n)
            for t in self._exc_targets():
                self._edge(n, t)
            return []
        if isinstance(s, ast.Break):
            n = self._new(s, "break")
            for i in ins:
                self._edge(i, n)
            if self._loops:
                self._loops[-1][1].append(n)
            return []
        if isinstance(s, ast.Continue):
            n = self._new(s, "continue")
            for i in ins:
                self._edge(i, n)
            if self._loops:
                self._edge(n, self._loops[-1][0])
            return []
        if isinstance(s, ast.Assert):
            n = self._new(s, "assert")
            for i in ins:
                self._edge(i, n)
            for t in self._exc_targets():
                self._edge(n, t)
            return [n]
        # simple statement (incl. nested def/class as a binding)
        n = self._new(s, "stmt")
        for i in ins:
            self._edge(i, n)
        self._maybe_exc(n)
        return [n]

    def _maybe_exc(self, n):
        # inside a try body every statement may transfer to the handlers
        if self._handlers:
            for t in self._handlers[-1]:
                self._edge(n, t)

    def _try(self, s, ins):
        hentries = []
        hnodes = []
        for h in s.handlers:
            hn = self._new(h, "except")
            hentries.append(hn)
            hnodes.append((h, hn))
        self._handlers.append(hentries if hentries else self._exc_targets())
        body_out = self._body(s.body, ins)
        self._handlers.pop()
        if s.orelse:
            body_out = self._body(s.orelse, body_out)
        outs = list(body_out)
        for h, hn in hnodes:
            outs += self._body(h.body, [hn])
        if s.finalbody:
            outs = self._body(s.finalbody, outs)
        return outs

    # -- queries ------------------------------------------------------
    def nodes(self):
        return list(self.succ)

    def node(self, stmt):
        return self.node_of.get(id(stmt))

    def node_containing(self, expr):
        """CFG node whose statement (header) contains the expression."""
        n = expr
        while n is not None:
            if id(n) in self.node_of:
                st = n
                # for compound statements, only header expressions belong
                if isinstance(st, (ast.If, ast.While)):
                    if _within(expr, st.test):
                        return self.node_of[id(st)]
                elif isinstance(st, (ast.For, ast.AsyncFor)):
                    if _within(expr, st.iter) or _within(expr, st.target):
                        return self.node_of[id(st)]
                elif isinstance(st, (ast.With, ast.AsyncWith)):
                    if any(_within(expr, it) for it in st.items):
                        return self.node_of[id(st)]
                elif isinstance(
                    st, (ast.FunctionDef, ast.AsyncFunctionDef, ast.ClassDef)
                ):
                    return self.node_of[id(st)]
                else:
                    return self.node_of[id(st)]
            n = getattr(n, "parent", None)
        return None

    def dominators(self):
        if self._dom is None:
            self._dom = _dominators(self.succ, self.pred, ENTRY)
        return self._dom

    def postdominators(self):
        """Post-dominators with respect to the normal EXIT."""
        if self._pdom is None:
            self._pdom = _dominators(self.pred, self.succ, EXIT)
        return self._pdom

    def dominates(self, a, b):
        d = self.dominators()
        return b in d and a in d[b]

    def postdominates(self, a, b):
        d = self.postdominators()
        return b in d and a in d[b]

    def reachable_from(self, a, avoiding=()):
        avoid = set(avoiding)
        seen = set()
        stack = [x for x in self.succ[a] if x not in avoid]
        while stack:
            n = stack.pop()
            if n in seen:
                continue
            seen.add(n)
            for m in self.succ[n]:
                if m not in avoid and m not in seen:
                    stack.append(m)
        return seen

    def reaches(self, a, b, avoiding=()):
        return b in self.reachable_from(a, avoiding)

    def in_loop(self, n):
        return [h for h, mem in self.loop_members.items() if n in mem]

    def live_nodes(self):
        return self.reachable_from(ENTRY) | {ENTRY}


def _within(expr, root):
    if root is None:
        return False
    n = expr
    while n is not None:
        if n is root:
            return True
        n = getattr(n, "parent", None)
    return False


def _dominators(succ, pred, entry):
    nodes = set()
    stack = [entry]
    while stack:
        n = stack.pop()
        if n in nodes:
            continue
        nodes.add(n)
        stack.extend(succ[n])
    dom = {n: set(nodes) for n in nodes}
    dom[entry] = {entry}
    changed = True
    order = sorted(nodes)
    while changed:
        changed = False
        for n in order:
            if n == entry:
                continue
            ps = [p for p in pred[n] if p in nodes]
            if not ps:
                new = {n}
            else:
                new = set.intersection(*(dom[p] for p in ps)) | {n}
            if new != dom[n]:
                dom[n] = new
                changed = True
    return dom


# ---------------------------------------------------------------------
# reaching definitions


def _bind_targets(t, out):
    if isinstance(t, ast.Name):
        out.append(t.id)
    elif isinstance(t, (ast.Tuple, ast.List)):
        for e in t.elts:
            _bind_targets(e, out)
    elif isinstance(t, ast.Starred):
        _bind_targets(t.value, out)


def defs_of_node(cfg, n):
    """Names (re)bound by CFG node n -> list of names."""
    st = cfg.stmt_of.get(n)
    out = []
    if st is None:
        return out
    k = cfg.kind[n]
    if isinstance(st, ast.Assign):
        for t in st.targets:
            _bind_targets(t, out)
    elif isinstance(st, ast.AugAssign):
        _bind_targets(st.target, out)
    elif isinstance(st, ast.AnnAssign) and st.value is not None:
        _bind_targets(st.target, out)
    elif k == "loop" and isinstance(st, (ast.For, ast.AsyncFor)):
        _bind_targets(st.target, out)
    elif k == "with":
        for it in st.items:
            if it.optional_vars is not None:
                _bind_targets(it.optional_vars, out)
    elif isinstance(st, (ast.FunctionDef, ast.AsyncFunctionDef, ast.ClassDef)):
        out.append(st.name)
    elif isinstance(st, ast.Delete):
        for t in st.targets:
            _bind_targets(t, out)
    elif isinstance(st, (ast.Import, ast.ImportFrom)):
        for a in st.names:
            out.append((a.asname or a.name).split(".")[0])
    elif k == "except" and getattr(st, "name", None):
        out.append(st.name)
    # walrus
    hdr = _header_exprs(st, k)
    for h in hdr:
        for sub in ast.walk(h):
            if isinstance(sub, ast.NamedExpr):
                _bind_targets(sub.target, out)
    return out


def _header_exprs(st, kind):
    if kind == "if" or (kind == "loop" and isinstance(st, ast.While)):
        return [st.test]
    if kind == "loop":
        return [st.iter]
    if kind == "with":
        return [it.context_expr for it in st.items]
    if kind == "except":
        return []
    if isinstance(st, (ast.FunctionDef, ast.AsyncFunctionDef, ast.ClassDef)):
        return []
    return [st]


class ReachingDefs:
    """Classic reaching definitions over a CFG for local names.

    A definition is (name, node); parameters are defined at ENTRY.
    """

    def __init__(self, cfg):
        self.cfg = cfg
        f = cfg.fnode
        a = f.args
        params = [x.arg for x in a.posonlyargs + a.args + a.kwonlyargs]
        if a.vararg:
            params.append(a.vararg.arg)
        if a.kwarg:
            params.append(a.kwarg.arg)
        self.params = params
        self.gen = {}
        for n in cfg.nodes():
            self.gen[n] = set(defs_of_node(cfg, n))
        self.gen[ENTRY] = set(params)
        self.IN = {n: set() for n in cfg.nodes()}
        self.OUT = {n: set() for n in cfg.nodes()}
        work = list(cfg.nodes())
        while work:
            n = work.pop()
            inn = set()
            for p in cfg.pred[n]:
                inn |= self.OUT[p]
            self.IN[n] = inn
            g = self.gen[n]
            out = {d for d in inn if d[0] not in g} | {(x, n) for x in g}
            if out != self.OUT[n]:
                self.OUT[n] = out
                work.extend(cfg.succ[n])

    def reaching(self, name, node):
        return {d[1] for d in self.IN[node] if d[0] == name}


def assigned_value(cfg, defnode, name):
    """If CFG node `defnode` binds `name` by a plain assignment whose
    right-hand side for that name is syntactically identifiable, return
    the value expression, else None.  Handles `a = v`, `a, b = v1, v2`
    and `(a, b) = (v1, v2)`."""
    st = cfg.stmt_of.get(defnode)
    if isinstance(st, ast.AnnAssign) and isinstance(st.target, ast.Name):
        return st.value if st.target.id == name else None
    if not isinstance(st, ast.Assign):
        return None
    for t in st.targets:
        v = _match_target(t, st.value, name)
        if v is not None:
            return v
    return None


def _match_target(t, value, name):
    if isinstance(t, ast.Name):
        return value if t.id == name else None
    if isinstance(t, (ast.Tuple, ast.List)) and isinstance(
        value, (ast.Tuple, ast.List)
    ):
        if len(t.elts) == len(value.elts) and not any(
            isinstance(e, ast.Starred) for e in t.elts
        ):
            for te, ve in zip(t.elts, value.elts):
                v = _match_target(te, ve, name)
                if v is not None:
                    return v
    # a, b = X  with X a plain reference (name, attribute, element): a is X[0], b is X[1]
    if isinstance(t, (ast.Tuple, ast.List)) and isinstance(value, (ast.Name, ast.Attribute, ast.Subscript)) \
            and not any(isinstance(e, ast.Starred) for e in t.elts):
        for k, te in enumerate(t.elts):
            if isinstance(te, ast.Name) and te.id == name:
                new = ast.Subscript(value=value, slice=ast.Constant(value=k), ctx=ast.Load())
                ast.copy_location(new, value)
                ast.copy_location(new.slice, value)
                new.parent = getattr(value, "parent", None)
                new._synthetic = True
                return new
    return None
