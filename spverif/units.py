"""D-unit -- dimension and scale from the identifier-suffix convention.

A Unit is (scale, L, T): the physical quantity is value x scale x m^L s^T.
Identifiers carry their unit as trailing tokens: `zeta_mm`, `et_mm_d`
(mm per day), `K_knots_km_d`, `curvature_m_km2`, `transmissivity_m2_s`.
First unit token is the numerator, every following token a denominator.
Multiplying a *value* by a bare literal c divides its unit by c
(x_cm = x_mm / 10  <=>  unit(x_mm / 10) = mm * 10 = cm).
"""

import ast
from fractions import Fraction

from .norm import num_fraction

BASE = {
    "mm": (Fraction(1, 1000), 1, 0),
    "cm": (Fraction(1, 100), 1, 0),
    "m": (Fraction(1), 1, 0),
    "km": (Fraction(1000), 1, 0),
    "m2": (Fraction(1), 2, 0),
    "km2": (Fraction(1000000), 2, 0),
    "s": (Fraction(1), 0, 1),
    "h": (Fraction(3600), 0, 1),
    "d": (Fraction(86400), 0, 1),
}

# identifiers whose suffix is not a unit, or whose unit is not what the
# suffix rule would say (explicit table, one reason each)
OVERRIDES = {
    "theta_s": None,  # saturated moisture content, not seconds
    "psi_s": None,  # air-entry pressure [m], "_s" = saturated
    "curvature_km": (Fraction(1, 1000), -1, 0),  # documented as km^-1
    "is_valid": None,
    "time_step_s": (Fraction(1), 0, 1),
    "head_step": None,
    "Ksmacz0": None,
    "sd": None,
    "b": None,
}

DIMENSIONLESS = (Fraction(1), 0, 0)


class UnitError(Exception):
    pass


def unit_of_name(name):
    """Unit from an identifier, or None if it carries none."""
    if name in OVERRIDES:
        return OVERRIDES[name]
    toks = name.split("_")
    # trailing unit tokens
    units = []
    while toks and toks[-1] in BASE:
        units.insert(0, toks.pop())
    if not units or not toks:
        return None
    # a single trailing 's', 'd', 'm', 'h' token on a short name is too
    # ambiguous unless preceded by another unit token or a known stem
    if len(units) == 1 and units[0] in ("s", "d", "m", "h"):
        stem = "_".join(toks)
        if not any(k in stem for k in ("time", "step", "elapsed", "offset", "zeta", "knots", "dt", "duration")):
            return None
    sc, L, T = BASE[units[0]]
    for u in units[1:]:
        s2, l2, t2 = BASE[u]
        sc, L, T = sc / s2, L - l2, T - t2
    return (sc, L, T)


def mul(a, b):
    return (a[0] * b[0], a[1] + b[1], a[2] + b[2])


def div(a, b):
    return (a[0] / b[0], a[1] - b[1], a[2] - b[2])


def fmt(u):
    if u is None:
        return "?"
    sc, L, T = u
    parts = []
    if L:
        parts.append("m^%d" % L if L != 1 else "m")
    if T:
        parts.append("s^%d" % T if T != 1 else "s")
    return "%s %s" % (sc if sc.denominator != 1 else sc.numerator, "·".join(parts) or "(dimensionless)")


def label_unit(label):
    """'Water level, mm' -> unit of 'mm'; 'Measured elapsed time, d' -> d."""
    if "," not in label:
        return None
    u = label.rsplit(",", 1)[1].strip()
    toks = u.replace("/", " ").split()
    if not toks or any(t not in BASE for t in toks):
        return None
    sc, L, T = BASE[toks[0]]
    for t in toks[1:]:
        s2, l2, t2 = BASE[t]
        sc, L, T = sc / s2, L - l2, T - t2
    return (sc, L, T)


class UnitEval:
    """Evaluate the unit of a Python expression.

    name_unit(name_node) may supply units for names (after def-use
    resolution); call_unit(call_node, self) for calls."""

    def __init__(self, name_unit=None, call_unit=None):
        self.name_unit = name_unit
        self.call_unit = call_unit

    def const_value(self, node):
        if isinstance(node, ast.Constant) and isinstance(node.value, (int, float)) and not isinstance(node.value, bool):
            return num_fraction(node.value)
        if isinstance(node, ast.BinOp) and isinstance(node.op, (ast.Mult, ast.Div)):
            a, b = self.const_value(node.left), self.const_value(node.right)
            if a is not None and b is not None:
                return a * b if isinstance(node.op, ast.Mult) else a / b
        if isinstance(node, ast.UnaryOp) and isinstance(node.op, ast.USub):
            v = self.const_value(node.operand)
            return -v if v is not None else None
        return None

    def unit(self, node):
        c = self.const_value(node)
        if c is not None:
            return ("const", c)
        if isinstance(node, ast.Name):
            u = self.name_unit(node) if self.name_unit else unit_of_name(node.id)
            if u is None:
                raise UnitError("no unit known for %s" % node.id)
            return u
        if isinstance(node, ast.Attribute):
            u = unit_of_name(node.attr)
            if u is None:
                raise UnitError("no unit known for .%s" % node.attr)
            return u
        if isinstance(node, ast.UnaryOp) and isinstance(node.op, (ast.USub, ast.UAdd)):
            return self.unit(node.operand)
        if isinstance(node, ast.BinOp):
            a, b = self.unit(node.left), self.unit(node.right)
            ca = a[1] if a[0] == "const" else None
            cb = b[1] if b[0] == "const" else None
            if isinstance(node.op, ast.Mult):
                if ca is not None and cb is not None:
                    return ("const", ca * cb)
                if cb is not None:
                    return (a[0] / abs(cb), a[1], a[2])
                if ca is not None:
                    return (b[0] / abs(ca), b[1], b[2])
                return mul(a, b)
            if isinstance(node.op, ast.Div):
                if ca is not None and cb is not None:
                    return ("const", ca / cb)
                if cb is not None:
                    return (a[0] * abs(cb), a[1], a[2])
                if ca is not None:
                    inv = div(DIMENSIONLESS, b)
                    return (inv[0] / abs(ca), inv[1], inv[2])
                return div(a, b)
            if isinstance(node.op, (ast.Add, ast.Sub)):
                if ca is not None and cb is not None:
                    return ("const", ca + cb)
                if ca is not None or cb is not None:
                    other = b if ca is not None else a
                    cv = ca if ca is not None else cb
                    if cv == 0 or other == DIMENSIONLESS:
                        return other
                    raise UnitError("constant added to a dimensional quantity")
                if a != b:
                    raise UnitError("sum of different units: %s and %s" % (fmt(a), fmt(b)))
                return a
            raise UnitError("operator %s" % type(node.op).__name__)
        if isinstance(node, ast.Subscript):
            return self.unit(node.value)
        if isinstance(node, ast.Call):
            if self.call_unit:
                u = self.call_unit(node, self)
                if u is not None:
                    return u
            raise UnitError("call %s" % ast.unparse(node.func))
        raise UnitError("expression %s" % type(node).__name__)


def sql_unit(e, col_unit):
    """Unit of an SQL expression; col_unit(expr 'col' node) -> unit."""
    k = e[0]
    if k == "num":
        return ("const", num_fraction(e[1].rstrip(".") if e[1].endswith(".") and len(e[1]) > 1 else e[1]))
    if k == "col":
        u = col_unit(e)
        if u is None:
            raise UnitError("no unit for column %s" % e[2])
        return u
    if k == "cast":
        return sql_unit(e[1], col_unit)
    if k == "call" and e[1] in ("AVG", "SUM", "MIN", "MAX", "TOTAL") and len(e[2]) == 1:
        return sql_unit(e[2][0], col_unit)
    if k == "un" and e[1] in ("-", "+"):
        return sql_unit(e[2], col_unit)
    if k == "bin" and e[1] in ("*", "/", "+", "-"):
        a, b = sql_unit(e[2], col_unit), sql_unit(e[3], col_unit)
        ca = a[1] if a[0] == "const" else None
        cb = b[1] if b[0] == "const" else None
        if e[1] == "*":
            if ca is not None and cb is not None:
                return ("const", ca * cb)
            if cb is not None:
                return (a[0] / abs(cb), a[1], a[2])
            if ca is not None:
                return (b[0] / abs(ca), b[1], b[2])
            return mul(a, b)
        if e[1] == "/":
            if ca is not None and cb is not None:
                return ("const", ca / cb)
            if cb is not None:
                return (a[0] * abs(cb), a[1], a[2])
            if ca is not None:
                inv = div(DIMENSIONLESS, b)
                return (inv[0] / abs(ca), inv[1], inv[2])
            return div(a, b)
        if ca is not None or cb is not None:
            raise UnitError("constant added to a quantity")
        if a != b:
            raise UnitError("sum of different units")
        return a
    raise UnitError("sql expression %s" % k)


class FlowUnits:
    """Unit of a local name: from its suffix, else from the SQL column it is
    bound to, else from its unique defining expression; `extra` supplies
    units for names that come from elsewhere (e.g. unpacked call results)."""

    def __init__(self, ctx, finfo, extra=None, call_unit=None):
        from .flow import Flow
        from .sqlbind import bindings, select_column_name

        self.ctx = ctx
        self.f = finfo
        self.flow = Flow.of(finfo)
        self.extra = dict(extra or {})
        self.user_call_unit = call_unit
        self.bound = {}
        for b in bindings(ctx, finfo):
            for i, nm in enumerate(b.names):
                if not nm:
                    continue
                e, alias = b.site.stmt.columns[i]
                u = None
                name = select_column_name(b.site.stmt, i)
                if name:
                    u = unit_of_name(name)
                if u is None:
                    try:
                        u = sql_unit(e, lambda c: unit_of_name(c[2]))
                        if u[0] == "const":
                            u = None
                    except UnitError:
                        u = None
                if u is not None:
                    self.bound[nm] = u
        self._depth = 0

    def name_unit(self, node):
        u = unit_of_name(node.id)
        if u is not None:
            return u
        if node.id in self.extra:
            return self.extra[node.id]
        if node.id in self.bound:
            return self.bound[node.id]
        if self._depth > 6:
            return None
        try:
            v = self.flow.def_value(node)
        except Exception:  # noqa
            v = None
        if v is None:
            return None
        self._depth += 1
        try:
            u = self.evaluator().unit(v)
            return None if u[0] == "const" else u
        except UnitError:
            return None
        finally:
            self._depth -= 1

    def call_unit(self, call, ev):
        import ast as _ast
        from .source import dotted_name

        if self.user_call_unit is not None:
            u = self.user_call_unit(call, ev)
            if u is not None:
                return u
        fn = dotted_name(call.func) or ""
        last = fn.split(".")[-1]
        if last in ("array", "asarray", "mean", "float", "list", "tuple", "abs", "average") and call.args:
            return ev.unit(call.args[0])
        if isinstance(call.func, _ast.Attribute) and call.func.attr in ("mean", "tolist", "copy", "astype") and not call.args:
            return ev.unit(call.func.value)
        u = unit_of_name(last)
        if u is not None:
            return u
        if isinstance(call.func, _ast.Name):
            return self.name_unit(call.func)
        return None

    def evaluator(self):
        return UnitEval(name_unit=self.name_unit, call_unit=self.call_unit)

    def unit(self, expr):
        return self.evaluator().unit(expr)
