"""Result binding of SQL SELECT sites: select-list position -> Python names.

Recognised idioms (all occur in spowtd):
  (a, b) = (f(v) for v in zip(*cursor.execute(SQL)))      [gen/list comp]
  cursor.execute(SQL); (a, b) = (f(v) for v in zip(*cursor))
  cursor.execute(SQL); a, b = zip(*cursor.fetchall())
  for (a, b) in cursor.fetchall(): / for i, (a, b) in enumerate(cursor):
  x = cursor.fetchone()[0] ; (x,) = cursor.execute(SQL).fetchone()
  xs = [row[0] for row in cursor.fetchall()] ; [e for e, in cursor.execute(SQL)]
"""

import ast

from .flow import Flow
from .source import dotted_name, enclosing_stmt, is_ancestor


class Binding:
    def __init__(self, site, names, stmt, kind):
        self.site = site
        self.names = names  # list (per select column) of name or None
        self.stmt = stmt  # the binding statement (ast)
        self.kind = kind  # 'columns' (each name = whole column array) | 'rows' (per-row scalars) | 'scalar'
        self.matrix = None      # name of the 2-D array of rows the columns were taken from (M.T / M[:, k]), if any
        self.transforms = []    # [(function, axis text, call)] applied to that array before the columns were taken


def _target_names(t):
    if isinstance(t, ast.Name):
        return [t.id]
    if isinstance(t, (ast.Tuple, ast.List)):
        out = []
        for e in t.elts:
            if isinstance(e, ast.Name):
                out.append(e.id)
            else:
                out.append(None)
        return out
    return None


def _contains(node, target):
    return any(n is target for n in ast.walk(node))


def _is_cursor_ref(node, recv):
    return dotted_name(node) == recv


def bindings(ctx, finfo, _depth=0):
    """All recognisable bindings of SELECT sites in finfo, plus the bindings of
    helpers that run a query and return its columns:  `(a, b) = helper(conn)`
    where the helper ends in `return (x, y)` and x, y are bound to select-list
    columns there -- a, b are then bound to those columns here."""
    flow = Flow.of(finfo)
    out = []
    sites = [s for s in ctx.sites_in(finfo) if s.stmt is not None and s.stmt.kind == "select"]
    for s in sites:
        b = _bind_site(ctx, finfo, flow, s)
        if b is not None:
            out.append(b)
    # xs = [] ; for (a, b) in rows: xs.append(a)    ->  xs is the column bound to a
    for b in list(out):
        if b.kind == "rows" and isinstance(b.stmt, ast.For):
            names = [None] * len(b.names)
            for st in b.stmt.body:
                if isinstance(st, ast.Expr) and isinstance(st.value, ast.Call) and isinstance(st.value.func, ast.Attribute) \
                        and st.value.func.attr == "append" and isinstance(st.value.func.value, ast.Name) and len(st.value.args) == 1 \
                        and isinstance(st.value.args[0], ast.Name) and st.value.args[0].id in b.names:
                    lst = st.value.func.value.id
                    # the list starts empty and nothing else is put into it
                    inits = [a for a in ast.walk(finfo.node) if isinstance(a, ast.Assign) and len(a.targets) == 1 and isinstance(a.targets[0], ast.Name)
                             and a.targets[0].id == lst]
                    others = [c for c in ast.walk(finfo.node) if isinstance(c, ast.Call) and isinstance(c.func, ast.Attribute)
                              and c.func.attr in ("append", "extend", "insert") and isinstance(c.func.value, ast.Name) and c.func.value.id == lst and c is not st.value]
                    if len(inits) == 1 and isinstance(inits[0].value, ast.List) and not inits[0].value.elts and not others:
                        names[b.names.index(st.value.args[0].id)] = lst
            if any(names):
                nb = Binding(b.site, names, b.stmt, "columns")
                out.append(nb)
    if _depth < 2:
        for st in ast.walk(finfo.node):
            if not (isinstance(st, ast.Assign) and len(st.targets) == 1 and isinstance(st.value, ast.Call)):
                continue
            try:
                tg = ctx.cg.resolve_callee(finfo, st.value.func)
            except Exception:
                tg = []
            if len(tg) != 1 or tg[0] == finfo.fq:
                continue
            helper = ctx.cg.func(tg[0])
            rets = [r for r in ast.walk(helper.node) if isinstance(r, ast.Return) and r.value is not None]
            if len(rets) != 1:
                continue
            rv = rets[0].value
            rnames = [e.id if isinstance(e, ast.Name) else None for e in rv.elts] if isinstance(rv, (ast.Tuple, ast.List)) else \
                ([rv.id] if isinstance(rv, ast.Name) else None)
            tnames = _target_names(st.targets[0])
            if rnames is None or tnames is None or len(rnames) != len(tnames) or (isinstance(rv, ast.Name) and not isinstance(st.targets[0], ast.Name)):
                continue
            hflow = Flow.of(helper)
            for hb in bindings(ctx, helper, _depth + 1):
                if hb.kind != "columns":
                    continue
                names = [None] * len(hb.names)
                hit = False
                for col, hn in enumerate(hb.names):
                    if hn is None:
                        continue
                    for pos, rn in enumerate(rnames):
                        if rn == hn and tnames[pos] is not None:
                            # the returned name must still be the bound one (no reassignment in between)
                            rnode = rv.elts[pos] if isinstance(rv, (ast.Tuple, ast.List)) else rv
                            d = hflow.reaching_defs(rnode)
                            bn = hflow.cfg.node(hb.stmt)
                            if d is not None and bn is not None and d == {bn}:
                                names[col] = tnames[pos]
                                hit = True
                if hit:
                    nb = Binding(hb.site, names, st, hb.kind)
                    nb.via = helper.fq
                    out.append(nb)
    return out


def binding_of(ctx, finfo, site):
    return _bind_site(ctx, finfo, Flow.of(finfo), site)


def _bind_site(ctx, finfo, flow, s):
    st = enclosing_stmt(s.call)
    recv = s.receiver()
    # (1) the execute call itself is inside the binding statement
    b = _bind_in_stmt(s, st, s.call, recv)
    if b is not None:
        return b
    # (1b) rows = cursor.execute(...)[.fetchall()] ; ... rows consumed later
    if isinstance(st, ast.Assign) and len(st.targets) == 1 and isinstance(st.targets[0], ast.Name):
        v = st.value
        if isinstance(v, ast.Call) and isinstance(v.func, ast.Attribute) and v.func.attr == "fetchall" and v.func.value is s.call:
            v = s.call
        if isinstance(v, ast.Call) and isinstance(v.func, ast.Name) and v.func.id == "list" and len(v.args) == 1 and v.args[0] is s.call:
            v = s.call
        if v is s.call:
            recv = st.targets[0].id
    # (2) bare `cursor.execute(...)` statement: look at following statements
    # that consume the same receiver before it is executed again
    n = flow.cfg.node(st)
    if n is None:
        return None
    seen = set()
    frontier = list(flow.cfg.succ[n])
    steps = 0
    while frontier and steps < 8:
        steps += 1
        nxt = []
        for m in frontier:
            if m in seen or m < 3:
                continue
            seen.add(m)
            ms = flow.cfg.stmt_of.get(m)
            if ms is None:
                continue
            # another execute on this receiver ends the search
            hdr = ms
            consumer = _find_consumer(ms, recv)
            if consumer is not None:
                b = _bind_in_stmt(s, ms, consumer, recv)
                if b is not None:
                    return b
            if any(isinstance(c, ast.Call) and isinstance(c.func, ast.Attribute) and c.func.attr in ("execute", "executemany")
                   and dotted_name(c.func.value) == recv for c in ast.walk(ms) if not isinstance(ms, (ast.For, ast.While, ast.If, ast.With, ast.Try))):
                continue
            nxt.extend(flow.cfg.succ[m])
        frontier = nxt
    return None


def _find_consumer(stmt, recv):
    """Expression in stmt (header only for compound statements) that reads
    rows from the receiver: the receiver itself iterated / starred, or a
    fetch* call on it."""
    roots = [stmt]
    if isinstance(stmt, ast.For):
        roots = [stmt.iter]
    elif isinstance(stmt, (ast.If, ast.While)):
        roots = [stmt.test]
    elif isinstance(stmt, (ast.With, ast.Try, ast.FunctionDef)):
        return None
    for r in roots:
        for n in ast.walk(r):
            if isinstance(n, ast.Call) and isinstance(n.func, ast.Attribute) and n.func.attr in ("fetchall", "fetchone", "fetchmany") \
                    and dotted_name(n.func.value) == recv:
                return n
        for n in ast.walk(r):
            if isinstance(n, ast.Name) and dotted_name(n) == recv and isinstance(n.ctx, ast.Load):
                p = getattr(n, "parent", None)
                if isinstance(p, ast.Starred) or isinstance(p, ast.comprehension) or \
                        (isinstance(p, ast.Call) and p.func is not n and isinstance(p.func, ast.Name) and p.func.id in ("enumerate", "list", "zip", "iter", "tuple")) or \
                        (isinstance(stmt, ast.For) and stmt.iter is n):
                    return n
    return None


def _bind_in_stmt(s, stmt, source, recv):
    """`source` is the expression that yields the rows (the execute call,
    a fetch call or the cursor name) inside `stmt`."""
    ncols = len(s.stmt.columns)
    # climb from source to find the shape
    # For loops
    if isinstance(stmt, ast.For) and _contains(stmt.iter, source):
        it = stmt.iter
        tgt = stmt.target
        if isinstance(it, ast.Call) and isinstance(it.func, ast.Name) and it.func.id == "enumerate":
            if isinstance(tgt, ast.Tuple) and len(tgt.elts) == 2:
                tgt = tgt.elts[1]
            else:
                return None
        names = _target_names(tgt)
        if names is not None and isinstance(tgt, (ast.Tuple, ast.List)) and len(names) == ncols:
            return Binding(s, names, stmt, "rows")
        return None
    if not isinstance(stmt, (ast.Assign, ast.AnnAssign)):
        return None
    value = stmt.value
    target = stmt.targets[0] if isinstance(stmt, ast.Assign) else stmt.target
    names = _target_names(target)
    if names is None:
        return None
    # fetchone
    p = getattr(source, "parent", None)
    fetch = None
    node = source
    if isinstance(source, ast.Call) and isinstance(source.func, ast.Attribute) and source.func.attr.startswith("fetch"):
        fetch = source
    elif isinstance(p, ast.Attribute) and p.attr.startswith("fetch") and isinstance(getattr(p, "parent", None), ast.Call):
        fetch = p.parent
    if fetch is not None and fetch.func.attr == "fetchone":
        fp = getattr(fetch, "parent", None)
        idxv = None
        if isinstance(fp, ast.Subscript):
            if isinstance(fp.slice, ast.Constant) and isinstance(fp.slice.value, int):
                idxv = fp.slice.value
            elif isinstance(fp.slice, ast.UnaryOp) and isinstance(fp.slice.op, ast.USub) and isinstance(fp.slice.operand, ast.Constant):
                idxv = -fp.slice.operand.value
        if idxv is not None:
            if fp is value and isinstance(target, ast.Name):
                nm = [None] * ncols
                if -ncols <= idxv < ncols:
                    nm[idxv % ncols] = target.id
                return Binding(s, nm, stmt, "scalar")
            return None
        if fetch is value:
            if isinstance(target, (ast.Tuple, ast.List)) and len(names) == ncols:
                return Binding(s, names, stmt, "scalar")
            if isinstance(target, ast.Name):
                # row = cursor.fetchone() ; ... (a, b) = row   /   a = row[0]
                nm = [None] * ncols
                f_ = stmt
                while f_ is not None and not isinstance(f_, (ast.FunctionDef, ast.AsyncFunctionDef)):
                    f_ = getattr(f_, "parent", None)
                stores = [n for n in ast.walk(f_) if isinstance(n, ast.Name) and isinstance(n.ctx, ast.Store) and n.id == target.id] if f_ is not None else []
                if f_ is not None and len(stores) == 1:
                    for a in ast.walk(f_):
                        if isinstance(a, ast.Assign) and isinstance(a.value, ast.Name) and a.value.id == target.id \
                                and isinstance(a.targets[0], (ast.Tuple, ast.List)) and len(a.targets[0].elts) == ncols:
                            for k_, e in enumerate(a.targets[0].elts):
                                if isinstance(e, ast.Name):
                                    nm[k_] = e.id
                        if isinstance(a, ast.Assign) and isinstance(a.targets[0], ast.Name) and isinstance(a.value, ast.Subscript) \
                                and isinstance(a.value.value, ast.Name) and a.value.value.id == target.id \
                                and isinstance(a.value.slice, ast.Constant) and isinstance(a.value.slice.value, int) and -ncols <= a.value.slice.value < ncols:
                            nm[a.value.slice.value % ncols] = a.targets[0].id
                if any(nm):
                    return Binding(s, nm, stmt, "scalar")
                return Binding(s, [None] * ncols, stmt, "scalar-row:%s" % target.id)
        return None
    # (a, b) = [conversions](np.array(rows, ...).T): the columns of the row array, in select-list order
    if isinstance(target, (ast.Tuple, ast.List)) and len(names) == ncols and (fetch is None or fetch.func.attr == "fetchall"):
        rows_expr0 = fetch if fetch is not None else source
        v0 = value
        while isinstance(v0, ast.Call) and v0.args and (dotted_name(v0.func) or "").split(".")[-1] in ("ascontiguousarray", "array", "asarray", "copy", "list", "tuple"):
            v0 = v0.args[0]
        tr = None
        if isinstance(v0, ast.Attribute) and v0.attr == "T":
            tr = v0.value
        elif isinstance(v0, ast.Call) and (dotted_name(v0.func) or "").split(".")[-1] == "transpose" and len(v0.args) == 1:
            tr = v0.args[0]
        if isinstance(tr, ast.Call) and (dotted_name(tr.func) or "").split(".")[-1] in ("array", "asarray") and tr.args:
            a0 = tr.args[0]
            while isinstance(a0, ast.Call) and isinstance(a0.func, ast.Name) and a0.func.id in ("list", "tuple") and len(a0.args) == 1:
                a0 = a0.args[0]
            if a0 is rows_expr0:
                return Binding(s, names, stmt, "columns")
    # a 2-D array of the rows:  M = [wrappers](np.array(rows, ...)) ; later (a, b) = M.T  /  a = M[:, k]
    if isinstance(target, ast.Name) and fetch is not None and fetch.func.attr == "fetchall" or \
            (isinstance(target, ast.Name) and fetch is None and isinstance(source, ast.Name)):
        rows_expr = fetch if fetch is not None else source
        core = value
        transforms = []
        for _h in range(4):
            if isinstance(core, ast.Call) and (dotted_name(core.func) or "").split(".")[-1] in ("sort", "flipud", "flip", "unique", "ascontiguousarray") \
                    and core.args and isinstance(core.func, ast.Attribute):
                fn = (dotted_name(core.func) or "").split(".")[-1]
                ax = next((k.value for k in core.keywords if k.arg == "axis"), core.args[1] if len(core.args) > 1 else None)
                transforms.append((fn, ast.unparse(ax) if ax is not None else None, core))
                core = core.args[0]
            else:
                break
        if isinstance(core, ast.Call) and (dotted_name(core.func) or "").split(".")[-1] in ("array", "asarray") and core.args:
            a0 = core.args[0]
            while isinstance(a0, ast.Call) and isinstance(a0.func, ast.Name) and a0.func.id in ("list", "tuple") and len(a0.args) == 1:
                a0 = a0.args[0]
            if a0 is rows_expr:
                f_ = stmt
                while f_ is not None and not isinstance(f_, (ast.FunctionDef, ast.AsyncFunctionDef)):
                    f_ = getattr(f_, "parent", None)
                stores = [n for n in ast.walk(f_) if isinstance(n, ast.Name) and isinstance(n.ctx, ast.Store) and n.id == target.id] if f_ is not None else []
                if f_ is not None and len(stores) == 1:
                    nm = [None] * ncols
                    for a in ast.walk(f_):
                        if not isinstance(a, ast.Assign) or len(a.targets) != 1:
                            continue
                        v_ = a.value
                        if isinstance(v_, ast.Attribute) and v_.attr == "T" and isinstance(v_.value, ast.Name) and v_.value.id == target.id \
                                and isinstance(a.targets[0], (ast.Tuple, ast.List)) and len(a.targets[0].elts) == ncols:
                            for k_, e in enumerate(a.targets[0].elts):
                                if isinstance(e, ast.Name):
                                    nm[k_] = e.id
                        if isinstance(v_, ast.Subscript) and isinstance(v_.value, ast.Name) and v_.value.id == target.id and isinstance(v_.slice, ast.Tuple) \
                                and len(v_.slice.elts) == 2 and isinstance(v_.slice.elts[0], ast.Slice) and v_.slice.elts[0].lower is None \
                                and v_.slice.elts[0].upper is None and v_.slice.elts[0].step is None and isinstance(v_.slice.elts[1], ast.Constant) \
                                and isinstance(v_.slice.elts[1].value, int) and isinstance(a.targets[0], ast.Name) and -ncols <= v_.slice.elts[1].value < ncols:
                            nm[v_.slice.elts[1].value % ncols] = a.targets[0].id
                    if any(nm):
                        b = Binding(s, nm, stmt, "columns")
                        b.matrix = target.id
                        b.transforms = transforms
                        return b
    # zip(*rows) shapes
    # find the Starred ancestor of source
    n = source
    star = None
    while n is not None and n is not stmt:
        if isinstance(n, ast.Starred):
            star = n
            break
        n = getattr(n, "parent", None)
    if star is not None:
        z = getattr(star, "parent", None)
        if isinstance(z, ast.Call) and isinstance(z.func, ast.Name) and z.func.id == "zip" and len(z.args) == 1:
            if z is value:
                if isinstance(target, (ast.Tuple, ast.List)) and len(names) == ncols:
                    return Binding(s, names, stmt, "columns")
                return None
            # comprehension over zip(...): (f(v) for v in zip(*rows))
            comp = getattr(z, "parent", None)
            if isinstance(comp, ast.comprehension) and comp.iter is z:
                ce = getattr(comp, "parent", None)
                if isinstance(ce, (ast.GeneratorExp, ast.ListComp)) and len(ce.generators) == 1 and not comp.ifs:
                    # element must be a function of the loop variable only
                    if ce is value and isinstance(target, (ast.Tuple, ast.List)) and len(names) == ncols:
                        return Binding(s, names, stmt, "columns")
        return None
    # [row[0] for row in rows] / [e for e, in rows]
    n = source
    while n is not None and n is not stmt:
        pp = getattr(n, "parent", None)
        if isinstance(pp, ast.comprehension) and pp.iter is n:
            ce = getattr(pp, "parent", None)
            # np.array([...], dtype=...) / np.asarray / list around the comprehension: the same column
            vcore = value
            while isinstance(vcore, ast.Call) and vcore.args and ((dotted_name(vcore.func) or "").split(".")[-1] in ("array", "asarray", "list", "tuple", "fromiter")):
                vcore = vcore.args[0]
            if isinstance(ce, (ast.ListComp, ast.GeneratorExp)) and (ce is value or ce is vcore) and isinstance(target, ast.Name):
                elt = ce.elt
                t = pp.target
                nm = [None] * ncols
                if isinstance(t, ast.Name) and isinstance(elt, ast.Subscript) and isinstance(elt.value, ast.Name) and elt.value.id == t.id \
                        and isinstance(elt.slice, ast.Constant) and isinstance(elt.slice.value, int) and elt.slice.value < ncols:
                    nm[elt.slice.value] = target.id
                    return Binding(s, nm, stmt, "columns")
                if isinstance(t, (ast.Tuple, ast.List)) and isinstance(elt, ast.Name):
                    tn = _target_names(t)
                    if tn and elt.id in tn and len(tn) == ncols:
                        nm[tn.index(elt.id)] = target.id
                        return Binding(s, nm, stmt, "columns")
            return None
        n = pp
    return None


def select_column_name(sel, i):
    """Output name of select-list item i (alias, or bare column name)."""
    e, alias = sel.columns[i]
    if alias:
        return alias
    if e[0] == "col":
        return e[2]
    return None
