"""Thorough tier: checker self-validation on the current tree.

Each property has a corpus of labelled source edits (spverif/corpus/<id>.py):
  * breaking edits  (expect = "fire"):   the check must report a VIOLATION
    (optionally: of the named rule);
  * preserving edits (expect = "silent"): the check must stay silent.
  * preserving rewrites beyond the idioms the analysis recognises
    (expect = "no-alarm"): the check may say "cannot decide" (exit 2) but
    must never report a VIOLATION.
Edits are applied in memory (overlay) to the *current* text of /repo; an
edit whose anchor text is not present any more is skipped and counted.
A missed breaking edit or a flagged preserving edit is a defect of the
machinery: reported as ANALYSIS-ERROR (exit 2), never as a VIOLATION.
"""

import importlib
import os
from concurrent.futures import ProcessPoolExecutor


def load_corpus(pid):
    try:
        mod = importlib.import_module("spverif.corpus.%s" % pid.lower())
    except ImportError:
        return []
    return list(mod.EDITS) + seeded_corpus(pid) + preserving_corpus()


def preserving_corpus():
    """Independently written behaviour-preserving refactorings (preserving/<id>/patch.diff, each with the
    author's differential check): no check may report a violation on any of them; "cannot decide" is allowed."""
    root = os.path.dirname(os.path.dirname(os.path.abspath(__file__)))
    d = os.path.join(root, "preserving")
    out = []
    if os.path.isdir(d):
        for name in sorted(os.listdir(d)):
            if os.path.exists(os.path.join(d, name, "patch.diff")):
                out.append({"id": "preserving:" + name, "expect": "no-alarm", "patch": "preserving/%s/patch.diff" % name})
    return out


def seeded_corpus(pid):
    """The independently written breaking changes under seeded/ (seeded/expectations.json says which
    check must report which of them; "not-silent" = the change is beyond what the analysis decides,
    the check must at least refuse to pass it)."""
    import json

    root = os.path.dirname(os.path.dirname(os.path.abspath(__file__)))
    path = os.path.join(root, "seeded", "expectations.json")
    if not os.path.exists(path):
        return []
    out = []
    for seed, per in sorted(json.load(open(path)).items()):
        if pid in per and os.path.exists(os.path.join(root, "seeded", seed, "patch.diff")):
            e = {"id": "seeded:" + seed, "patch": "seeded/%s/patch.diff" % seed}
            e.update(per[pid])
            if not any(x.get("patch") == e["patch"] and x.get("expect") == e["expect"] for x in _explicit(pid)):
                out.append(e)
    return out


def _explicit(pid):
    try:
        return importlib.import_module("spverif.corpus.%s" % pid.lower()).EDITS
    except ImportError:
        return []


def apply_edit(repo, edit):
    """-> overlay dict or None if not applicable."""
    overlay = {}
    if "patch" in edit:
        overlay = apply_patch(repo, edit["patch"])
        if overlay is None:
            return None
    parts = edit["edits"] if "edits" in edit else ([edit] if "old" in edit else [])
    for p in parts:
        rel = p["file"]
        try:
            src = overlay[rel] if rel in overlay else repo.read_text(rel)
        except Exception:
            return None
        old, new = p["old"], p["new"]
        n = src.count(old)
        occ = p.get("occurrence")
        if n == 0:
            return None
        if occ is None:
            if n != 1 and not p.get("all"):
                return None
            src = src.replace(old, new)
        else:
            if occ >= n:
                return None
            idx = -1
            for _ in range(occ + 1):
                idx = src.find(old, idx + 1)
            src = src[:idx] + new + src[idx + len(old):]
        overlay[rel] = src
    return overlay


def apply_patch(repo, relpatch):
    """Apply a unified diff (path relative to /verif) to the current text of the files it touches."""
    import re
    import shutil
    import subprocess
    import tempfile

    root = os.path.dirname(os.path.dirname(os.path.abspath(__file__)))
    path = os.path.join(root, relpatch)
    if not os.path.exists(path):
        return None
    text = open(path).read()
    files = sorted(set(re.findall(r"^\+\+\+ b/(\S+)", text, flags=re.M)))
    tmp = tempfile.mkdtemp(prefix="spverif_patch_", dir="/tmp")
    try:
        created = set(re.findall(r"^--- /dev/null\n\+\+\+ b/(\S+)", text, flags=re.M))
        for rel in files:
            if rel in created:
                continue                      # a file the patch adds
            try:
                src = repo.read_text(rel)
            except Exception:
                return None
            os.makedirs(os.path.dirname(os.path.join(tmp, rel)), exist_ok=True)
            with open(os.path.join(tmp, rel), "w") as fh:
                fh.write(src)
        for rel in created:
            os.makedirs(os.path.dirname(os.path.join(tmp, rel)), exist_ok=True)
        r = subprocess.run(["patch", "-p1", "-s", "-d", tmp, "-i", path], capture_output=True, text=True)
        if r.returncode != 0:
            return None
        return {rel: open(os.path.join(tmp, rel)).read() for rel in files}
    finally:
        shutil.rmtree(tmp, ignore_errors=True)


def _run_one(args):
    pid, overlay = args
    from .__main__ import run_property

    lines = []
    code, chk = run_property(pid, "quick", overlay=overlay, write=False, out=lines.append)
    rules = sorted({v.rule for v in chk.violations()})
    from .report import load_known_findings

    kf = [k for k in load_known_findings().get("open", []) if k.get("property") == pid]
    new_rules = sorted({
        v.rule for v in chk.violations()
        if not any(k.get("rule") == v.rule and k.get("key") == v.key for k in kf)
    })
    return code, new_rules, chk.errors[:3]


def run(pid, ctx, chk):
    corpus = load_corpus(pid)
    jobs = []
    skipped = []
    for e in corpus:
        ov = apply_edit(ctx.repo, e)
        if ov is None:
            skipped.append(e["id"])
            continue
        jobs.append((e, ov))
    results = []
    if jobs:
        workers = min(16, len(jobs), os.cpu_count() or 1)
        with ProcessPoolExecutor(max_workers=workers) as ex:
            outs = list(ex.map(_run_one, [(pid, ov) for _, ov in jobs]))
        for (e, _), (code, rules, errs) in zip(jobs, outs):
            results.append((e, code, rules, errs))
    fired_ok = silent_ok = noalarm_ok = 0
    failures = []
    table = []
    for e, code, rules, errs in results:
        exp = e["expect"]
        row = {"id": e["id"], "expect": exp, "exit": code, "rules": rules}
        if exp == "fire":
            want = e.get("rule")
            good = code == 1 and (want is None or want in rules)
            if good:
                fired_ok += 1
            else:
                failures.append("breaking edit %s not reported as expected (exit %d, rules %s, errors %s)"
                                % (e["id"], code, rules, errs))
        elif exp == "not-silent":
            good = code in (1, 2)
            if good:
                fired_ok += 1
            else:
                failures.append("breaking change %s passed the check (exit %d)" % (e["id"], code))
        elif exp == "no-alarm":
            good = code in (0, 2) and not rules
            if good:
                noalarm_ok += 1
            else:
                failures.append("behaviour-preserving rewrite %s reported as a violation (exit %d, rules %s)" % (e["id"], code, rules))
        else:
            good = code == 0
            if good:
                silent_ok += 1
            else:
                failures.append("behaviour-preserving edit %s flagged (exit %d, rules %s, errors %s)"
                                % (e["id"], code, rules, errs))
        row["ok"] = good
        table.append(row)
    chk.extra["self_validation"] = {
        "corpus_size": len(corpus),
        "applied": len(results),
        "skipped_anchor_missing": skipped,
        "breaking_detected": fired_ok,
        "preserving_silent": silent_ok,
        "rewrites_without_alarm": noalarm_ok,
        "failures": failures,
        "table": table,
    }
    chk.count("selfvalidation_variants", len(results))
    for f in failures:
        chk.errors.append("self-validation: " + f)
