"""Memo tables: a module-level dictionary filled on a miss and read back under a key.

    KEY = (a, b, c)
    if KEY not in CACHE:          (or CACHE.get(KEY) is None / try: CACHE[KEY] except KeyError)
        ... CACHE[KEY] = value computed from the object's state ...
    value = CACHE[KEY]

The key must name everything the cached computation reads.  This rule reads the methods the miss branch calls on `self`
(transitively, inside the class) for the data attributes they load, and compares them with the attributes that make up
the key.  An attribute that is read and not in the key is reported: the value cached under one setting of it is handed
out for another.  Zero instances on the pinned tree; a positive control runs on every invocation.
"""

import ast

from .flow import Flow
from .report import where_of


def _self_attrs(node):
    return {n.attr for n in ast.walk(node) if isinstance(n, ast.Attribute) and isinstance(n.value, ast.Name) and n.value.id == "self" and isinstance(n.ctx, ast.Load)}


def _class_methods(clsnode):
    return {m.name: m for m in clsnode.body if isinstance(m, ast.FunctionDef)}


def _reads_of_methods(clsnode, roots):
    """Data attributes loaded by the methods `roots` of the class and by the self-methods they call."""
    methods = _class_methods(clsnode)
    seen, stack, reads = set(), list(roots), set()
    while stack:
        m = stack.pop()
        if m in seen or m not in methods:
            continue
        seen.add(m)
        for a in _self_attrs(methods[m]):
            if a in methods:
                stack.append(a)
            else:
                reads.add(a)
    return reads


def find_memo_sites(tree):
    """(class node or None, function node, cache name, key expr, miss-branch statements, store statement)"""
    caches = {t.id for st in tree.body if isinstance(st, ast.Assign) and isinstance(st.value, (ast.Dict, ast.Call))
              and (isinstance(st.value, ast.Dict) and not st.value.keys or
                   (isinstance(st.value, ast.Call) and isinstance(st.value.func, (ast.Name, ast.Attribute))
                    and (st.value.func.id if isinstance(st.value.func, ast.Name) else st.value.func.attr) in ("dict", "OrderedDict", "defaultdict") and not st.value.args))
              for t in st.targets if isinstance(t, ast.Name)}
    out = []
    if not caches:
        return out
    for cls in [None] + [c for c in tree.body if isinstance(c, ast.ClassDef)]:
        funcs = [f for f in (tree.body if cls is None else cls.body) if isinstance(f, ast.FunctionDef)]
        for f in funcs:
            for iff in ast.walk(f):
                if not isinstance(iff, ast.If):
                    continue
                t = iff.test
                cache = key = None
                if isinstance(t, ast.Compare) and len(t.ops) == 1 and isinstance(t.ops[0], ast.NotIn) and isinstance(t.comparators[0], ast.Name) \
                        and t.comparators[0].id in caches:
                    cache, key = t.comparators[0].id, t.left
                elif isinstance(t, ast.Compare) and len(t.ops) == 1 and isinstance(t.ops[0], ast.Is) and isinstance(t.comparators[0], ast.Constant) \
                        and t.comparators[0].value is None and isinstance(t.left, ast.Call) and isinstance(t.left.func, ast.Attribute) and t.left.func.attr == "get" \
                        and isinstance(t.left.func.value, ast.Name) and t.left.func.value.id in caches and t.left.args:
                    cache, key = t.left.func.value.id, t.left.args[0]
                if cache is None:
                    continue
                stores = [s for s in ast.walk(iff) if isinstance(s, ast.Assign) and isinstance(s.targets[0], ast.Subscript)
                          and isinstance(s.targets[0].value, ast.Name) and s.targets[0].value.id == cache]
                if stores:
                    out.append((cls, f, cache, key, iff.body, stores[0]))
    return out


def memo_keys(ctx, chk, rule, modules, key_prefix):
    n = 0
    for modname in modules:
        m = ctx.repo.modules.get(modname)
        if m is None:
            continue
        for cls, f, cache, key, miss, store in find_memo_sites(m.tree):
            n += 1
            finfo = next((fi for q, fi in m.functions.items() if fi.node is f), None)
            where = where_of(finfo, store) if finfo is not None else (m.relpath, f.name, store.lineno)
            if cls is None or finfo is None:
                chk.indeterminate(rule, where, "memo table %s filled outside a class: what the cached value depends on is not read" % cache)
                continue
            flow = Flow.of(finfo)
            kexpr = flow.def_value(key) if isinstance(key, ast.Name) and flow.def_value(key) is not None else key
            key_attrs = set()
            opaque = False
            for e in (kexpr.elts if isinstance(kexpr, (ast.Tuple, ast.List)) else [kexpr]):
                ex = flow.expand(e)
                a = _self_attrs(ex)
                if a:
                    key_attrs |= a
                elif not isinstance(ex, ast.Constant):
                    opaque = True
            called = {a for st in miss for a in _self_attrs(st)}
            methods = _class_methods(cls)
            reads = {a for a in called if a not in methods} | _reads_of_methods(cls, [a for a in called if a in methods])
            # attributes that are assigned in the miss branch itself are outputs, not inputs
            outs = {t.attr for st in miss for x in ast.walk(st) if isinstance(x, ast.Assign) for t in x.targets
                    if isinstance(t, ast.Attribute) and isinstance(t.value, ast.Name) and t.value.id == "self"}
            missing = sorted(reads - key_attrs - outs)
            if opaque and missing:
                chk.indeterminate(rule, where, "memo table %s: part of the key (%s) is not an attribute of the object; not decided" % (cache, ast.unparse(kexpr)[:60]))
                continue
            chk.ob(rule, not missing, where,
                   "memo table %s keyed by %s; the cached computation also reads self.%s" % (cache, ast.unparse(kexpr)[:60], ", self.".join(missing)) if missing
                   else "memo table %s keyed by %s: every attribute the cached computation reads is in the key" % (cache, ast.unparse(kexpr)[:60]),
                   "the key of a memo table names everything the cached value depends on", key="%s|memo|%s|%s" % (key_prefix, f.name, cache),
                   why="a value cached under one setting of the missing quantity is handed out for another: the second object built in a process is wrong")
    # positive control
    ctl = ast.parse(
        "_C = {}\nclass K:\n    def build(self):\n        k = (self.a,)\n        if k not in _C:\n            _C[k] = self.work()\n        return _C[k]\n"
        "    def work(self):\n        return self.a * self.b\n")
    sites = find_memo_sites(ctl)
    if len(sites) != 1 or _reads_of_methods(sites[0][0], ["work"]) != {"a", "b"}:
        chk.errors.append("%s positive control (memo key) did not match" % rule)
    chk.count("%s memo tables read" % key_prefix, n)
    return n
