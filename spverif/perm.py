"""Sorting permutations: values that are in sorted order are not put back by the sorting permutation.

    P = np.argsort(X)          the sorting permutation: X[P] is X in ascending order
    S = X[P]                   (or np.sort(X) / sorted(X))
    V = g(S)                   anything computed from the sorted values, element by element or cumulatively
    return V[P]                <- named: this sorts once more; V[k] belongs to X[P[k]], so the value of X[j] is
                                  V[argsort(P)[j]].  Right:  out[P] = V  (scatter)  or  V[np.argsort(P)]  (inverse).

`V[P]` equals the right answer only when P is its own inverse (identity, reversal, disjoint swaps), which is what
ascending and descending test inputs give.  Zero instances on the pinned tree; a positive control (and a negative one)
runs on every invocation.  The rule is syntactic in one respect only: "computed from the sorted values" is a may-taint
over the assignments of the function (plain, augmented, element stores, loop targets), which over-approximates
dependence; a gather `V[P]` of a tainted V is wrong whatever the dependence is, because V's order is the sorted one.
"""

import ast

from .report import where_of


def _is_argsort(c):
    return isinstance(c, ast.Call) and ((isinstance(c.func, ast.Attribute) and c.func.attr == "argsort")
                                        or (isinstance(c.func, ast.Name) and c.func.id == "argsort"))


def _argsort_operand(c):
    if isinstance(c.func, ast.Attribute) and isinstance(c.func.value, ast.Name) and c.func.value.id in ("np", "numpy"):
        return c.args[0] if c.args else None
    if isinstance(c.func, ast.Attribute) and not c.args:
        return c.func.value          # X.argsort()
    return c.args[0] if c.args else None


def _root(t):
    while isinstance(t, (ast.Subscript, ast.Attribute, ast.Starred)):
        t = t.value
    return t.id if isinstance(t, ast.Name) else None


def _names(e):
    return {n.id for n in ast.walk(e) if isinstance(n, ast.Name)}


def find_double_sorts(fnode):
    """[(gather node V[P], P name, argsort call)] in one function body (nested defs included: closures share names)."""
    # single-assignment permutation names
    assigns = {}
    for n in ast.walk(fnode):
        if isinstance(n, ast.Assign):
            for t in n.targets:
                if isinstance(t, ast.Name):
                    assigns.setdefault(t.id, []).append(n.value)
                elif isinstance(t, (ast.Tuple, ast.List)):
                    for e in t.elts:
                        if isinstance(e, ast.Name):
                            assigns.setdefault(e.id, []).append(None)
        elif isinstance(n, (ast.AugAssign, ast.AnnAssign)) and isinstance(n.target, ast.Name):
            assigns.setdefault(n.target.id, []).append(None)
        elif isinstance(n, (ast.For, ast.comprehension)):
            for e in ast.walk(n.target):
                if isinstance(e, ast.Name):
                    assigns.setdefault(e.id, []).append(None)
    perms = {}
    for name, vals in assigns.items():
        if len(vals) == 1 and _is_argsort(vals[0]):
            op = _argsort_operand(vals[0])
            # argsort(argsort(x)) / argsort(P) is the inverse permutation
            inner = op
            if isinstance(op, ast.Name) and len(assigns.get(op.id, [])) == 1 and assigns[op.id][0] is not None:
                inner = assigns[op.id][0]
            if _is_argsort(inner):
                continue
            kw = {k.arg: k.value for k in vals[0].keywords}
            if "axis" in kw and not (isinstance(kw["axis"], ast.Constant) and kw["axis"].value in (0, -1, None)):
                continue
            perms[name] = (vals[0], op)
    if not perms:
        return []
    out = []
    for pname, (call, operand) in perms.items():
        opd = ast.dump(operand) if operand is not None else None
        # names holding the operand itself (X and plain aliases): X[P] is the sort
        tainted = set()

        def is_sorted_value(v):
            if isinstance(v, ast.Subscript) and isinstance(v.slice, ast.Name) and v.slice.id == pname and isinstance(v.ctx, ast.Load):
                return True
            if isinstance(v, ast.Call) and ((isinstance(v.func, ast.Attribute) and v.func.attr in ("sort", "take_along_axis") and v.args and opd is not None
                                            and ast.dump(v.args[0]) == opd)
                                           or (isinstance(v.func, ast.Name) and v.func.id == "sorted" and v.args and opd is not None and ast.dump(v.args[0]) == opd)):
                return True
            if isinstance(v, ast.Call) and isinstance(v.func, ast.Attribute) and v.func.attr == "take" and v.args and isinstance(v.args[-1], ast.Name) and v.args[-1].id == pname:
                return True
            return False

        changed = True
        rounds = 0
        while changed and rounds < 20:
            changed = False
            rounds += 1
            for n in ast.walk(fnode):
                tg, val = [], None
                if isinstance(n, ast.Assign):
                    tg, val = n.targets, n.value
                elif isinstance(n, ast.AugAssign):
                    tg, val = [n.target], n.value
                elif isinstance(n, ast.AnnAssign) and n.value is not None:
                    tg, val = [n.target], n.value
                elif isinstance(n, ast.For):
                    tg, val = [n.target], n.iter
                elif isinstance(n, ast.comprehension):
                    tg, val = [n.target], n.iter
                if val is None:
                    continue
                src = any(is_sorted_value(x) for x in ast.walk(val)) or bool(_names(val) & tainted)
                if not src:
                    continue
                for t in tg:
                    for e in ([t] if not isinstance(t, (ast.Tuple, ast.List)) else t.elts):
                        # a scatter `out[P] = V` puts the values back: `out` is in the caller's order
                        if isinstance(e, ast.Subscript) and isinstance(e.slice, ast.Name) and e.slice.id == pname:
                            continue
                        r = _root(e)
                        if r is not None and r != pname and r not in tainted:
                            tainted.add(r)
                            changed = True
        for n in ast.walk(fnode):
            if isinstance(n, ast.Subscript) and isinstance(n.ctx, ast.Load) and isinstance(n.slice, ast.Name) and n.slice.id == pname:
                base = n.value
                if opd is not None and ast.dump(base) == opd:
                    continue            # X[P]: the sort itself
                if _names(base) & tainted or any(is_sorted_value(x) for x in ast.walk(base)):
                    out.append((n, pname, call))
    return out


_CTL_BAD = """
def f(x):
    order = np.argsort(x)
    xs = x[order]
    d = np.empty(len(xs))
    for i in range(1, len(xs)):
        d[i] = g(xs[i - 1], xs[i])
    return np.cumsum(d)[order]
"""
_CTL_GOOD = """
def f(x):
    order = np.argsort(x)
    xs = x[order]
    d = np.empty(len(xs))
    for i in range(1, len(xs)):
        d[i] = g(xs[i - 1], xs[i])
    out = np.empty(len(xs))
    out[order] = np.cumsum(d)
    inv = np.argsort(order)
    return out + 0 * np.cumsum(d)[inv]
"""


def sorted_values_regathered(ctx, chk, rule, modules, key_prefix):
    n = 0
    for modname in modules:
        m = ctx.repo.modules.get(modname)
        if m is None:
            continue
        for q, fi in sorted(m.functions.items()):
            if ".<locals>." in q:
                continue
            n += 1
            for node, pname, call in find_double_sorts(fi.node):
                chk.ob(rule, False, where_of(fi, node),
                       "%s with %s = %s: values held in sorted order are gathered by the sorting permutation" % (ast.unparse(node)[:60], pname, ast.unparse(call)[:50]),
                       "each value at the position of its own level: scatter `out[%s] = values`, or gather by the inverse permutation np.argsort(%s)" % (pname, pname),
                       key="%s|resorted|%s" % (key_prefix, q), local=True,
                       why="indexing by the sorting permutation sorts; applied to values already in sorted order it permutes them once more, so unless the permutation is its own inverse (ascending or descending input) the values sit under other levels than their own")
    bad = find_double_sorts(ast.parse(_CTL_BAD).body[0])
    good = find_double_sorts(ast.parse(_CTL_GOOD).body[0])
    if len(bad) != 1 or good:
        chk.errors.append("%s positive control (sorted values gathered by the sorting permutation) did not behave: %d / %d" % (rule, len(bad), len(good)))
    chk.count("%s functions scanned for sorting permutations" % key_prefix, n)
    return n


FIXED_ORDER = ("fixed_quad", "trapezoid", "trapz", "simpson", "simps", "romb", "cumulative_trapezoid", "cumtrapz", "cumulative_simpson", "newton_cotes")


def fixed_order_quadrature(ctx, chk, rule, modules, key_prefix, why):
    """An integral of the property is computed by the adaptive routine (or in closed form) on every path: a fixed-order rule
    (`fixed_quad`, trapezoid, Simpson, Romberg on samples) has no error control, so its value is not the integral to any
    stated tolerance.  Zero instances on the pinned tree; positive control."""
    def find(tree):
        out = []
        for c in ast.walk(tree):
            if isinstance(c, ast.Call):
                nm = c.func.attr if isinstance(c.func, ast.Attribute) else (c.func.id if isinstance(c.func, ast.Name) else None)
                if nm in FIXED_ORDER:
                    out.append(c)
        return out
    n = 0
    for modname in modules:
        m = ctx.repo.modules.get(modname)
        if m is None:
            continue
        for q, fi in sorted(m.functions.items()):
            if ".<locals>." in q:
                continue
            n += 1
            for c in find(fi.node):
                chk.ob(rule, False, where_of(fi, c), "%s: a fixed-order quadrature rule supplies the integral on some path" % ast.unparse(c)[:70],
                       "the integral comes from the adaptive routine (scipy.integrate.quad, to its tolerance) or from a closed form, on every path",
                       key="%s|fixed-order|%s" % (key_prefix, q), why=why, local=True)
    ctl = ast.parse("def f(g, a, b):\n    v, e, info, *msg = quad(g, a, b, full_output=1)\n    if msg:\n        v = fixed_quad(g, a, b)[0]\n    return v\n")
    if len(find(ctl)) != 1 or find(ast.parse("def f(g, a, b):\n    return quad(g, a, b)[0]\n")):
        chk.errors.append("%s positive control (fixed-order quadrature) did not behave" % rule)
    chk.count("%s functions scanned for fixed-order quadrature" % key_prefix, n)
    return n
