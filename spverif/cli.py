"""CLI wiring facts: sub-command -> options (flags, dest, type, default)
and dispatch call keyword -> args.<dest>."""

import ast

from .source import dotted_name


class Option:
    def __init__(self, flags, dest, kw, node):
        self.flags = flags
        self.dest = dest
        self.kw = kw
        self.node = node

    def __repr__(self):
        return "<Option %s -> %s>" % ("/".join(self.flags), self.dest)


def _dest_of(flags, kw):
    if "dest" in kw and isinstance(kw["dest"], ast.Constant):
        return kw["dest"].value
    longs = [f for f in flags if f.startswith("--")]
    if longs:
        return longs[0][2:].replace("-", "_")
    shorts = [f for f in flags if f.startswith("-")]
    if shorts and len(flags) == len(shorts):
        return shorts[0][1:]
    return flags[0] if flags else None


def options_of_function(finfo, parser_param=None):
    """add_argument calls on the function's parser parameter."""
    out = []
    pname = parser_param or (finfo.params[0] if finfo.params else None)
    for n in ast.walk(finfo.node):
        if isinstance(n, ast.Call) and isinstance(n.func, ast.Attribute) and n.func.attr == "add_argument" \
                and isinstance(n.func.value, ast.Name) and n.func.value.id == pname:
            flags = [a.value for a in n.args if isinstance(a, ast.Constant) and isinstance(a.value, str)]
            kw = {k.arg: k.value for k in n.keywords}
            out.append(Option(flags, _dest_of(flags, kw), kw, n))
    return out


def task_options(ctx, ui="user_interface", builder="create_parsers"):
    """{task name: [Option]} by following `p = subparsers.add_parser('task')`
    and `add_x_args(p)` in create_parsers."""
    f = ctx.func("%s.%s" % (ui, builder))
    var_task = {}
    for n in ast.walk(f.node):
        if isinstance(n, ast.Assign) and isinstance(n.value, ast.Call) and isinstance(n.value.func, ast.Attribute) \
                and n.value.func.attr == "add_parser" and n.value.args and isinstance(n.value.args[0], ast.Constant) \
                and isinstance(n.targets[0], ast.Name):
            var_task[n.targets[0].id] = n.value.args[0].value
    out = {}
    incomplete = False
    for n in ast.walk(f.node):
        if isinstance(n, ast.Call) and isinstance(n.func, ast.Name) and n.args and isinstance(n.args[0], ast.Name) \
                and n.args[0].id in var_task:
            tg = ctx.cg.resolve_callee(f, n.func)
            if len(tg) == 1:
                out.setdefault(var_task[n.args[0].id], []).extend(options_of_function(ctx.cg.func(tg[0])))
        elif isinstance(n, ast.Call) and isinstance(n.func, ast.Name) and n.args and not isinstance(n.args[0], (ast.Name, ast.Constant)):
            # a repository function that adds options receives a parser this analysis cannot name
            try:
                tg = ctx.cg.resolve_callee(f, n.func)
            except Exception:
                tg = []
            if len(tg) == 1 and options_of_function(ctx.cg.func(tg[0])):
                incomplete = True
    if incomplete:
        # which parser those options went to is unknown: no task's option list can be trusted to be complete
        return {}
    return out


def args_attr(node):
    """args.x -> 'x'"""
    if isinstance(node, ast.Attribute) and isinstance(node.value, ast.Name) and node.value.id == "args":
        return node.attr
    return None


def entry_binding(ctx, disp, branch, entry):
    """{param name: value AST} with which the dispatch branch calls `entry`,
    either directly or through a helper of the same module that receives the
    function as an argument and forwards **kwargs to it.  Returns (binding,
    call node) or (None, None)."""
    for n in ast.walk(branch):
        if not isinstance(n, ast.Call):
            continue
        tg = ctx.cg.resolve_callee(disp, n.func)
        if entry.fq in tg:
            bind = {}
            for i, a in enumerate(n.args):
                if i < len(entry.params):
                    bind[entry.params[i]] = a
            for k in n.keywords:
                if k.arg:
                    bind[k.arg] = k.value
            return bind, n
        for t in tg:
            helper = ctx.cg.func(t)
            hp = helper.params
            passed_as = None
            for i, a in enumerate(n.args):
                if i < len(hp) and isinstance(a, (ast.Name, ast.Attribute)) and entry.fq in ctx.cg.resolve_callee(disp, a):
                    passed_as = hp[i]
            for k in n.keywords:
                if k.arg in hp and isinstance(k.value, (ast.Name, ast.Attribute)) and entry.fq in ctx.cg.resolve_callee(disp, k.value):
                    passed_as = k.arg
            if passed_as is None:
                continue
            kwname = helper.node.args.kwarg.arg if helper.node.args.kwarg else None
            forwards = False
            for c in ast.walk(helper.node):
                if isinstance(c, ast.Call) and isinstance(c.func, ast.Name) and c.func.id == passed_as:
                    for k in c.keywords:
                        if k.arg is None and isinstance(k.value, ast.Name) and k.value.id == kwname:
                            forwards = True
            if forwards:
                bind = {k.arg: k.value for k in n.keywords if k.arg and k.arg not in hp}
                return bind, n
    return None, None
