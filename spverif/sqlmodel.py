"""E4 -- SQL model: tokenizer + recursive-descent parser for the dialect
subset used by spowtd (schema.sql and every embedded statement), schema
object, and extraction of execute/executemany/executescript call sites.

Expression AST (tuples):
  ('col', table_or_None, name)   ('num', text)   ('str', s)   ('null',)
  ('param', key)  key = int position (0-based, for ?) or str (for :name)
  ('bin', op, l, r)  op in + - * / % || = != < <= > >= AND OR IS ISNOT IN LIKE
  ('un', op, e)      op in - + NOT
  ('call', NAME, [args], distinct_flag)   ('star',)
  ('cast', e, type_text)   ('exists', Select)   ('subq', Select)
  ('inlist', e, [items])   ('bool', True/False)
"""

import ast
import re

from .source import AnalysisError, const_str, dotted_name, walk_no_nested

KEYWORDS = {
    "SELECT", "FROM", "WHERE", "JOIN", "ON", "USING", "AS", "AND", "OR", "NOT",
    "GROUP", "BY", "ORDER", "ASC", "DESC", "INSERT", "INTO", "VALUES", "UPDATE",
    "SET", "DELETE", "CREATE", "TABLE", "VIEW", "PRIMARY", "KEY", "UNIQUE",
    "CHECK", "REFERENCES", "FOREIGN", "DEFAULT", "NULL", "WITH", "DISTINCT",
    "LEFT", "INNER", "OUTER", "CROSS", "EXISTS", "CAST", "IN", "IS", "LIMIT",
    "UNION", "ALL", "PRAGMA", "HAVING", "CASE", "WHEN", "THEN", "ELSE", "END",
    "BETWEEN", "LIKE", "TRUE", "FALSE", "REPLACE", "BEGIN", "COMMIT",
    "ROLLBACK", "SAVEPOINT", "RELEASE", "DROP", "ALTER", "INDEX", "IF",
    "TEMP", "TEMPORARY", "CONSTRAINT", "NATURAL", "OFFSET", "TRANSACTION",
    "VACUUM", "ATTACH", "DETACH", "REINDEX", "ANALYZE", "TRIGGER", "RETURNING",
    "EXCEPT", "INTERSECT", "GLOB", "COLLATE", "ISNULL", "NOTNULL",
}

_tok_re = re.compile(
    r"""
    (?P<ws>\s+|--[^\n]*|/\*.*?\*/)
  | (?P<num>(?:\d+\.\d*|\.\d+|\d+)(?:[eE][+-]?\d+)?)
  | (?P<str>'(?:[^']|'')*')
  | (?P<qid>"(?:[^"]|"")*"|\[[^\]]*\]|`[^`]*`)
  | (?P<param>\?\d*|:[A-Za-z_][A-Za-z_0-9]*)
  | (?P<id>[A-Za-z_][A-Za-z_0-9]*)
  | (?P<op><=|>=|<>|!=|==|\|\||[-+*/%<>=(),.;])
    """,
    re.X | re.S,
)


def tokenize(sql):
    toks = []
    pos = 0
    while pos < len(sql):
        m = _tok_re.match(sql, pos)
        if not m:
            raise AnalysisError("SQL tokenizer: bad input at %r" % sql[pos : pos + 20])
        pos = m.end()
        k = m.lastgroup
        if k == "ws":
            continue
        v = m.group(k)
        if k == "id":
            if v.upper() in KEYWORDS:
                toks.append(("kw", v.upper()))
            else:
                toks.append(("id", v))
        elif k == "qid":
            toks.append(("id", v[1:-1]))
        elif k == "str":
            toks.append(("str", v[1:-1].replace("''", "'")))
        else:
            toks.append((k, v))
    return toks


class Select:
    def __init__(self):
        self.ctes = []  # (name, Select)
        self.distinct = False
        self.columns = []  # (expr, alias)
        self.sources = []  # [Source]; first has join=None
        self.where = None
        self.group_by = []
        self.having = None
        self.order_by = []  # (expr, 'ASC'|'DESC')
        self.limit = None
        self.compound = []  # (op, Select)

    kind = "select"


class Source:
    def __init__(self, table, alias, subq=None):
        self.table = table  # name or None
        self.alias = alias or table
        self.subq = subq
        self.join = None  # None | 'INNER' | 'LEFT' | 'CROSS'
        self.on = None
        self.using = None
        self.natural = False


class Insert:
    kind = "insert"

    def __init__(self):
        self.table = None
        self.columns = []
        self.values = None  # list of exprs
        self.select = None
        self.or_replace = False
        self.conflict = None    # the OR <resolution> of INSERT OR ... / REPLACE INTO


class Update:
    kind = "update"

    def __init__(self):
        self.table = None
        self.sets = []
        self.where = None


class Delete:
    kind = "delete"

    def __init__(self):
        self.table = None
        self.where = None


class Pragma:
    kind = "pragma"

    def __init__(self, name, value):
        self.name = name
        self.value = value


class Other:
    def __init__(self, kind, text):
        self.kind = kind  # 'txn' | 'ddl'
        self.text = text


class ColDef:
    def __init__(self, name):
        self.name = name
        self.type_text = ""
        self.notnull = False
        self.pk = False
        self.unique = False
        self.default = None
        self.checks = []
        self.references = None  # (table, [cols])


class CreateTable:
    kind = "create_table"

    def __init__(self, name):
        self.name = name
        self.columns = []
        self.pk = []  # list of column names (table-level or column-level)
        self.uniques = []  # list of column-name lists
        self.fks = []  # (cols, table, refcols)
        self.fk_actions = {}  # (tuple(cols), table) -> {'DELETE': 'CASCADE', ...}
        self.checks = []
        self.if_not_exists = False
        self.as_select = None

    def col(self, name):
        for c in self.columns:
            if c.name == name:
                return c
        return None


class CreateView:
    kind = "create_view"

    def __init__(self, name, select):
        self.name = name
        self.select = select


class Parser:
    def __init__(self, sql):
        self.sql = sql
        self.toks = tokenize(sql)
        self.i = 0
        self.qpos = 0

    # -- token helpers
    def peek(self, k=0):
        if self.i + k < len(self.toks):
            return self.toks[self.i + k]
        return ("eof", "")

    def at_kw(self, *kws):
        t = self.peek()
        return t[0] == "kw" and t[1] in kws

    def at_op(self, *ops):
        t = self.peek()
        return t[0] == "op" and t[1] in ops

    def take(self):
        t = self.peek()
        self.i += 1
        return t

    def accept_kw(self, *kws):
        if self.at_kw(*kws):
            return self.take()[1]
        return None

    def accept_op(self, *ops):
        if self.at_op(*ops):
            return self.take()[1]
        return None

    def expect_kw(self, kw):
        if not self.at_kw(kw):
            self.fail("expected %s" % kw)
        return self.take()

    def expect_op(self, op):
        if not self.at_op(op):
            self.fail("expected %r" % op)
        return self.take()

    def ident(self):
        t = self.peek()
        if t[0] == "id":
            return self.take()[1]
        # permit non-reserved keyword use as identifier (e.g. column 'key')
        if t[0] == "kw" and t[1] in ("KEY", "REPLACE", "INDEX", "TEMP", "END"):
            return self.take()[1].lower()
        self.fail("expected identifier")

    def at_word(self, *words):
        t = self.peek()
        return t[0] in ("kw", "id") and str(t[1]).upper() in words

    def fk_actions(self):
        """Trailing clauses of a foreign key: ON DELETE / ON UPDATE <action>, MATCH <name>, [NOT] DEFERRABLE [INITIALLY ...].
        -> {'DELETE': 'CASCADE', ...}"""
        out = {}
        for _h in range(6):
            if self.at_word("ON") and self.peek(1)[0] in ("kw", "id") and str(self.peek(1)[1]).upper() in ("DELETE", "UPDATE"):
                self.take()
                ev = str(self.take()[1]).upper()
                if self.at_word("SET"):
                    self.take()
                    out[ev] = "SET " + str(self.take()[1]).upper()
                elif self.at_word("NO"):
                    self.take()
                    self.take()
                    out[ev] = "NO ACTION"
                else:
                    out[ev] = str(self.take()[1]).upper()
            elif self.at_word("MATCH"):
                self.take()
                self.take()
            elif self.at_word("DEFERRABLE") or (self.at_word("NOT") and str(self.peek(1)[1]).upper() == "DEFERRABLE"):
                if self.at_word("NOT"):
                    self.take()
                self.take()
                if self.at_word("INITIALLY"):
                    self.take()
                    self.take()
            else:
                break
        return out

    def fail(self, msg):
        raise AnalysisError(
            "SQL parser: %s at token %d %r in %r"
            % (msg, self.i, self.peek(), " ".join(self.sql.split())[:160])
        )

    # -- statements
    def statements(self):
        out = []
        while self.peek()[0] != "eof":
            if self.accept_op(";"):
                continue
            out.append(self.statement())
        return out

    def statement(self):
        first = self.peek()[1] if self.peek()[0] == "kw" else None
        st = self._statement()
        try:
            st.first_keyword = first
        except AttributeError:
            pass
        return st

    def _returning(self, st):
        st.returning = []
        if self.accept_kw("RETURNING"):
            while True:
                if self.at_op("*"):
                    self.take()
                    st.returning.append(("star",))
                else:
                    st.returning.append(self.expr())
                    if self.accept_kw("AS"):
                        self.ident()
                if not self.accept_op(","):
                    break
        return st

    def _statement(self):
        if self.at_kw("WITH"):
            # WITH ctes SELECT ... | WITH ctes INSERT / UPDATE / DELETE ...
            save = self.i if hasattr(self, "i") else None
            k = 0
            depth = 0
            # look ahead for the first top-level statement keyword after the CTE list
            while True:
                t = self.peek(k)
                if t[0] == "eof":
                    break
                if t == ("op", "("):
                    depth += 1
                elif t == ("op", ")"):
                    depth -= 1
                elif depth == 0 and t[0] == "kw" and t[1] in ("SELECT", "INSERT", "REPLACE", "UPDATE", "DELETE") and k > 0:
                    break
                k += 1
            head = self.peek(k)
            if head[0] == "kw" and head[1] in ("INSERT", "REPLACE", "UPDATE", "DELETE"):
                self.expect_kw("WITH")
                ctes = []
                while True:
                    name = self.ident()
                    self.expect_kw("AS")
                    self.expect_op("(")
                    ctes.append((name, self.select()))
                    self.expect_op(")")
                    if not self.accept_op(","):
                        break
                st = self._statement()
                st.ctes = ctes
                if getattr(st, "select", None) is not None:
                    st.select.ctes = list(ctes) + list(st.select.ctes)
                return st
            return self.select()
        if self.at_kw("SELECT"):
            return self.select()
        if self.at_kw("INSERT", "REPLACE"):
            return self._returning(self.insert())
        if self.at_kw("UPDATE"):
            return self._returning(self.update())
        if self.at_kw("DELETE"):
            return self._returning(self.delete())
        if self.at_kw("PRAGMA"):
            self.take()
            name = self.ident()
            val = None
            if self.accept_op("="):
                val = self.take()[1]
            elif self.accept_op("("):
                val = self.take()[1]
                self.expect_op(")")
            return Pragma(name.lower(), val)
        if self.at_kw("CREATE"):
            return self.create()
        if self.at_kw(
            "BEGIN", "COMMIT", "ROLLBACK", "SAVEPOINT", "RELEASE", "END"
        ):
            txt = []
            while self.peek()[0] != "eof" and not self.at_op(";"):
                txt.append(self.take()[1])
            return Other("txn", " ".join(txt))
        if self.at_kw(
            "DROP", "ALTER", "VACUUM", "ATTACH", "DETACH", "REINDEX", "ANALYZE"
        ):
            txt = []
            while self.peek()[0] != "eof" and not self.at_op(";"):
                txt.append(self.take()[1])
            return Other("ddl", " ".join(txt))
        self.fail("unknown statement")

    def create(self):
        self.expect_kw("CREATE")
        self.accept_kw("TEMP", "TEMPORARY")
        if self.accept_kw("TABLE"):
            ine = False
            if self.accept_kw("IF"):
                self.expect_kw("NOT")
                self.expect_kw("EXISTS")
                ine = True
            name = self.ident()
            ct = CreateTable(name)
            ct.if_not_exists = ine
            if self.accept_kw("AS"):
                # CREATE TABLE x AS SELECT ...: columns are the select list (no constraints)
                ct.as_select = self.select()
                for e, a in ct.as_select.columns:
                    nm = a or (e[2] if e[0] == "col" else None)
                    if nm:
                        ct.columns.append(ColDef(nm))
                return ct
            self.expect_op("(")
            while True:
                if self.at_kw("PRIMARY"):
                    self.take()
                    self.expect_kw("KEY")
                    ct.pk = self.paren_idents()
                elif self.at_kw("UNIQUE"):
                    self.take()
                    ct.uniques.append(self.paren_idents())
                elif self.at_kw("FOREIGN"):
                    self.take()
                    self.expect_kw("KEY")
                    cols = self.paren_idents()
                    self.expect_kw("REFERENCES")
                    t = self.ident()
                    rc = self.paren_idents() if self.at_op("(") else []
                    ct.fks.append((cols, t, rc))
                    ct.fk_actions[(tuple(cols), t)] = self.fk_actions()
                elif self.at_kw("CHECK"):
                    self.take()
                    self.expect_op("(")
                    ct.checks.append(self.expr())
                    self.expect_op(")")
                elif self.at_kw("CONSTRAINT"):
                    self.take()
                    self.ident()
                    continue
                else:
                    ct.columns.append(self.coldef(ct))
                if not self.accept_op(","):
                    break
            self.expect_op(")")
            for c in ct.columns:
                if c.pk and not ct.pk:
                    ct.pk = [c.name]
                if c.unique:
                    ct.uniques.append([c.name])
                if c.references:
                    ct.fks.append(([c.name], c.references[0], c.references[1]))
                ct.checks.extend(c.checks)
            return ct
        if self.accept_kw("VIEW"):
            name = self.ident()
            self.expect_kw("AS")
            return CreateView(name, self.select())
        txt = []
        while self.peek()[0] != "eof" and not self.at_op(";"):
            txt.append(self.take()[1])
        return Other("ddl", "CREATE " + " ".join(txt))

    def paren_idents(self):
        self.expect_op("(")
        out = [self.ident()]
        while self.accept_op(","):
            out.append(self.ident())
        self.expect_op(")")
        return out

    def coldef(self, ct):
        c = ColDef(self.ident())
        ty = []
        while self.peek()[0] == "id" or (
            self.peek()[0] == "kw" and self.peek()[1] in ()
        ):
            ty.append(self.take()[1])
        if self.at_op("(") and ty:  # e.g. varchar(10)
            depth = 0
            while True:
                t = self.take()
                ty.append(t[1])
                if t == ("op", "("):
                    depth += 1
                elif t == ("op", ")"):
                    depth -= 1
                    if depth == 0:
                        break
        c.type_text = " ".join(ty)
        while True:
            if self.at_kw("NOT") and self.peek(1) == ("kw", "NULL"):
                self.take()
                self.take()
                c.notnull = True
            elif self.accept_kw("NULL"):
                pass
            elif self.at_kw("PRIMARY"):
                self.take()
                self.expect_kw("KEY")
                c.pk = True
                self.accept_kw("ASC", "DESC")
            elif self.accept_kw("UNIQUE"):
                c.unique = True
            elif self.at_kw("CHECK"):
                self.take()
                self.expect_op("(")
                c.checks.append(self.expr())
                self.expect_op(")")
            elif self.accept_kw("DEFAULT"):
                if self.accept_op("("):
                    c.default = self.expr()
                    self.expect_op(")")
                else:
                    c.default = self.primary()
            elif self.accept_kw("REFERENCES"):
                t = self.ident()
                rc = self.paren_idents() if self.at_op("(") else []
                c.references = (t, rc)
                c.reference_actions = self.fk_actions()
            else:
                break
        return c

    def select(self):
        s = Select()
        if self.accept_kw("WITH"):
            while True:
                name = self.ident()
                colnames = self.paren_idents() if self.at_op("(") else None
                self.expect_kw("AS")
                self.expect_op("(")
                cte = self.select()
                self.expect_op(")")
                if colnames is not None and len(colnames) == len(cte.columns):
                    cte.columns = [(e, n) for (e, _a), n in zip(cte.columns, colnames)]     # WITH x (a, b) AS (...): the list names the columns
                s.ctes.append((name, cte))
                if not self.accept_op(","):
                    break
        self.expect_kw("SELECT")
        if self.accept_kw("DISTINCT"):
            s.distinct = True
        else:
            self.accept_kw("ALL")
        while True:
            if self.at_op("*"):
                self.take()
                s.columns.append((("star",), None))
            else:
                e = self.expr()
                alias = None
                if self.accept_kw("AS"):
                    alias = self.ident()
                elif self.peek()[0] == "id":
                    alias = self.take()[1]
                s.columns.append((e, alias))
            if not self.accept_op(","):
                break
        if self.accept_kw("FROM"):
            s.sources.append(self.source())
            while True:
                if self.accept_op(","):
                    src = self.source()
                    src.join = "CROSS"
                    s.sources.append(src)
                    continue
                jk = None
                if self.at_kw("JOIN"):
                    self.take()
                    jk = "INNER"
                elif self.at_kw("INNER") and self.peek(1) == ("kw", "JOIN"):
                    self.take()
                    self.take()
                    jk = "INNER"
                elif self.at_kw("CROSS") and self.peek(1) == ("kw", "JOIN"):
                    self.take()
                    self.take()
                    jk = "CROSS"
                elif self.at_kw("LEFT"):
                    self.take()
                    self.accept_kw("OUTER")
                    self.expect_kw("JOIN")
                    jk = "LEFT"
                natural = False
                if self.at_kw("NATURAL"):
                    # NATURAL [INNER|LEFT] JOIN: joined on all common column names (resolved by the consumer, if it can)
                    self.take()
                    natural = True
                    if self.accept_kw("LEFT"):
                        self.accept_kw("OUTER")
                        jk = "LEFT"
                    else:
                        self.accept_kw("INNER")
                        jk = "INNER"
                    self.expect_kw("JOIN")
                if jk is None:
                    break
                src = self.source()
                src.join = jk
                src.natural = natural
                if self.accept_kw("ON"):
                    src.on = self.expr()
                elif self.accept_kw("USING"):
                    src.using = self.paren_idents()
                s.sources.append(src)
        if self.accept_kw("WHERE"):
            s.where = self.expr()
        if self.at_kw("GROUP"):
            self.take()
            self.expect_kw("BY")
            s.group_by.append(self.expr())
            while self.accept_op(","):
                s.group_by.append(self.expr())
            if self.accept_kw("HAVING"):
                s.having = self.expr()
        while self.at_kw("UNION", "EXCEPT", "INTERSECT"):
            kw = self.take()[1]
            op = "UNION ALL" if kw == "UNION" and self.accept_kw("ALL") else kw
            sub = self.select_core_only()
            s.compound.append((op, sub))
        if self.at_kw("ORDER"):
            self.take()
            self.expect_kw("BY")
            while True:
                e = self.expr()
                d = self.accept_kw("ASC", "DESC") or "ASC"
                s.order_by.append((e, d))
                if not self.accept_op(","):
                    break
        if self.accept_kw("LIMIT"):
            s.limit = self.expr()
            if self.accept_kw("OFFSET"):
                self.expr()
        return normalize_select(s)

    def select_core_only(self):
        # a SELECT without trailing ORDER BY consumption is not needed in
        # this code base; reuse select() (ORDER BY then binds to the last
        # arm, which is harmless for the facts we extract).
        return self.select()

    def source(self):
        if self.accept_op("("):
            sub = self.select()
            self.expect_op(")")
            alias = None
            if self.accept_kw("AS"):
                alias = self.ident()
            elif self.peek()[0] == "id":
                alias = self.take()[1]
            return Source(None, alias, subq=sub)
        name = self.ident()
        if self.at_op(".") and name.lower() in ("main", "temp"):
            self.take()
            name = self.ident()
        alias = None
        if self.accept_kw("AS"):
            alias = self.ident()
        elif self.peek()[0] == "id":
            alias = self.take()[1]
        return Source(name, alias)

    def insert(self):
        ins = Insert()
        if self.accept_kw("REPLACE"):
            ins.or_replace = True
            ins.conflict = "REPLACE"
        else:
            self.expect_kw("INSERT")
            if self.accept_kw("OR"):
                ins.conflict = str(self.take()[1]).upper()       # REPLACE / IGNORE / ABORT / FAIL / ROLLBACK
                ins.or_replace = True
        self.expect_kw("INTO")
        ins.table = self.ident()
        if self.at_op("("):
            ins.columns = self.paren_idents()
        if self.accept_kw("VALUES"):
            self.expect_op("(")
            ins.values = [self.expr()]
            while self.accept_op(","):
                ins.values.append(self.expr())
            self.expect_op(")")
            ins.more_rows = []
            while self.accept_op(","):
                self.expect_op("(")
                row = [self.expr()]
                while self.accept_op(","):
                    row.append(self.expr())
                self.expect_op(")")
                ins.more_rows.append(row)
        elif self.accept_kw("DEFAULT"):
            self.expect_kw("VALUES")
            ins.values = []
        else:
            ins.select = self.select()
        return ins

    def update(self):
        self.expect_kw("UPDATE")
        u = Update()
        u.table = self.ident()
        self.expect_kw("SET")
        while True:
            c = self.ident()
            self.expect_op("=")
            u.sets.append((c, self.expr()))
            if not self.accept_op(","):
                break
        if self.accept_kw("WHERE"):
            u.where = self.expr()
        return u

    def delete(self):
        self.expect_kw("DELETE")
        self.expect_kw("FROM")
        d = Delete()
        d.table = self.ident()
        if self.accept_kw("WHERE"):
            d.where = self.expr()
        return d

    # -- expressions (precedence climbing)
    def expr(self):
        return self.or_()

    def or_(self):
        e = self.and_()
        while self.accept_kw("OR"):
            e = ("bin", "OR", e, self.and_())
        return e

    def and_(self):
        e = self.not_()
        while self.accept_kw("AND"):
            e = ("bin", "AND", e, self.not_())
        return e

    def not_(self):
        if self.at_kw("NOT") and not (self.peek(1) == ("kw", "EXISTS")):
            self.take()
            return ("un", "NOT", self.not_())
        if self.at_kw("NOT") and self.peek(1) == ("kw", "EXISTS"):
            self.take()
            return ("un", "NOT", self.not_())
        return self.cmp()

    def cmp(self):
        e = self.add()
        while True:
            if self.at_op("=", "==", "!=", "<>", "<", "<=", ">", ">="):
                op = self.take()[1]
                op = {"==": "=", "<>": "!="}.get(op, op)
                e = ("bin", op, e, self.add())
            elif self.at_kw("IS"):
                self.take()
                neg = bool(self.accept_kw("NOT"))
                r = self.add()
                e = ("bin", "ISNOT" if neg else "IS", e, r)
            elif self.at_kw("IN") or (
                self.at_kw("NOT") and self.peek(1) == ("kw", "IN")
            ):
                neg = bool(self.accept_kw("NOT"))
                self.expect_kw("IN")
                self.expect_op("(")
                if self.at_kw("SELECT", "WITH"):
                    items = [("subq", self.select())]
                elif self.at_op(")"):
                    items = []
                else:
                    items = [self.expr()]
                    while self.accept_op(","):
                        items.append(self.expr())
                self.expect_op(")")
                e = ("inlist", e, items)
                if neg:
                    e = ("un", "NOT", e)
            elif self.at_kw("BETWEEN") or (self.at_kw("NOT") and self.peek(1) == ("kw", "BETWEEN")):
                neg = bool(self.accept_kw("NOT"))
                self.take()
                lo = self.add()
                self.expect_kw("AND")
                hi = self.add()
                e = ("bin", "AND", ("bin", ">=", e, lo), ("bin", "<=", e, hi))
                if neg:
                    e = ("un", "NOT", e)
            elif self.at_kw("LIKE", "GLOB") or (self.at_kw("NOT") and self.peek(1) in (("kw", "LIKE"), ("kw", "GLOB"))):
                neg = bool(self.accept_kw("NOT"))
                kw = self.take()[1]
                e = ("bin", kw, e, self.add())
                if neg:
                    e = ("un", "NOT", e)
            elif self.at_kw("ISNULL"):
                self.take()
                e = ("bin", "IS", e, ("null",))
            elif self.at_kw("NOTNULL") or (self.at_kw("NOT") and self.peek(1) == ("kw", "NULL")):
                if self.accept_kw("NOT"):
                    self.take()
                else:
                    self.take()
                e = ("bin", "ISNOT", e, ("null",))
            elif self.at_kw("COLLATE"):
                self.take()
                self.take()
            else:
                return e

    def add(self):
        e = self.mul()
        while self.at_op("+", "-", "||"):
            op = self.take()[1]
            e = ("bin", op, e, self.mul())
        return e

    def mul(self):
        e = self.unary()
        while self.at_op("*", "/", "%"):
            op = self.take()[1]
            e = ("bin", op, e, self.unary())
        return e

    def unary(self):
        if self.at_op("-", "+"):
            op = self.take()[1]
            return ("un", op, self.unary())
        return self.primary()

    def primary(self):
        t = self.peek()
        if t[0] == "num":
            self.take()
            return ("num", t[1])
        if t[0] == "str":
            self.take()
            return ("str", t[1])
        if t[0] == "param":
            self.take()
            if t[1].startswith(":"):
                return ("param", t[1][1:])
            if t[1] == "?":
                k = self.qpos
                self.qpos += 1
                return ("param", k)
            return ("param", int(t[1][1:]) - 1)
        if t == ("kw", "NULL"):
            self.take()
            return ("null",)
        if t[0] == "kw" and t[1] in ("TRUE", "FALSE"):
            self.take()
            return ("bool", t[1] == "TRUE")
        if t == ("kw", "EXISTS"):
            self.take()
            self.expect_op("(")
            s = self.select()
            self.expect_op(")")
            return ("exists", s)
        if t == ("kw", "CAST"):
            self.take()
            self.expect_op("(")
            e = self.expr()
            self.expect_kw("AS")
            ty = []
            while not self.at_op(")"):
                ty.append(self.take()[1])
            self.expect_op(")")
            return ("cast", e, " ".join(ty).lower())
        if t == ("kw", "CASE"):
            self.take()
            operand = None
            if not self.at_kw("WHEN"):
                operand = self.expr()
            whens = []
            while self.accept_kw("WHEN"):
                w = self.expr()
                self.expect_kw("THEN")
                whens.append((w, self.expr()))
            els = None
            if self.accept_kw("ELSE"):
                els = self.expr()
            self.expect_kw("END")
            return ("call", "CASE", ([operand] if operand is not None else []) + [x for w in whens for x in w] + ([els] if els is not None else []), False)
        if t == ("op", "("):
            self.take()
            if self.at_kw("SELECT", "WITH"):
                s = self.select()
                self.expect_op(")")
                return ("subq", s)
            e = self.expr()
            if self.at_op(","):
                items = [e]
                while self.accept_op(","):
                    items.append(self.expr())
                self.expect_op(")")
                return ("call", "ROW", items, False)
            self.expect_op(")")
            return e
        if t[0] == "id" or (t[0] == "kw" and t[1] in ("REPLACE", "GLOB")):
            name = self.take()[1]
            if self.at_op("("):
                self.take()
                distinct = False
                args = []
                if self.at_op("*"):
                    self.take()
                    args = [("star",)]
                elif not self.at_op(")"):
                    if self.accept_kw("DISTINCT"):
                        distinct = True
                    args.append(self.expr())
                    while self.accept_op(","):
                        args.append(self.expr())
                self.expect_op(")")
                return ("call", name.upper(), args, distinct)
            if self.at_op(".") :
                self.take()
                if self.at_op("*"):
                    self.take()
                    return ("star",)
                col = self.ident()
                return ("col", name, col)
            return ("col", None, name)
        self.fail("unexpected token in expression")


def parse_sql(sql):
    return Parser(sql).statements()


def parse_one(sql):
    st = parse_sql(sql)
    if len(st) != 1:
        raise AnalysisError("expected one SQL statement, got %d" % len(st))
    return st[0]


# ---------------------------------------------------------------------
# Schema


class Schema:
    def __init__(self, text):
        self.statements = parse_sql(text)
        self.tables = {}
        self.views = {}
        self.pragmas = []
        for st in self.statements:
            if st.kind == "create_table":
                self.tables[st.name] = st
            elif st.kind == "create_view":
                self.views[st.name] = st
            elif st.kind == "pragma":
                self.pragmas.append(st)

    def columns_of(self, table):
        """Column names of a base table ([] for views / unknown names)."""
        t = self.tables.get(table)
        return [c.name for c in t.columns] if t else []

    def is_singleton(self, table):
        """Table with a PK column constrained to a single value."""
        t = self.tables.get(table)
        if not t or len(t.pk) != 1:
            return False
        pk = t.pk[0]
        for chk in t.checks:
            if (
                chk[0] == "bin"
                and chk[1] == "="
                and chk[2] == ("col", None, pk)
                and chk[3][0] in ("num", "bool")
            ):
                return True
        return False

    def unique_sets(self, table):
        t = self.tables[table]
        out = []
        if t.pk:
            out.append(tuple(t.pk))
        for u in t.uniques:
            out.append(tuple(u))
        return out

    def base_tables(self, name, _seen=None):
        """Expand a table or view name to the set of base tables read."""
        _seen = _seen or set()
        if name in self.tables:
            return {name}
        if name in self.views and name not in _seen:
            _seen.add(name)
            out = set()
            for t in select_tables(self.views[name].select):
                out |= self.base_tables(t, _seen)
            return out
        return {name}

    def rowid_alias(self, table):
        """True if the table's single PK column is declared with a type
        text that makes it an alias of the rowid (exactly INTEGER)."""
        t = self.tables.get(table)
        if not t or len(t.pk) != 1:
            return False
        c = t.col(t.pk[0])
        return c is not None and c.type_text.strip().upper() == "INTEGER"


def walk_expr(e):
    if not isinstance(e, tuple):
        return
    yield e
    for x in e[1:]:
        if isinstance(x, tuple):
            yield from walk_expr(x)
        elif isinstance(x, list):
            for y in x:
                if isinstance(y, tuple):
                    yield from walk_expr(y)


def subselects_of_expr(e):
    for x in walk_expr(e):
        if x[0] in ("exists", "subq"):
            yield x[1]


def select_exprs(sel):
    for e, _ in sel.columns:
        yield e
    for s in sel.sources:
        if s.on is not None:
            yield s.on
    if sel.where is not None:
        yield sel.where
    for e in sel.group_by:
        yield e
    if sel.having is not None:
        yield sel.having
    for e, _ in sel.order_by:
        yield e


def select_tables(sel, include_ctes=False):
    """Names of tables/views referenced (CTE names excluded)."""
    out = set()
    ctes = {n for n, _ in sel.ctes}
    for _, c in sel.ctes:
        out |= select_tables(c)
    for s in sel.sources:
        if s.subq is not None:
            out |= select_tables(s.subq)
        elif s.table not in ctes:
            out.add(s.table)
    for e in select_exprs(sel):
        for sub in subselects_of_expr(e):
            out |= select_tables(sub)
    for _, c in sel.compound:
        out |= select_tables(c)
    return out


def stmt_reads(st):
    if st.kind == "select":
        return select_tables(st)
    if st.kind == "insert":
        out = set()
        if st.select is not None:
            out |= select_tables(st.select)
        for v in st.values or []:
            for sub in subselects_of_expr(v):
                out |= select_tables(sub)
        return out
    if st.kind in ("update", "delete"):
        out = set()
        exprs = [st.where] if st.where is not None else []
        if st.kind == "update":
            exprs += [e for _, e in st.sets]
        for e in exprs:
            for sub in subselects_of_expr(e):
                out |= select_tables(sub)
        if st.where is not None or st.kind == "update":
            out.add(st.table)
        return out
    return set()


def stmt_writes(st):
    if st.kind in ("insert", "update", "delete"):
        return {st.table}
    if st.kind in ("create_table", "create_view"):
        return {st.name}
    return set()


def is_write(st):
    return st.kind in (
        "insert", "update", "delete", "create_table", "create_view", "ddl",
    )


_NEG_CMP = {"<": ">=", "<=": ">", ">": "<=", ">=": "<", "=": "!=", "!=": "="}


def conjuncts(e):
    """Top-level conjuncts of a predicate.  In this position only "is it true" matters, so NOT over a comparison or an
    IS [NOT] NULL test is pushed in (NOT (a > b) keeps exactly the rows a <= b keeps: both drop NULLs), and NOT (p OR q)
    is split into NOT p, NOT q."""
    if e is None:
        return []
    if e[0] == "bin" and e[1] == "AND":
        return conjuncts(e[2]) + conjuncts(e[3])
    if e[0] == "inlist" and len(e[2]) == 1 and e[2][0][0] in ("str", "num", "param", "col"):
        return [("bin", "=", e[1], e[2][0])]          # x IN (one value)  is  x = value
    if e[0] == "un" and e[1] == "NOT":
        x = e[2]
        if x[0] == "bin" and x[1] == "IS" and x[3] == ("null",):
            return [("bin", "ISNOT", x[2], x[3])]
        if x[0] == "bin" and x[1] == "ISNOT" and x[3] == ("null",):
            return [("bin", "IS", x[2], x[3])]
        if x[0] == "bin" and x[1] in _NEG_CMP:
            return [("bin", _NEG_CMP[x[1]], x[2], x[3])]
        if x[0] == "bin" and x[1] == "OR":
            return conjuncts(("un", "NOT", x[2])) + conjuncts(("un", "NOT", x[3]))
        if x[0] == "un" and x[1] == "NOT":
            return conjuncts(x[2])
    return [e]


def _subst_cols(e, mapping, alias):
    """Replace ('col', alias, name) -- and unqualified ('col', None, name) when `alias` is None-safe -- by mapping[name]."""
    if isinstance(e, tuple):
        if len(e) == 3 and e[0] == "col":
            if e[1] == alias and e[2] in mapping:
                return mapping[e[2]]
            return e
        return tuple(_subst_cols(x, mapping, alias) for x in e)
    if isinstance(e, list):
        return [_subst_cols(x, mapping, alias) for x in e]
    return e


def _qualify(e, alias):
    """Qualify unqualified column references with `alias` (used when a sub-select with one source is flattened)."""
    if isinstance(e, tuple):
        if len(e) == 3 and e[0] == "col" and e[1] is None:
            return ("col", alias, e[2])
        if e and e[0] in ("subq", "exists"):
            return e
        return tuple(_qualify(x, alias) for x in e)
    if isinstance(e, list):
        return [_qualify(x, alias) for x in e]
    return e


def _requalify(e, olds, new):
    """Column references qualified by one of `olds` (or unqualified) get the qualifier `new`."""
    if isinstance(e, tuple):
        if len(e) == 3 and e[0] == "col" and (e[1] is None or e[1] in olds):
            return ("col", new, e[2])
        if e and e[0] in ("subq", "exists"):
            return e
        return tuple(_requalify(x, olds, new) for x in e)
    if isinstance(e, list):
        return [_requalify(x, olds, new) for x in e]
    return e


def _has_agg(e):
    return any(x[0] == "call" and x[1] in ("AVG", "SUM", "TOTAL", "COUNT", "MIN", "MAX", "GROUP_CONCAT") and
               not (x[1] in ("MIN", "MAX") and len(x[2]) > 1) for x in walk_expr(e))


def _and(a, b):
    if a is None:
        return b
    if b is None:
        return a
    return ("bin", "AND", a, b)


def _flatten_join(sel, k, src, q):
    """Inline a projection-only sub-select / CTE whose FROM is an inner join of several tables: its sources take its place
    (aliases kept; refused when one of them is already used outside), references `alias.col` to its output columns are
    substituted by the defining expressions, its WHERE is ANDed."""
    outer_aliases = {x.alias for x in sel.sources if x is not src}
    if any(x.alias in outer_aliases for x in q.sources):
        return False
    mapping = {}
    for e, a in q.columns:
        name = a or (e[2] if e[0] == "col" else None)
        if name is None:
            return False
        mapping[name] = e
    only_source = len(sel.sources) == 1

    def sub(e):
        e = _subst_cols(e, mapping, src.alias)
        if only_source:
            e = _subst_cols(e, mapping, None)
        return e
    new_sources = []
    for j, x in enumerate(q.sources):
        ns = Source(x.table, x.alias)
        ns.join, ns.on, ns.using = x.join, x.on, x.using
        if j == 0:
            ns.join = src.join
            ns.on = None
        new_sources.append(ns)
    # the outer ON condition of the sub-select moves to its last table (all of them are inner joins: a conjunction anywhere)
    if src.on is not None:
        last = new_sources[-1]
        last.on = _and(last.on, sub(src.on)) if last.join is not None else None
        if last.join is None:
            sel.where = _and(sel.where, sub(src.on))
    sel.sources[k:k + 1] = new_sources
    sel.columns = [(sub(e), a or (e[2] if e[0] == "col" else None)) for e, a in sel.columns]
    sel.where = _and(sub(sel.where) if sel.where is not None else None, q.where)
    for other in sel.sources:
        if other not in new_sources and other.on is not None:
            other.on = sub(other.on)
    sel.group_by = [sub(e) for e in sel.group_by]
    sel.having = sub(sel.having) if sel.having is not None else None
    sel.order_by = [(sub(e), d) for e, d in sel.order_by]
    return True


def normalize_select(sel):
    """Normal forms of a SELECT (kept behaviour-identical; the original select list aliases are kept):
       S1  ORDER BY <ordinal> / ORDER BY <select-list alias>  ->  the select-list expression;
       S2  a FROM-less select list made only of scalar aggregate sub-queries over the same FROM / WHERE  ->  one SELECT;
       S3  a projection-only CTE or FROM sub-select (no DISTINCT / GROUP BY / aggregate / LIMIT / compound / ORDER BY
           needed, inner joins only, one source) is inlined: its source takes its place, its columns are substituted,
           its WHERE is ANDed."""
    try:
        # ---- S2
        if not sel.sources and sel.columns and all(e[0] == "subq" for e, _ in sel.columns) and sel.where is None and not sel.compound:
            subs = [e[1] for e, _ in sel.columns]
            def sig(q):
                return (tuple((x.table, x.alias, x.join, expr_str(x.on) if x.on else None, tuple(x.using or ())) for x in q.sources), expr_str(q.where) if q.where else None)
            if all(len(q.columns) == 1 and _has_agg(q.columns[0][0]) and not q.group_by and not q.distinct and not q.compound and q.limit is None
                   and not q.ctes and all(x.subq is None for x in q.sources) for q in subs) and len({sig(q) for q in subs}) == 1:
                first = subs[0]
                sel.sources = first.sources
                sel.where = first.where
                sel.columns = [(q.columns[0][0], a or q.columns[0][1]) for q, (_e, a) in zip(subs, sel.columns)]
        # ---- S3
        ctes = dict(sel.ctes)
        changed = True
        rounds = 0
        while changed and rounds < 4:
            changed = False
            rounds += 1
            for k, src in enumerate(list(sel.sources)):
                q = src.subq if src.subq is not None else (ctes.get(src.table) if src.table in ctes else None)
                if q is None or src.join == "LEFT" or src.using or getattr(src, "natural", False):
                    continue
                if q.distinct or q.group_by or q.having or q.compound or q.limit is not None or q.ctes or not q.sources \
                        or any(x.subq is not None or x.join == "LEFT" or getattr(x, "natural", False) for x in q.sources) \
                        or any(_has_agg(e) or e[0] == "star" for e, _ in q.columns):
                    continue
                if len(q.sources) > 1:
                    done = _flatten_join(sel, k, src, q)
                    if done:
                        changed = True
                        break
                    continue
                # a CTE referenced more than once is not inlined
                if src.subq is None and sum(1 for x in sel.sources if x.table == src.table) > 1:
                    continue
                inner = q.sources[0]
                outer_alias = src.alias
                inner_alias = outer_alias      # the flattened table takes the sub-select's alias: references stay valid
                mapping = {}
                for e, a in q.columns:
                    name = a or (e[2] if e[0] == "col" else None)
                    if name is None:
                        mapping = None
                        break
                    mapping[name] = _requalify(e, {inner.alias, inner.table}, inner_alias)
                if mapping is None:
                    continue
                only_source = len(sel.sources) == 1
                def sub(e):
                    e = _subst_cols(e, mapping, outer_alias)
                    if only_source:
                        e = _subst_cols(e, mapping, None)
                    return e
                new_src = Source(inner.table, inner_alias)
                new_src.join = src.join
                new_src.on = sub(src.on) if src.on is not None else None
                sel.sources[k] = new_src
                sel.columns = [(sub(e), a or (e[2] if e[0] == "col" else None)) for e, a in sel.columns]
                sel.where = _and(sub(sel.where) if sel.where is not None else None,
                                 _requalify(q.where, {inner.alias, inner.table}, inner_alias) if q.where is not None else None)
                for other in sel.sources:
                    if other is not new_src and other.on is not None:
                        other.on = sub(other.on)
                sel.group_by = [sub(e) for e in sel.group_by]
                sel.having = sub(sel.having) if sel.having is not None else None
                sel.order_by = [(sub(e), d) for e, d in sel.order_by]
                if not sel.order_by and q.order_by and only_source:
                    # the inner ordering is what a scan of the flattened query follows (SQLite flattens such sub-selects)
                    sel.order_by = [(_requalify(e, {inner.alias, inner.table}, inner_alias), d) for e, d in q.order_by]
                changed = True
                break
        if any(src.table in ctes for src in sel.sources) is False:
            pass
        # ---- S1
        names = {}
        for e, a in sel.columns:
            if a:
                names.setdefault(a, e)
        new_ob = []
        for e, d in sel.order_by:
            if e[0] == "num":
                try:
                    k = int(str(e[1]))
                except ValueError:
                    k = None
                if k is not None and 1 <= k <= len(sel.columns) and "." not in str(e[1]):
                    e = sel.columns[k - 1][0]
            elif e[0] == "col" and e[1] is None and e[2] in names:
                e = names[e[2]]
            new_ob.append((e, d))
        sel.order_by = new_ob
    except Exception:      # a normal form that fails leaves the statement as parsed
        pass
    return sel


def expr_str(e):
    if e is None:
        return ""
    k = e[0]
    if k == "col":
        return (e[1] + "." if e[1] else "") + e[2]
    if k == "num":
        return e[1]
    if k == "str":
        return "'%s'" % e[1]
    if k == "null":
        return "NULL"
    if k == "bool":
        return "TRUE" if e[1] else "FALSE"
    if k == "param":
        return (":%s" % e[1]) if isinstance(e[1], str) else "?%d" % (e[1] + 1)
    if k == "bin":
        return "(%s %s %s)" % (expr_str(e[2]), e[1], expr_str(e[3]))
    if k == "un":
        return "(%s %s)" % (e[1], expr_str(e[2]))
    if k == "call":
        return "%s(%s%s)" % (
            e[1],
            "DISTINCT " if e[3] else "",
            ", ".join(expr_str(a) for a in e[2]),
        )
    if k == "star":
        return "*"
    if k == "cast":
        return "CAST(%s AS %s)" % (expr_str(e[1]), e[2])
    if k == "exists":
        return "EXISTS(...)"
    if k == "subq":
        return "(SELECT ...)"
    if k == "inlist":
        return "%s IN (%s)" % (expr_str(e[1]), ", ".join(expr_str(x) if x[0] != "subq" else "(SELECT ...)" for x in e[2]))
    return repr(e)


# ---------------------------------------------------------------------
# SQL call sites in Python code

EXEC_METHODS = ("execute", "executemany", "executescript")


class SqlSite:
    def __init__(self, func, call, method, sql_text, statements, params_node):
        self.func = func  # FuncInfo
        self.call = call  # ast.Call
        self.method = method
        self.sql_text = sql_text  # None if dynamic
        self.statements = statements  # parsed list (may be empty if dynamic)
        self.params_node = params_node
        self.line = call.lineno

    @property
    def stmt(self):
        return self.statements[0] if self.statements else None

    def receiver(self):
        return dotted_name(self.call.func.value)

    def column_values(self, flow=None):
        """For an INSERT: {column name: Python expression bound to it} through the statement's parameter
        references (`:name` or `?`), whatever the parameters are called; literal SQL values are skipped."""
        st = self.stmt
        if st is None or st.kind != "insert":
            return {}
        vals = st.values if st.values is not None else ([c[0] for c in st.select.columns] if st.select is not None and not st.select.sources else None)
        if vals is None or len(vals) != len(st.columns):
            return {}
        out = {}
        for col, v in zip(st.columns, vals):
            if isinstance(v, tuple) and v and v[0] == "param":
                e = self.param(v[1], flow)
                if e is not None:
                    out[col] = e
        return out

    def param(self, ref, flow=None):
        """Python expression bound to an SQL parameter: ref is the position of a `?` (int) or the
        name of a `:name`; the parameters are a literal tuple / list / dict.  None if not resolvable."""
        pn = self.params_node
        if isinstance(pn, ast.Name) and flow is not None:
            dv = flow.def_value(pn)        # one dict / tuple shared by several statements
            if dv is not None:
                pn = dv
        if isinstance(ref, int) and isinstance(pn, (ast.Tuple, ast.List)) and 0 <= ref < len(pn.elts):
            return pn.elts[ref]
        if isinstance(ref, str) and isinstance(pn, ast.Dict):
            for k, v in zip(pn.keys, pn.values):
                if isinstance(k, ast.Constant) and k.value == ref:
                    return v
        if isinstance(ref, str) and isinstance(pn, ast.Call) and isinstance(pn.func, ast.Name) and pn.func.id == "dict":
            for k in pn.keywords:
                if k.arg == ref:
                    return k.value
        return None

    def __repr__(self):
        return "<SqlSite %s:%d %s %s>" % (
            self.func.module.relpath,
            self.line,
            self.method,
            (self.stmt.kind if self.stmt else "?"),
        )


def _loop_expanded_texts(arg, module):
    """SQL text that is a constant template with one field filled by the variable of an enclosing `for` over a literal
    tuple / list of strings (`T.format(v)`, `T % v`, `T % (v,)`, f-string, `A + v + B`): the texts of all cycles, else None."""
    var = None
    template = None
    if isinstance(arg, ast.Call) and isinstance(arg.func, ast.Attribute) and arg.func.attr == "format" and len(arg.args) == 1 and not arg.keywords \
            and isinstance(arg.args[0], ast.Name):
        t = const_str(arg.func.value, module)
        if t is not None and (t.count("{}") == 1 or t.count("{0}") >= 1) and "{" not in t.replace("{}", "").replace("{0}", ""):
            var, template = arg.args[0].id, t.replace("{0}", "{}")
    elif isinstance(arg, ast.BinOp) and isinstance(arg.op, ast.Mod):
        t = const_str(arg.left, module)
        r = arg.right.elts[0] if isinstance(arg.right, ast.Tuple) and len(arg.right.elts) == 1 else arg.right
        if t is not None and t.count("%s") == 1 and t.count("%") == 1 and isinstance(r, ast.Name):
            var, template = r.id, t.replace("%s", "{}")
    elif isinstance(arg, ast.JoinedStr):
        fields = [v for v in arg.values if isinstance(v, ast.FormattedValue)]
        if len(fields) == 1 and isinstance(fields[0].value, ast.Name) and fields[0].format_spec is None and fields[0].conversion == -1 \
                and all(isinstance(v, ast.FormattedValue) or (isinstance(v, ast.Constant) and "{" not in v.value and "}" not in v.value) for v in arg.values):
            var = fields[0].value.id
            template = "".join("{}" if isinstance(v, ast.FormattedValue) else v.value for v in arg.values)
    elif isinstance(arg, ast.BinOp) and isinstance(arg.op, ast.Add):
        parts = []
        def flat(n):
            if isinstance(n, ast.BinOp) and isinstance(n.op, ast.Add):
                flat(n.left)
                flat(n.right)
            else:
                parts.append(n)
        flat(arg)
        names = [p_ for p_ in parts if isinstance(p_, ast.Name) and const_str(p_, module) is None]
        if len(names) == 1 and all(p_ is names[0] or const_str(p_, module) is not None for p_ in parts):
            var = names[0].id
            template = "".join("{}" if p_ is names[0] else const_str(p_, module).replace("{", "{{").replace("}", "}}") for p_ in parts)
    if var is None:
        return None
    loop = getattr(arg, "parent", None)
    while loop is not None and not (isinstance(loop, ast.For) and isinstance(loop.target, ast.Name) and loop.target.id == var):
        if isinstance(loop, (ast.FunctionDef, ast.AsyncFunctionDef, ast.Lambda)):
            return None
        loop = getattr(loop, "parent", None)
    if loop is None:
        return None
    it = loop.iter
    if isinstance(it, ast.Name) and module is not None and module.constants.get(it.id) is not None:
        it = module.constants.get(it.id)
    if not (isinstance(it, (ast.Tuple, ast.List)) and it.elts and all(isinstance(e, ast.Constant) and isinstance(e.value, str) for e in it.elts)):
        return None
    # the variable is not rebound inside the loop
    if any(isinstance(x, ast.Name) and x.id == var and isinstance(x.ctx, ast.Store) for st in loop.body for x in ast.walk(st)):
        return None
    try:
        return [template.format(e.value) for e in it.elts]
    except Exception:
        return None


def sql_sites(repo, schema_text=None, modules=None):
    """All execute/executemany/executescript call sites."""
    sites = []
    for m in repo.modules.values():
        if modules is not None and m.name not in modules:
            continue
        for f in m.functions.values():
            if ".<locals>." in f.qualname:
                continue
            for node in ast.walk(f.node):
                if (
                    isinstance(node, ast.Call)
                    and isinstance(node.func, ast.Attribute)
                    and node.func.attr in EXEC_METHODS
                    and node.args
                ):
                    txt = const_str(node.args[0], m)
                    sts = []
                    if txt is not None:
                        sts = parse_sql(txt)
                    else:
                        # text built from a loop variable over a constant tuple of names:
                        #   for t in ("a", "b"): cur.execute("DELETE FROM {}".format(t))   -> the statements of every cycle
                        texts = _loop_expanded_texts(node.args[0], m)
                        if texts:
                            try:
                                for t_ in texts:
                                    sts.extend(parse_sql(t_))
                                txt = ";\n".join(texts)
                            except Exception:
                                sts, txt = [], None
                    params = node.args[1] if len(node.args) > 1 else None
                    sites.append(
                        SqlSite(f, node, node.func.attr, txt, sts, params)
                    )
    sites.sort(key=lambda s: (s.func.module.relpath, s.line))
    return sites


def load_schema(repo):
    return Schema(repo.read_text("spowtd/schema.sql"))
