"""D-len -- symbolic construction of the `lines` list of the pestfiles
generators, per parameterisation branch.

Each element of the list becomes an Item:
  kind 'lit'  : one line; `template` is the text with unresolved format
                fields kept as {0}, {1}, ... and `args` their ASTs
  kind 'fam'  : a comprehension family; additionally `var` (loop
                variable), `start`, `count` (Poly over symbolic sizes),
                `iter_desc`
Symbolic sizes (atoms): len(<path>) for lists of the parameter file,
count(<table>.zeta_number) for `SELECT count(distinct zeta_number)`,
rows(<view>) for len() of a fetched result.
"""

import ast
import string

from .norm import NotAlgebraic, Poly, num_fraction
from .source import AnalysisError, dotted_name


class ReadableWrong(AnalysisError):
    """The construction is read, and a construct in it is wrong: reported as a violation, not as 'cannot decide'."""

    def __init__(self, msg, node=None, required=""):
        AnalysisError.__init__(self, msg)
        self.node = node
        self.required = required


class Item:
    def __init__(self, kind, template, args, node):
        self.kind = kind
        self.template = template
        self.args = args
        self.node = node
        self.var = None
        self.vars = []
        self.start = Poly.const(0)
        self.count = Poly.const(1)
        self.iter_desc = ""

    def __repr__(self):
        return "<%s %r x %s>" % (self.kind, self.template[:40], self.count.key())


class SymList:
    def __init__(self, ctx, finfo, assume):
        self.ctx = ctx
        self.f = finfo
        self.assume = assume  # {'specific_yield.type': 'spline', ...}
        self.env = {}  # name -> ast expr (last assignment on the taken path)
        self.intenv = {}  # name -> Poly
        self.lists = {}  # name -> [Item]
        self.last_sql = None
        self.rows_of = {}  # name -> atom name for len()
        self.sql_order = {}  # name -> (table/view, order_by list)
        self.problems = []
        self.raised = False
        self.written = None

    # -- helpers
    def path_of(self, node):
        """parameters['a']['b'] -> 'a.b' (through names bound to such paths)"""
        parts = []
        n = node
        while isinstance(n, ast.Subscript) and isinstance(n.slice, ast.Constant) and isinstance(n.slice.value, str):
            parts.append(n.slice.value)
            n = n.value
        if isinstance(n, ast.Name):
            if n.id in self.env and n.id not in self.f.params:
                base = self.path_of(self.env[n.id])
                if base is not None:
                    return ".".join([base] + list(reversed(parts))) if parts else base
                return None
            if n.id in self.f.params and n.id == "parameters":
                return ".".join(reversed(parts))
        return None

    def intval(self, node):
        if isinstance(node, ast.Constant) and isinstance(node.value, int) and not isinstance(node.value, bool):
            return Poly.const(node.value)
        if isinstance(node, ast.Name):
            if node.id in self.intenv:
                return self.intenv[node.id]
            raise NotAlgebraic("unknown integer %s" % node.id)
        if isinstance(node, ast.BinOp) and isinstance(node.op, (ast.Add, ast.Sub, ast.Mult)):
            a, b = self.intval(node.left), self.intval(node.right)
            return a + b if isinstance(node.op, ast.Add) else (a - b if isinstance(node.op, ast.Sub) else a * b)
        if isinstance(node, ast.Call) and isinstance(node.func, ast.Name) and node.func.id == "len" and len(node.args) == 1:
            a = node.args[0]
            p = self.path_of(a)
            if p:
                return Poly.atom("len(%s)" % p)
            if isinstance(a, ast.Name) and a.id in self.rows_of:
                return Poly.atom(self.rows_of[a.id])
            if isinstance(a, ast.Name) and a.id in self.lists:
                tot = Poly.const(0)
                for it in self.lists[a.id]:
                    tot = tot + it.count
                return tot
        raise NotAlgebraic("integer expression %s" % ast.unparse(node)[:60])

    def decide(self, test, _depth=0):
        """Evaluate a branch test under the assumptions; None if unknown."""
        if isinstance(test, ast.Name) and test.id in self.env and test.id not in self.f.params and _depth < 5:
            return self.decide(self.env[test.id], _depth + 1)
        if isinstance(test, ast.Constant) and isinstance(test.value, bool):
            return test.value
        if isinstance(test, ast.UnaryOp) and isinstance(test.op, ast.Not):
            v = self.decide(test.operand)
            return None if v is None else not v
        if isinstance(test, ast.BoolOp):
            vals = [self.decide(v) for v in test.values]
            if None in vals:
                return None
            return all(vals) if isinstance(test.op, ast.And) else any(vals)
        if isinstance(test, ast.Compare) and len(test.ops) == 1:
            l, r = test.left, test.comparators[0]
            p = self.path_of(l)
            op = test.ops[0]
            if p is None and isinstance(l, ast.Name) and l.id in self.env:
                p = self.path_of(self.env[l.id])
            if p in self.assume:
                val = self.assume[p]
                if isinstance(r, ast.Constant):
                    if isinstance(op, ast.Eq):
                        return val == r.value
                    if isinstance(op, ast.NotEq):
                        return val != r.value
                if isinstance(r, (ast.Tuple, ast.List, ast.Set)) and all(isinstance(e, ast.Constant) for e in r.elts):
                    vals = [e.value for e in r.elts]
                    if isinstance(op, ast.In):
                        return val in vals
                    if isinstance(op, ast.NotIn):
                        return val not in vals
            if isinstance(l, ast.Name) and l.id in self.f.params and isinstance(r, ast.Constant) and r.value is None:
                return None
        return None

    # -- items
    def make_items(self, node):
        """List expression -> [Item]"""
        if isinstance(node, ast.List):
            out = []
            for e in node.elts:
                if isinstance(e, ast.Starred):
                    out.extend(self.make_items(e.value))      # [a, *FAMILY, b]
                else:
                    out.append(self.line_item(e, "lit"))
            return out
        if isinstance(node, ast.ListComp) and len(node.generators) == 1 and not node.generators[0].ifs:
            node = self._fuse(node)
            g = node.generators[0]
            it = self.line_item(node.elt, "fam")
            self.family_range(it, g)
            return [it]
        if isinstance(node, ast.BinOp) and isinstance(node.op, ast.Add):
            return self.make_items(node.left) + self.make_items(node.right)
        if isinstance(node, ast.Name) and node.id in self.lists:
            return list(self.lists[node.id])
        if isinstance(node, ast.Subscript) and isinstance(node.slice, ast.Slice) and node.slice.step is None and isinstance(node.value, ast.Name) \
                and node.value.id in self.lists and len(self.lists[node.value.id]) == 1 and self.lists[node.value.id][0].kind == "fam" \
                and self.lists[node.value.id][0].var is not None:
            # FAMILY[:k] / FAMILY[k:] of a comprehension family over range(start, start + count): the same family, split at k
            base = self.lists[node.value.id][0]
            lo = self.intval(node.slice.lower) if node.slice.lower is not None else Poly.const(0)
            hi = self.intval(node.slice.upper) if node.slice.upper is not None else base.count

            def nonneg(p):
                return all(c >= 0 for c in p.terms.values())
            if nonneg(lo) and nonneg(hi - lo) and nonneg(base.count - hi):
                import copy as _copy
                it = _copy.copy(base)
                it.start = base.start + lo
                it.count = hi - lo
                it.iter_desc = "%s[%s]" % (base.iter_desc, ast.unparse(node.slice))
                return [it]
            raise AnalysisError("slice %s of a family of %s lines not within it" % (ast.unparse(node.slice), base.count.key()))
        if isinstance(node, ast.IfExp):
            d = self.decide(node.test)
            if d is not None:
                return self.make_items(node.body if d else node.orelse)
        if isinstance(node, ast.Call) and isinstance(node.func, ast.Name) and node.func.id == "list" and len(node.args) == 1 and not node.keywords:
            return self.make_items(node.args[0])
        if isinstance(node, ast.GeneratorExp):
            lc = ast.ListComp(elt=node.elt, generators=node.generators)
            ast.copy_location(lc, node)
            return self.make_items(lc)
        if isinstance(node, ast.Call) and not any(k.arg is None for k in node.keywords) and not any(isinstance(a, ast.Starred) for a in node.args):
            # a helper of the package whose body is `return E`: E with the arguments in place of the parameters
            from .normalize import _subst
            try:
                tg = self.ctx.cg.resolve_callee(self.f, node.func)
            except Exception:
                tg = []
            fn = self.ctx.cg.func(tg[0]) if len(tg) == 1 else None
            body = [st for st in fn.node.body if not (isinstance(st, ast.Expr) and isinstance(st.value, ast.Constant))] if fn is not None else []
            a = fn.node.args if fn is not None else None
            if fn is not None and len(body) == 1 and isinstance(body[0], ast.Return) and body[0].value is not None \
                    and not a.vararg and not a.kwarg and not a.kwonlyargs and not a.posonlyargs and not a.defaults \
                    and len(node.args) + len(node.keywords) == len(fn.params) and all(k.arg in fn.params[len(node.args):] for k in node.keywords) \
                    and not getattr(self, "_inl_depth", 0) > 3:
                m = dict(zip(fn.params, node.args))
                m.update({k.arg: k.value for k in node.keywords})
                # arguments are evaluated once and only read: substitution is exact when they are free of calls with effects
                if all(not isinstance(x, (ast.Yield, ast.Await, ast.NamedExpr)) for v in m.values() for x in ast.walk(v)):
                    self._inl_depth = getattr(self, "_inl_depth", 0) + 1
                    try:
                        e = _subst(body[0].value, m)
                        for sub in ast.walk(e):
                            if not hasattr(sub, "lineno"):
                                ast.copy_location(sub, node)
                        return self.make_items(e)
                    finally:
                        self._inl_depth -= 1
        raise AnalysisError("unrecognised list expression %s" % ast.unparse(node)[:80])

    def _fuse(self, comp):
        """[OUTER(v) for v in NAMES] with NAMES = a helper returning / a comprehension [INNER(i) for i in range(..)]
        -> [OUTER(INNER(i)) for i in range(..)].  `sorted(...)` around names that carry the running number as plain
        digits is reported: text order is not numeric order from 10 items on."""
        from .normalize import _subst
        g = comp.generators[0]
        if not isinstance(g.target, ast.Name):
            return comp
        itn = g.iter
        was_sorted = None
        for _h in range(4):
            if isinstance(itn, ast.Call) and isinstance(itn.func, ast.Name) and itn.func.id == "sorted" and len(itn.args) == 1 and not itn.keywords:
                was_sorted = itn
                itn = itn.args[0]
            elif isinstance(itn, ast.Call) and isinstance(itn.func, ast.Name) and itn.func.id in ("list", "tuple") and len(itn.args) == 1:
                itn = itn.args[0]
            elif isinstance(itn, ast.Call):
                # a helper of the package whose body is `return E`
                try:
                    tg = self.ctx.cg.resolve_callee(self.f, itn.func)
                except Exception:
                    tg = []
                fn = self.ctx.cg.func(tg[0]) if len(tg) == 1 else None
                body = [st for st in fn.node.body if not (isinstance(st, ast.Expr) and isinstance(st.value, ast.Constant))] if fn is not None else []
                if fn is None or len(body) != 1 or not isinstance(body[0], ast.Return) or body[0].value is None or itn.keywords \
                        or len(itn.args) != len(fn.params):
                    return comp
                itn = _subst(body[0].value, dict(zip(fn.params, itn.args)))
            else:
                break
        if not (isinstance(itn, (ast.GeneratorExp, ast.ListComp)) and len(itn.generators) == 1 and not itn.generators[0].ifs
                and isinstance(itn.generators[0].target, ast.Name)):
            return comp
        inner = itn.generators[0]
        if was_sorted is not None:
            tpl, args = self.format_of(itn.elt)
            numbered = any(isinstance(a, ast.Name) and a.id == inner.target.id for a in args) and "{" in tpl
            padded = any(":0" in f for f in tpl.split("{")[1:])
            if numbered and not padded:
                raise ReadableWrong("the names %s are put in order with sorted(): as text, `_10` comes before `_2`, so from ten items on the k-th line does not carry the k-th name"
                                    % tpl[:30], was_sorted, "names generated in numeric order (the range itself), or zero-padded")
        fused = ast.ListComp(elt=_subst(comp.elt, {g.target.id: itn.elt}), generators=[inner])
        ast.copy_location(fused, comp)
        for sub in ast.walk(fused):
            if not hasattr(sub, "lineno"):
                ast.copy_location(sub, comp)
        return fused

    def family_range(self, it, g):
        t = g.target
        itn = g.iter
        it.vars = [x.id for x in ast.walk(t) if isinstance(x, ast.Name)]
        if isinstance(itn, ast.Call) and isinstance(itn.func, ast.Name) and itn.func.id == "range":
            a = itn.args
            if len(a) == 1:
                it.start, stop = Poly.const(0), self.intval(a[0])
            elif len(a) == 2:
                it.start, stop = self.intval(a[0]), self.intval(a[1])
            else:
                raise AnalysisError("range with step")
            it.count = stop - it.start
            it.var = t.id if isinstance(t, ast.Name) else None
            it.iter_desc = ast.unparse(itn)
            return
        if isinstance(itn, ast.Call) and isinstance(itn.func, ast.Name) and itn.func.id == "enumerate" and len(itn.args) >= 1:
            kw = [k.value for k in itn.keywords if k.arg == "start"]
            it.start = self.intval(itn.args[1]) if len(itn.args) > 1 else (self.intval(kw[0]) if kw else Poly.const(0))
            it.count = self.intval(ast.Call(func=ast.Name(id="len", ctx=ast.Load()), args=[itn.args[0]], keywords=[]))
            it.var = t.elts[0].id if isinstance(t, ast.Tuple) and isinstance(t.elts[0], ast.Name) else None
            it.value_var = t.elts[1].id if isinstance(t, ast.Tuple) and len(t.elts) > 1 and isinstance(t.elts[1], ast.Name) else None
            it.source = itn.args[0].id if isinstance(itn.args[0], ast.Name) else None
            it.iter_desc = ast.unparse(itn)
            return
        # for value in parameters[a][b]
        p = self.path_of(itn)
        if p:
            it.count = Poly.atom("len(%s)" % p)
            it.var = None
            it.value_var = t.id if isinstance(t, ast.Name) else None
            it.source_path = p
            it.iter_desc = ast.unparse(itn)
            return
        if isinstance(itn, ast.Name) and itn.id in self.rows_of:
            it.count = Poly.atom(self.rows_of[itn.id])
            it.source = itn.id
            it.value_var = t.id if isinstance(t, ast.Name) else None
            it.iter_desc = ast.unparse(itn)
            return
        raise AnalysisError("unrecognised family iterator %s" % ast.unparse(itn)[:60])

    def line_item(self, e, kind):
        tpl, args = self.format_of(e)
        return Item(kind, tpl, args, e)

    def format_of(self, e):
        """String expression -> (display template with {k[:spec]} fields, [arg ASTs]).

        Literal braces of the resulting text are kept as they are; fields
        appear as {k} / {k:spec} where k indexes the returned args."""
        parts = self.strparts(e)
        tpl = ""
        args = []
        for p in parts:
            if isinstance(p, str):
                tpl += p
            else:
                a, spec, conv = p
                tpl += "{%d%s%s}" % (len(args), ("!" + conv) if conv else "", (":" + spec) if spec else "")
                args.append(a)
        return tpl, args

    def strparts(self, e, _depth=0):
        """Symbolic string: list of literal str pieces and (arg, spec, conv) fields."""
        if isinstance(e, ast.Constant) and isinstance(e.value, str):
            return [e.value]
        if isinstance(e, ast.JoinedStr):
            out = []
            for v in e.values:
                if isinstance(v, ast.Constant):
                    out.append(v.value)
                else:
                    spec = ""
                    if v.format_spec is not None:
                        spec = "".join(x.value for x in v.format_spec.values if isinstance(x, ast.Constant))
                    out.append((v.value, spec, None))
            return out
        if isinstance(e, ast.BinOp) and isinstance(e.op, ast.Add):
            return self.strparts(e.left) + self.strparts(e.right)
        if isinstance(e, ast.Call) and isinstance(e.func, ast.Attribute) and e.func.attr == "format":
            base = self.strparts(e.func.value)
            if any(not isinstance(p, str) for p in base):
                raise AnalysisError("format applied to a string with unresolved fields: %s" % ast.unparse(e)[:60])
            text = "".join(base)
            out = []
            auto = 0
            for lit, field, spec, conv in string.Formatter().parse(text):
                if lit:
                    out.append(lit)
                if field is None:
                    continue
                if field == "":
                    idx = auto
                    auto += 1
                else:
                    try:
                        idx = int(field)
                    except ValueError:
                        raise AnalysisError("named format field %r" % field)
                if idx >= len(e.args):
                    raise AnalysisError("format field without argument in %s" % ast.unparse(e)[:60])
                a = e.args[idx]
                cv = self.const_text(a)
                if cv is not None and not spec and not conv:
                    out.append(cv)
                else:
                    out.append((a, spec or "", conv))
            # merge adjacent literals
            merged = []
            for p in out:
                if isinstance(p, str) and merged and isinstance(merged[-1], str):
                    merged[-1] += p
                else:
                    merged.append(p)
            return merged
        if isinstance(e, ast.Name) and e.id in self.env and e.id not in self.f.params and _depth < 6:
            return self.strparts(self.env[e.id], _depth + 1)
        if isinstance(e, ast.IfExp):
            d = self.decide(e.test)
            if d is not None:
                return self.strparts(e.body if d else e.orelse, _depth + 1)
        raise AnalysisError("unrecognised line expression %s" % ast.unparse(e)[:80])

    def const_text(self, a):
        """Text of an argument known now: constants and the `precision`
        style parameters are NOT resolved here (kept symbolic)."""
        if isinstance(a, ast.Constant) and isinstance(a.value, (str, int)) and not isinstance(a.value, bool):
            # keep braces of constants that are themselves templates
            return str(a.value)
        if isinstance(a, ast.Name) and a.id in self.f.params and a.id not in ("parameters", "connection", "configuration", "outfile"):
            # a formatting parameter (precision): keep a visible marker
            return "<%s>" % a.id
        return None

    def count_atom(self, sel, k, _depth=0):
        """Column k of a one-row SELECT as a symbolic size `count(table.column)` (number of distinct non-NULL
        values): count(DISTINCT c) FROM t;  count(*) FROM (SELECT DISTINCT c FROM t WHERE c IS NOT NULL);
        a scalar sub-query of either form."""
        if _depth > 3 or k >= len(sel.columns):
            return None
        e = sel.columns[k][0]
        if e[0] == "subq":
            # a scalar sub-query in the select list of a one-row statement without FROM
            if sel.sources or sel.where is not None or len(e[1].columns) != 1:
                return None
            return self.count_atom(e[1], 0, _depth + 1)
        if not (e[0] == "call" and e[1] == "COUNT" and len(sel.sources) == 1 and not sel.group_by and not sel.compound):
            return None
        src = sel.sources[0]
        if e[3] and e[2] and e[2][0][0] == "col" and src.subq is None and sel.where is None:
            return "count(%s.%s)" % (src.table, e[2][0][2])
        if not e[3] and e[2] and e[2][0][0] == "star" and src.subq is not None and sel.where is None:
            sq = src.subq
            if sq.distinct and len(sq.columns) == 1 and sq.columns[0][0][0] == "col" and len(sq.sources) == 1 and sq.sources[0].subq is None \
                    and not sq.group_by and not sq.compound and sq.limit is None:
                col = sq.columns[0][0][2]
                w = sq.where
                notnull = w is not None and w[0] == "bin" and w[1] == "ISNOT" and w[2][0] == "col" and w[2][2] == col and w[3] == ("null",)
                if w is None:
                    # SELECT DISTINCT keeps one NULL row that count(DISTINCT) ignores: only the same for a NOT NULL column
                    try:
                        cd = self.ctx.schema.tables[sq.sources[0].table].col(col)
                        notnull = bool(cd is not None and (cd.notnull))
                    except Exception:
                        notnull = False
                if notnull:
                    return "count(%s.%s)" % (sq.sources[0].table, col)
        return None

    # -- execution
    def run(self):
        self.block(self.f.node.body)
        return self

    def block(self, stmts):
        for st in stmts:
            if self.raised:
                return
            self.stmt(st)

    def stmt(self, st):
        if isinstance(st, ast.Expr):
            v = st.value
            if isinstance(v, ast.Constant):
                return
            if isinstance(v, ast.Call):
                self.call_effect(v)
            return
        if isinstance(st, ast.Assign) and len(st.targets) == 1 and isinstance(st.targets[0], ast.Name):
            name = st.targets[0].id
            v = st.value
            self.env[name] = v
            if isinstance(v, ast.Name) and v.id in self.lists:
                self.lists[name] = list(self.lists[v.id])     # a second name for the list built so far (lists here are only extended, never edited in place)
                return
            # list?
            if isinstance(v, (ast.List, ast.ListComp)) or (isinstance(v, ast.BinOp) and isinstance(v.op, ast.Add) and self._looks_list(v)):
                try:
                    items = self.make_items(v)
                    if all(isinstance(i, Item) for i in items) and self._is_lines(v):
                        self.lists[name] = items
                        return
                except AnalysisError:
                    pass
            # SQL-derived values
            if isinstance(v, ast.Subscript) and isinstance(v.value, ast.Call) and isinstance(v.value.func, ast.Attribute) \
                    and v.value.func.attr == "fetchone" and isinstance(v.value.func.value, ast.Call):
                self.call_effect(v.value.func.value)          # cursor.execute(SQL).fetchone()[0]
            if isinstance(v, ast.Subscript) and isinstance(v.value, ast.Call) and isinstance(v.value.func, ast.Attribute) \
                    and v.value.func.attr == "fetchone" and self.last_sql is not None \
                    and isinstance(v.slice, ast.Constant) and isinstance(v.slice.value, int) and 0 <= v.slice.value < len(self.last_sql.columns):
                atom = self.count_atom(self.last_sql, v.slice.value)
                if atom is not None:
                    self.intenv[name] = Poly.atom(atom)
                    return
            if isinstance(v, ast.ListComp) and self.last_sql is not None and "fetchall" in ast.unparse(v):
                sel = self.last_sql
                if len(sel.sources) == 1:
                    self.rows_of[name] = "rows(%s)" % sel.sources[0].table
                    self.sql_order[name] = (sel.sources[0].table, sel.order_by, sel)
                    return
            if isinstance(v, ast.Call) and isinstance(v.func, ast.Attribute) and v.func.attr == "cursor":
                return
            try:
                self.intenv[name] = self.intval(v)
            except NotAlgebraic:
                pass
            return
        if isinstance(st, ast.Assign) and len(st.targets) == 1 and isinstance(st.targets[0], (ast.Tuple, ast.List)) and len(st.targets[0].elts) == 1 \
                and isinstance(st.targets[0].elts[0], ast.Name):
            # (n,) = cursor.fetchone()   is   n = cursor.fetchone()[0]
            v = st.value
            eq = ast.Assign(targets=[st.targets[0].elts[0]], value=ast.Subscript(value=v, slice=ast.Constant(value=0), ctx=ast.Load()))
            ast.copy_location(eq, st)
            ast.copy_location(eq.value, st)
            return self.stmt(eq)
        if isinstance(st, ast.AugAssign) and isinstance(st.target, ast.Name) and isinstance(st.op, ast.Add) and st.target.id in self.lists:
            self.lists[st.target.id] = self.lists[st.target.id] + self.make_items(st.value)
            return
        if isinstance(st, ast.If):
            d = self.decide(st.test)
            if d is None:
                # a guard that raises: assume not taken if its body only raises
                from .flow import always_raises
                if always_raises(st.body) and not st.orelse:
                    return
                raise AnalysisError("undecidable branch %s" % ast.unparse(st.test)[:80])
            self.block(st.body if d else st.orelse)
            return
        if isinstance(st, ast.Assert):
            d = self.decide(st.test)
            if d is False:
                self.raised = True
            return
        if isinstance(st, ast.Raise):
            self.raised = True
            return
        if isinstance(st, (ast.Pass, ast.Delete)):
            return
        if isinstance(st, ast.With):
            # with closing(connection.cursor()) as cursor: / with open(...) as f:
            for item in st.items:
                if isinstance(item.optional_vars, ast.Name):
                    self.env[item.optional_vars.id] = item.context_expr
            self.block(st.body)
            return
        if isinstance(st, ast.Assign) and len(st.targets) == 1 and isinstance(st.targets[0], (ast.Tuple, ast.List)) \
                and all(isinstance(t, ast.Name) for t in st.targets[0].elts):
            v = st.value
            for _h in range(4):
                if isinstance(v, ast.IfExp) and self.decide(v.test) is not None:
                    v = v.body if self.decide(v.test) else v.orelse
            if isinstance(v, (ast.Tuple, ast.List)) and len(v.elts) == len(st.targets[0].elts) and not any(isinstance(x, ast.Starred) for x in v.elts):
                names = {t.id for t in st.targets[0].elts}
                if not any(isinstance(n, ast.Name) and n.id in names for x in v.elts for n in ast.walk(x)):
                    for t, x in zip(st.targets[0].elts, v.elts):
                        eq = ast.Assign(targets=[t], value=x)
                        ast.copy_location(eq, st)
                        self.stmt(eq)
                    return
            if isinstance(v, ast.Call) and isinstance(v.func, ast.Attribute) and v.func.attr == "fetchone" and not v.args:
                # a, b = cursor.fetchone()   is   a = cursor.fetchone()[0] ; b = ...[1]  (one row, read once)
                for k, t in enumerate(st.targets[0].elts):
                    eq = ast.Assign(targets=[t], value=ast.Subscript(value=v, slice=ast.Constant(value=k), ctx=ast.Load()))
                    ast.copy_location(eq, st)
                    ast.copy_location(eq.value, st)
                    self.stmt(eq)
                return
            raise AnalysisError("unsupported tuple assignment %s" % ast.unparse(st)[:70])
        if isinstance(st, ast.Assign) and len(st.targets) == 1 and isinstance(st.targets[0], (ast.Tuple, ast.List)) \
                and all(isinstance(t, (ast.Tuple, ast.List)) and len(t.elts) == 1 and isinstance(t.elts[0], ast.Name) for t in st.targets[0].elts) \
                and isinstance(st.value, ast.Call) and isinstance(st.value.func, ast.Attribute) and st.value.func.attr == "fetchall" \
                and self.last_sql is not None and len(self.last_sql.compound) == len(st.targets[0].elts) - 1 and self.last_sql.compound:
            # (a,), (b,) = cursor.fetchall()  over  SELECT .. UNION [ALL] SELECT ..: row k is the k-th statement's only for UNION ALL
            sel = self.last_sql
            ops = [op for op, _ in sel.compound]
            if any(op != "UNION ALL" for op in ops):
                raise ReadableWrong("rows of `... %s ...` bound by position to %s: UNION removes duplicate rows and returns them in value order, so row k is not the k-th statement's result"
                                    % (ops[0], ast.unparse(st.targets[0])[:50]), st,
                                    "each count bound to the statement that computes it (separate statements, scalar sub-queries, or UNION ALL)")
            if sel.order_by:
                raise AnalysisError("compound SELECT with ORDER BY bound by position")
            import copy as _copy
            first = _copy.copy(sel)
            first.compound = []
            for k, (t, sub) in enumerate(zip(st.targets[0].elts, [first] + [c for _, c in sel.compound])):
                atom = self.count_atom(sub, 0)
                if atom is None:
                    raise AnalysisError("row %d of the compound SELECT is not a recognised count" % k)
                self.intenv[t.elts[0].id] = Poly.atom(atom)
            return
        if isinstance(st, ast.For) and not st.orelse and len(st.body) == 1:
            # for T in IT: L.append(E)   is   L += [E for T in IT]
            b = st.body[0]
            elt = None
            if isinstance(b, ast.Expr) and isinstance(b.value, ast.Call) and isinstance(b.value.func, ast.Attribute) and b.value.func.attr == "append" \
                    and isinstance(b.value.func.value, ast.Name) and b.value.func.value.id in self.lists and len(b.value.args) == 1:
                elt, lname = b.value.args[0], b.value.func.value.id
            elif isinstance(b, ast.AugAssign) and isinstance(b.op, ast.Add) and isinstance(b.target, ast.Name) and b.target.id in self.lists \
                    and isinstance(b.value, ast.List) and len(b.value.elts) == 1:
                elt, lname = b.value.elts[0], b.target.id
            if elt is not None:
                lc = ast.ListComp(elt=elt, generators=[ast.comprehension(target=st.target, iter=st.iter, ifs=[], is_async=0)])
                ast.copy_location(lc, st)
                self.lists[lname] = self.lists[lname] + self.make_items(lc)
                return
        raise AnalysisError("unsupported statement %s" % type(st).__name__)

    def _looks_list(self, v):
        return any(isinstance(n, (ast.List, ast.ListComp)) for n in ast.walk(v))

    def _is_lines(self, v):
        # a list of strings (not a list of numbers fetched from SQL)
        for n in ast.walk(v):
            if isinstance(n, ast.ListComp):
                e = n.elt
                if isinstance(e, ast.Subscript):
                    return False
        return True

    def call_effect(self, c):
        if isinstance(c.func, ast.Attribute) and isinstance(c.func.value, ast.Name) and c.func.value.id in self.lists and len(c.args) == 1 and not c.keywords:
            if c.func.attr == "append":
                self.lists[c.func.value.id] = self.lists[c.func.value.id] + [self.line_item(c.args[0], "lit")]
                return
            if c.func.attr == "extend":
                self.lists[c.func.value.id] = self.lists[c.func.value.id] + self.make_items(c.args[0])
                return
        if isinstance(c.func, ast.Attribute) and c.func.attr == "execute":
            s = self.ctx.site_of_call(c)
            if s is not None and s.stmt is not None and s.stmt.kind == "select":
                self.last_sql = s.stmt
            return
        if isinstance(c.func, ast.Attribute) and c.func.attr == "write" and c.args:
            a = c.args[0]
            # os.linesep.join(lines)
            if isinstance(a, ast.Call) and isinstance(a.func, ast.Attribute) and a.func.attr == "join" and a.args \
                    and isinstance(a.args[0], ast.Name) and a.args[0].id in self.lists:
                self.written = self.lists[a.args[0].id]
            elif isinstance(a, ast.Call) and isinstance(a.func, ast.Attribute) and a.func.attr == "join" and len(a.args) == 1 \
                    and not isinstance(a.args[0], ast.Name):
                self.written = self.make_items(a.args[0])      # the list expression written in place
            return


def sections(items, headers):
    """Split a list of Items at literal header lines: {header: [items]}"""
    out = {}
    cur = None
    for it in items:
        if it.kind == "lit" and it.template in headers:
            cur = it.template
            out[cur] = []
        elif cur is not None:
            out[cur].append(it)
    return out


def total(items):
    t = Poly.const(0)
    for it in items:
        t = t + it.count
    return t


def first_token(it):
    """First whitespace-delimited token of the line template."""
    return it.template.split()[0] if it.template.split() else ""


def token(it, k):
    toks = it.template.split()
    return toks[k] if len(toks) > k else None
