"""Arguments are read-only: in-place changes of a caller's array.

A function that receives an array and only reads it may be called twice
with the same object, and the caller may go on using it.  numpy makes it
easy to break this without any assignment to the parameter:
np.asarray(p) *is* p when p already is an array of the requested dtype,
and `Y /= s` on an array changes the buffer, not the name.

may_alias: the parameter itself, np.asarray / np.asanyarray /
np.atleast_1d / np.ravel / np.squeeze of a may-alias, its .T / .view() /
.reshape() / .ravel() / basic slices, and names assigned from those.
A fresh array: np.array(...) (copy=True by default), .copy(), .astype(),
arithmetic, np.ceil(...), ...

in-place change: `A op= E`, `A[...] = E`, `A[...] op= E`, `f(..., out=A)`,
A.sort() / A.fill() / A.resize() / A.put() / A.itemset() / A.partition().

Zero sites are expected on the pinned tree; a positive control keeps the
recogniser honest.
"""

import ast

from .source import dotted_name, enclosing_func

VIEW_FUNCS = {"asarray", "asanyarray", "atleast_1d", "atleast_2d", "ravel", "squeeze", "reshape", "transpose", "asfarray", "ascontiguousarray"}
VIEW_METHODS = {"view", "reshape", "ravel", "squeeze", "transpose", "swapaxes"}
INPLACE_METHODS = {"sort", "fill", "resize", "put", "itemset", "partition", "setfield", "byteswap"}


def _array_params(fnode):
    """parameters used as sequences: subscripted, len()-ed, or handed to a numpy call"""
    params = [a.arg for a in fnode.args.posonlyargs + fnode.args.args + fnode.args.kwonlyargs]
    used = set()
    for n in ast.walk(fnode):
        if isinstance(n, ast.Subscript) and isinstance(n.value, ast.Name) and n.value.id in params:
            used.add(n.value.id)
        elif isinstance(n, ast.Call):
            fn = dotted_name(n.func) or ""
            if fn == "len" or fn.startswith("np.") or fn.startswith("numpy."):
                for a in n.args:
                    if isinstance(a, ast.Name) and a.id in params:
                        used.add(a.id)
    return [p for p in params if p in used]


def _is_view_of(e, aliases):
    """name of the aliased parameter if e may share memory with one of `aliases`, else None"""
    if isinstance(e, ast.Name):
        return aliases.get(e.id)
    if isinstance(e, ast.Attribute) and e.attr in ("T", "real", "flat"):
        return _is_view_of(e.value, aliases)
    if isinstance(e, ast.Subscript):
        sl = e.slice
        basic = isinstance(sl, ast.Slice) or (isinstance(sl, ast.Tuple) and all(isinstance(x, (ast.Slice, ast.Constant)) for x in sl.elts)) \
            or (isinstance(sl, ast.Constant) and sl.value is Ellipsis)
        return _is_view_of(e.value, aliases) if basic else None
    if isinstance(e, ast.Call):
        fn = dotted_name(e.func) or ""
        last = fn.split(".")[-1]
        if (fn.startswith("np.") or fn.startswith("numpy.")) and last in VIEW_FUNCS and e.args:
            if any(k.arg == "copy" and isinstance(k.value, ast.Constant) and k.value.value is True for k in e.keywords):
                return None
            return _is_view_of(e.args[0], aliases)
        if (fn.startswith("np.") or fn.startswith("numpy.")) and last == "array" and e.args:
            if any(k.arg == "copy" and isinstance(k.value, ast.Constant) and k.value.value is False for k in e.keywords):
                return _is_view_of(e.args[0], aliases)
            return None
        if isinstance(e.func, ast.Attribute) and e.func.attr in VIEW_METHODS:
            return _is_view_of(e.func.value, aliases)
    if isinstance(e, ast.IfExp):
        return _is_view_of(e.body, aliases) or _is_view_of(e.orelse, aliases)
    return None


def inplace_changes(fnode):
    """[(node, alias name, parameter, text)] for in-place changes of a may-alias of an array parameter of fnode"""
    aliases = {p: p for p in _array_params(fnode)}
    changed = True
    while changed:
        changed = False
        for n in ast.walk(fnode):
            if isinstance(n, ast.Assign) and len(n.targets) == 1 and isinstance(n.targets[0], ast.Name) and enclosing_func(n) is fnode:
                t = n.targets[0].id
                p = _is_view_of(n.value, aliases)
                if p is not None and t not in aliases:
                    aliases[t] = p
                    changed = True
    out = []
    for n in ast.walk(fnode):
        if enclosing_func(n) is not fnode:
            continue
        if isinstance(n, ast.AugAssign):
            t = n.target
            base = t.value if isinstance(t, ast.Subscript) else t
            # `param op= E` on a name: in place for an array (the only parameters listed), a rebinding for a number
            p = aliases.get(t.id) if isinstance(t, ast.Name) else _is_view_of(base, aliases)
            if p is not None:
                out.append((n, ast.unparse(base), p, "`%s` changes the buffer of %s in place" % (ast.unparse(n)[:60], ast.unparse(base))))
        elif isinstance(n, ast.Assign):
            for t in n.targets:
                if isinstance(t, ast.Subscript):
                    p = _is_view_of(t.value, aliases)
                    if p is not None:
                        out.append((n, ast.unparse(t.value), p, "`%s` stores into %s" % (ast.unparse(n)[:60], ast.unparse(t.value))))
        elif isinstance(n, ast.Call):
            for k in n.keywords:
                if k.arg == "out":
                    p = _is_view_of(k.value, aliases)
                    if p is not None:
                        out.append((n, ast.unparse(k.value), p, "`%s` writes its result into %s" % (ast.unparse(n)[:60], ast.unparse(k.value))))
            if isinstance(n.func, ast.Attribute) and n.func.attr in INPLACE_METHODS:
                p = _is_view_of(n.func.value, aliases)
                if p is not None:
                    out.append((n, ast.unparse(n.func.value), p, "`%s` changes %s in place" % (ast.unparse(n)[:60], ast.unparse(n.func.value))))
    return out


def control():
    src = ("import numpy as np\n"
           "def f(x, y, s):\n"
           " Y = np.asarray(y, dtype=np.float64)\n"
           " Y /= s\n"
           " Z = np.array(y)\n"
           " Z /= s\n"
           " W = y[1:]\n"
           " W[0] = 0\n"
           " np.divide(y, s, out=y)\n"
           " V = y / s\n"
           " V *= 2\n"
           " return len(x), Y, Z, V\n")
    tree = ast.parse(src)
    for n in ast.walk(tree):
        for c in ast.iter_child_nodes(n):
            c.parent = n
    return len(inplace_changes(tree.body[1])) == 3


def read_only_arguments(ctx, chk, rule, funcs, why):
    if not control():
        chk.errors.append("%s positive control (in-place change of an argument) did not match" % rule)
    n_f = n_hits = 0
    for fq in funcs:
        modname, qual = fq.split(".", 1)
        mod = ctx.repo.modules.get(modname)
        fnode = None
        if mod is not None:
            # the source as written: the normal forms replace `X op= E` by `X = X op E`
            raw = ast.parse(mod.src)
            for n in ast.walk(raw):
                for c in ast.iter_child_nodes(n):
                    c.parent = n
            for n in raw.body:
                if isinstance(n, ast.FunctionDef) and n.name == qual:
                    fnode = n
        if fnode is None:
            chk.indeterminate(rule, ("spowtd/%s.py" % modname, qual, 0), "function %s not found" % fq)
            continue
        n_f += 1
        for node, alias, p, text in inplace_changes(fnode):
            n_hits += 1
            chk.ob(rule, False, (mod.relpath, qual, node.lineno), ("%s, which may be the caller's `%s`" % (text, p)) if alias != p else text,
                   "arguments are read, never changed: a fresh array (`%s / ...`, np.array(%s)) before any in-place arithmetic" % (p, p),
                   key="%s|in-place|%s" % (qual, p), why=why)
        if not any(True for _ in inplace_changes(fnode)):
            chk.ob(rule, True, (mod.relpath, qual, fnode.lineno), "no in-place change of %s or of a view of them" % (", ".join(_array_params(fnode)) or "(no array parameters)"),
                   "arguments are read, never changed", key="%s|in-place" % qual)
    chk.count("functions examined for in-place changes of their array arguments (expected 0 changes)", n_f)
    return n_f


def read_only_arguments_in_modules(ctx, chk, rule, modules, why, out_params=()):
    """The same rule over every function and method of `modules` (so that a new method is read too); zero instances on the
    pinned tree, the positive control of `control()`."""
    if not control():
        chk.errors.append("%s positive control (in-place change of an argument) did not match" % rule)
    n_f = 0
    for modname in modules:
        mod = ctx.repo.modules.get(modname)
        if mod is None:
            continue
        raw = ast.parse(mod.src)
        for n in ast.walk(raw):
            for c in ast.iter_child_nodes(n):
                c.parent = n
        fdefs = []
        for n in raw.body:
            if isinstance(n, ast.FunctionDef):
                fdefs.append((n.name, n))
            elif isinstance(n, ast.ClassDef):
                for m in n.body:
                    if isinstance(m, ast.FunctionDef):
                        fdefs.append(("%s.%s" % (n.name, m.name), m))
        for qual, fnode in fdefs:
            n_f += 1
            for node, alias, p, text in inplace_changes(fnode):
                if p in ("self", "cls") or (qual, p) in out_params:
                    continue          # out_params: buffers the caller allocates for the callee to fill (one named symbol each)
                chk.ob(rule, False, (mod.relpath, qual, node.lineno), ("%s, which may be the caller's `%s`" % (text, p)) if alias != p else text,
                       "arguments are read, never changed: a fresh array (np.array(%s), %s.copy()) before any in-place change" % (p, p),
                       key="%s|in-place|%s" % (qual, p), why=why, local=True)
    chk.count("%s functions and methods examined for in-place changes of their array arguments (expected 0 changes)" % rule, n_f)
    return n_f
