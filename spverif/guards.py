"""Guards (refusals) and backward slices.

A *guard* is `if T: ...raise` (body raises on every path), `if T: ok else:
raise`, or `assert T`.  It is recorded with the condition under which it
raises, as (expr, negated): the guard raises when `expr` is truthy (xor
negated).
"""

import ast

from .cfg import ENTRY
from .flow import Flow, always_raises
from .source import enclosing_func, is_ancestor


class Guard:
    def __init__(self, kind, stmt, expr, negated, cfg_node):
        self.kind = kind
        self.stmt = stmt
        self.expr = expr  # raises when bool(expr) != negated
        self.negated = negated
        self.node = cfg_node

    def __repr__(self):
        return "<Guard %s line %d: raises when %s%s>" % (
            self.kind, self.stmt.lineno, "not " if self.negated else "", ast.unparse(self.expr))


def strip_not(expr):
    neg = False
    while isinstance(expr, ast.UnaryOp) and isinstance(expr.op, ast.Not):
        neg = not neg
        expr = expr.operand
    return expr, neg


def guards_of(finfo, include_assert=True):
    flow = Flow.of(finfo)
    out = []
    for n, st in flow.cfg.stmt_of.items():
        if enclosing_func(st) is not finfo.node:
            continue
        if isinstance(st, ast.If) and flow.cfg.kind[n] == "if":
            e, neg = strip_not(st.test)
            if always_raises(st.body):
                out.append(Guard("if-raise", st, e, neg, n))
            elif st.orelse and always_raises(st.orelse):
                out.append(Guard("else-raise", st, e, not neg, n))
        elif include_assert and isinstance(st, ast.Assert):
            e, neg = strip_not(st.test)
            # assert T raises when not T
            out.append(Guard("assert", st, e, not neg, n))
    return out


def back_slice(flow, expr, depth=4, _seen=None):
    """AST nodes (expressions) that `expr` depends on through unique or
    multiple reaching plain assignments / loop targets, bounded depth.
    Returns a list of expression nodes including `expr` itself."""
    _seen = _seen if _seen is not None else set()
    out = [expr]
    if depth <= 0:
        return out
    for n in ast.walk(expr):
        if isinstance(n, ast.Name) and isinstance(n.ctx, ast.Load):
            defs = flow.reaching_defs(n)
            if not defs:
                continue
            for d in defs:
                if d == ENTRY or (d, n.id) in _seen:
                    continue
                _seen.add((d, n.id))
                st = flow.cfg.stmt_of.get(d)
                vals = []
                if isinstance(st, ast.Assign):
                    vals = [st.value]
                elif isinstance(st, ast.AugAssign):
                    vals = [st.value, st.target]
                elif isinstance(st, (ast.For,)):
                    vals = [st.iter]
                elif isinstance(st, ast.With):
                    vals = [it.context_expr for it in st.items]
                elif isinstance(st, ast.AnnAssign) and st.value is not None:
                    vals = [st.value]
                for v in vals:
                    out += back_slice(flow, v, depth - 1, _seen)
            # the object's contents also depend on what is put into it in place (x.append(v), x[i] = v),
            # and on the loops / tests those statements sit under
            for mn, mst in flow._mutation_sites(n.id):
                if ("mut", id(mst)) in _seen:
                    continue
                _seen.add(("mut", id(mst)))
                vals = []
                if isinstance(mst, (ast.Assign, ast.AugAssign, ast.AnnAssign)) and getattr(mst, "value", None) is not None:
                    vals.append(mst.value)
                elif isinstance(mst, ast.Expr):
                    vals.append(mst.value)
                a = getattr(mst, "parent", None)
                while a is not None and a is not flow.f.node:
                    if isinstance(a, (ast.For, ast.AsyncFor)):
                        vals.append(a.iter)
                    elif isinstance(a, (ast.If, ast.While)):
                        vals.append(a.test)
                    a = getattr(a, "parent", None)
                for v in vals:
                    out += back_slice(flow, v, depth - 1, _seen)
    return out


def slice_calls(flow, expr, depth=4):
    calls = []
    for e in back_slice(flow, expr, depth):
        for n in ast.walk(e):
            if isinstance(n, ast.Call):
                calls.append(n)
    return calls


def nonempty_nf(expr, negated=False):
    """Normalise a truthiness / length test.  Returns (subject_expr,
    positive) meaning: condition is true iff subject is non-empty
    (positive) / empty (not positive); or None if not of that shape."""
    e, neg = strip_not(expr)
    neg = neg != negated
    if isinstance(e, ast.Call) and isinstance(e.func, ast.Name) and e.func.id == "bool" and len(e.args) == 1:
        e = e.args[0]
    if isinstance(e, ast.Compare) and len(e.ops) == 1:
        l, op, r = e.left, e.ops[0], e.comparators[0]

        def is_len(x):
            return (isinstance(x, ast.Call) and isinstance(x.func, ast.Name)
                    and x.func.id == "len" and len(x.args) == 1)

        def cval(x):
            return x.value if isinstance(x, ast.Constant) and isinstance(x.value, int) and not isinstance(x.value, bool) else None

        if is_len(r) and not is_len(l):
            l, r = r, l
            op = {ast.Lt: ast.Gt, ast.Gt: ast.Lt, ast.LtE: ast.GtE, ast.GtE: ast.LtE}.get(type(op), type(op))()
        if is_len(l) and cval(r) is not None:
            c = cval(r)
            t = type(op)
            subj = l.args[0]
            if (t is ast.Gt and c == 0) or (t is ast.NotEq and c == 0) or (t is ast.GtE and c == 1):
                return subj, not neg
            if (t is ast.Eq and c == 0) or (t is ast.Lt and c == 1) or (t is ast.LtE and c == 0):
                return subj, neg
            return None
        if isinstance(r, (ast.List, ast.Tuple)) and not r.elts:
            if isinstance(op, ast.NotEq):
                return l, not neg
            if isinstance(op, ast.Eq):
                return l, neg
        return None
    if isinstance(e, (ast.Name, ast.Attribute, ast.Subscript)):
        return e, not neg
    return None


def enclosing_swallowing_try(stmt, finfo):
    """A try statement inside finfo that encloses stmt in its body and
    has a handler that can complete normally."""
    n = getattr(stmt, "parent", None)
    child = stmt
    while n is not None and n is not finfo.node:
        if isinstance(n, ast.Try) and any(child is b or is_ancestor(b, child) for b in n.body):
            for h in n.handlers:
                if not always_raises(h.body):
                    return n
        child = n
        n = getattr(n, "parent", None)
    return None
