"""C17 -- the simulated rise curve is the integral of specific yield.

 O1 cell integrals: element i = specific_yield.integrate(grid[i-1], grid[i]),
    element 0 = 0, curve = cumulative sum  (affine index facts)
 O2 shift = + requested - mean(curve)
 O3 command: select-list positions bind to (storage, level); the grid
    passed on is the level column, the requested mean is the mean of the
    measured storage; the specific yield is built from the parameter file's
    `specific_yield` entry
 O4 output: header labels, their units and the zipped columns agree
    position by position
"""

import ast
import re

from .. import simfacts
from ..flow import Flow
from ..report import where_of
from ..source import dotted_name, enclosing_stmt
from ..sqlbind import binding_of, select_column_name
from ..sqlmodel import walk_expr
from ..units import FlowUnits, UnitError, UnitEval, fmt, label_unit, unit_of_name

ROLE_COLUMNS = {
    "zeta_mm": "level",
    "mean_crossing_depth_mm": "measured",
    "elapsed_time_s": "measured",
}


def column_role(expr):
    roles = {ROLE_COLUMNS[e[2]] for e in walk_expr(expr) if e[0] == "col" and e[2] in ROLE_COLUMNS}
    return next(iter(roles)) if len(roles) == 1 else None


def sql_alias_unit(sel, i):
    """Unit of select item i from its expression, and from its output name."""
    from ..units import sql_unit
    e, alias = sel.columns[i]
    try:
        ue = sql_unit(e, lambda c: unit_of_name(c[2]))
    except UnitError as exc:
        ue = None
    name = select_column_name(sel, i)
    return ue, (unit_of_name(name) if name else None), name


class _Rows:
    """Rows of a tabulated output: the zipped column expressions (in the order they are written) and
    whether the row order is the reverse of the zipped order."""

    def __init__(self, args, rev):
        self.args = list(args)
        self.rev = rev


def _labels_of(flow, e):
    """[[str, ...]] or a name bound to [str, ...] inside a one-element list -> the list node of labels."""
    if isinstance(e, ast.Name):
        e = flow.def_value(e)
    if isinstance(e, ast.List) and len(e.elts) == 1:
        inner = e.elts[0]
        while isinstance(inner, ast.Call) and isinstance(inner.func, ast.Name) and inner.func.id in ("list", "tuple") and len(inner.args) == 1:
            inner = inner.args[0]
        if isinstance(inner, ast.Name):
            nm = inner.id
            inner = flow.def_value(inner)
            if inner is None:
                inner = flow.f.module.constants.get(nm)      # a module-level constant
        if isinstance(inner, (ast.List, ast.Tuple)) and inner.elts and all(isinstance(x, ast.Constant) and isinstance(x.value, str) for x in inner.elts):
            return inner
    return None


def _rows_of(flow, f, e, depth=0):
    """Evaluate an expression to the rows it denotes, or None."""
    if depth > 8 or e is None:
        return None
    if isinstance(e, ast.Call) and isinstance(e.func, ast.Name) and e.func.id in ("list", "tuple") and len(e.args) == 1:
        return _rows_of(flow, f, e.args[0], depth + 1)
    if isinstance(e, ast.Call) and isinstance(e.func, ast.Name) and e.func.id == "reversed" and len(e.args) == 1:
        r = _rows_of(flow, f, e.args[0], depth + 1)
        return _Rows(r.args, not r.rev) if r else None
    if isinstance(e, ast.Subscript) and isinstance(e.slice, ast.Slice) and e.slice.lower is None and e.slice.upper is None \
            and e.slice.step is not None and ast.unparse(e.slice.step) == "-1":
        r = _rows_of(flow, f, e.value, depth + 1)
        return _Rows(r.args, not r.rev) if r else None
    if isinstance(e, ast.Call) and isinstance(e.func, ast.Name) and e.func.id == "zip" and len(e.args) >= 2 and not e.keywords \
            and not any(isinstance(a, ast.Starred) for a in e.args):
        return _Rows(e.args, False)
    if isinstance(e, ast.Call) and isinstance(e.func, ast.Attribute) and e.func.attr == "tolist" and not e.args:
        # np.column_stack((a, b, c)).tolist(): row k = [a[k], b[k], c[k]]
        inner = e.func.value
        if isinstance(inner, ast.Name):
            inner = flow.def_value(inner) or inner
        if isinstance(inner, ast.Call) and (dotted_name(inner.func) or "").split(".")[-1] == "column_stack" and len(inner.args) == 1 \
                and isinstance(inner.args[0], (ast.Tuple, ast.List)) and len(inner.args[0].elts) >= 2 \
                and not any(isinstance(a, ast.Starred) for a in inner.args[0].elts):
            return _Rows(inner.args[0].elts, False)
        return None
    if isinstance(e, ast.Call) and isinstance(e.func, ast.Name) and e.func.id == "zip" and len(e.args) == 1 and isinstance(e.args[0], ast.Starred) \
            and isinstance(e.args[0].value, ast.Name):
        # zip(*columns) with columns bound once to a tuple / list display
        dv = flow.def_value(e.args[0].value)
        if isinstance(dv, (ast.Tuple, ast.List)) and len(dv.elts) >= 2 and not any(isinstance(a, ast.Starred) for a in dv.elts):
            return _Rows(dv.elts, False)
        return None
    if isinstance(e, (ast.ListComp, ast.GeneratorExp)) and len(e.generators) == 1 and not e.generators[0].ifs:
        g = e.generators[0]
        src = _rows_of(flow, f, g.iter, depth + 1)
        if src is None:
            return None
        elt = e.elt
        while isinstance(elt, ast.Call) and isinstance(elt.func, ast.Name) and elt.func.id in ("list", "tuple") and len(elt.args) == 1:
            elt = elt.args[0]
        if isinstance(g.target, ast.Name) and isinstance(elt, ast.Name) and elt.id == g.target.id:
            return src                                  # list(item) for item in zip(...)
        if isinstance(g.target, (ast.Tuple, ast.List)) and all(isinstance(t, ast.Name) for t in g.target.elts) \
                and len(g.target.elts) == len(src.args) and isinstance(elt, (ast.List, ast.Tuple)) \
                and all(isinstance(x, ast.Name) for x in elt.elts):
            names = [t.id for t in g.target.elts]
            if all(x.id in names for x in elt.elts):
                return _Rows([src.args[names.index(x.id)] for x in elt.elts], src.rev)   # [a, b, c] for a, b, c in zip(...)
        return None
    if isinstance(e, ast.Name):
        dv = flow.def_value(e, mutable_ok=True)
        if dv is None:
            return None
        node = flow.cfg.node_containing(e)
        dn = flow.unique_def_node(e)
        muts = [st for st in (flow.mutations_between(e.id, dn, node) if dn is not None and node is not None else [])]
        base = None
        if isinstance(dv, (ast.List, ast.Tuple)) and not dv.elts:
            # rows = [] ; for a, b, c in zip(...): rows.append([a, b, c])
            apps = [m for m in muts if isinstance(m, ast.Expr) and isinstance(m.value, ast.Call) and isinstance(m.value.func, ast.Attribute)
                    and m.value.func.attr == "append" and len(m.value.args) == 1]
            if len(apps) == 1:
                loop = getattr(apps[0], "parent", None)
                if isinstance(loop, ast.For) and apps[0] in loop.body:
                    src = _rows_of(flow, f, loop.iter, depth + 1)
                    elt = apps[0].value.args[0]
                    while isinstance(elt, ast.Call) and isinstance(elt.func, ast.Name) and elt.func.id in ("list", "tuple") and len(elt.args) == 1:
                        elt = elt.args[0]
                    if src is not None and isinstance(loop.target, ast.Name) and isinstance(elt, ast.Name) and elt.id == loop.target.id:
                        base = src
                    elif src is not None and isinstance(loop.target, (ast.Tuple, ast.List)) and all(isinstance(t, ast.Name) for t in loop.target.elts) \
                            and len(loop.target.elts) == len(src.args) and isinstance(elt, (ast.List, ast.Tuple)) and all(isinstance(x, ast.Name) for x in elt.elts):
                        names = [t.id for t in loop.target.elts]
                        if all(x.id in names for x in elt.elts):
                            base = _Rows([src.args[names.index(x.id)] for x in elt.elts], src.rev)
                muts = [m for m in muts if m is not apps[0]]
        else:
            base = _rows_of(flow, f, dv, depth + 1)
        if base is None:
            return None
        rev = base.rev
        for m in muts:
            if isinstance(m, ast.Expr) and isinstance(m.value, ast.Call) and isinstance(m.value.func, ast.Attribute) and m.value.func.attr == "reverse" \
                    and not m.value.args and isinstance(getattr(m, "parent", None), (ast.FunctionDef, ast.If)):
                rev = not rev
            else:
                return None              # changed in place by something else
        return _Rows(base.args, rev)
    return None


def output_table(ctx, f):
    """Find the tabulated output yaml.dump([labels] + rows) in function f; rows come from a zip(...) of the
    column arrays, possibly through comprehensions, an append loop, names, list() and reversals.
    Returns (dump_call, labels list node, rows) with rows.args the column expressions and rows.rev the
    reversal of the row order -- or None."""
    flow = Flow.of(f)
    for c in ast.walk(f.node):
        if isinstance(c, ast.Call) and (dotted_name(c.func) or "").endswith("yaml.dump") and c.args:
            arg = c.args[0]
            if isinstance(arg, ast.Name):
                dv = flow.def_value(arg)
                if dv is not None:
                    arg = dv
            if isinstance(arg, ast.BinOp) and isinstance(arg.op, ast.Add):
                labels = _labels_of(flow, arg.left)
                rows = _rows_of(flow, f, arg.right)
                if labels is not None and rows is not None:
                    return c, labels, rows
            # table = [labels] ; for ... in zip(...): table.append(row) ; [table.reverse() is not possible here: the header would move]
            a0 = c.args[0]
            if isinstance(a0, ast.Name):
                # table = [labels] ; table += <rows>
                roots = [x for x in ast.walk(f.node) if isinstance(x, ast.Assign) and len(x.targets) == 1 and isinstance(x.targets[0], ast.Name) and x.targets[0].id == a0.id]
                augs = [x for x in ast.walk(f.node) if isinstance(x, ast.AugAssign) and isinstance(x.target, ast.Name) and x.target.id == a0.id]
                if len(roots) == 1 and len(augs) == 1 and isinstance(augs[0].op, ast.Add) and not flow._mutation_sites(a0.id):
                    labels = _labels_of(flow, roots[0].value)
                    rows = _rows_of(flow, f, augs[0].value)
                    if labels is not None and rows is not None:
                        return c, labels, rows
                dv = flow.def_value(a0, mutable_ok=True)
                labels = _labels_of(flow, dv) if dv is not None else None
                dn, un = flow.unique_def_node(a0), flow.cfg.node_containing(a0)
                if labels is not None and dn is not None and un is not None:
                    muts = flow.mutations_between(a0.id, dn, un)
                    apps = [m for m in muts if isinstance(m, ast.Expr) and isinstance(m.value, ast.Call) and isinstance(m.value.func, ast.Attribute)
                            and m.value.func.attr == "append" and len(m.value.args) == 1]
                    if len(apps) == 1 and len(muts) == 1:
                        loop = getattr(apps[0], "parent", None)
                        if isinstance(loop, ast.For) and apps[0] in loop.body and not loop.orelse:
                            fake = ast.ListComp(elt=apps[0].value.args[0], generators=[ast.comprehension(target=loop.target, iter=loop.iter, ifs=[], is_async=0)])
                            rows = _rows_of(flow, f, fake)
                            if rows is not None:
                                return c, labels, rows
    return None


def vector_dumps(ctx, f):
    """(marker write call, marker text, yaml.dump call) for the
    observations-only branch."""
    out = []
    for c in ast.walk(f.node):
        if isinstance(c, ast.Call) and isinstance(c.func, ast.Attribute) and c.func.attr == "write" and c.args \
                and isinstance(c.args[0], ast.Constant) and isinstance(c.args[0].value, str) and c.args[0].value.startswith("#"):
            blk = enclosing_stmt(c)
            parent = blk.parent
            body = None
            for fld in ("body", "orelse"):
                if blk in getattr(parent, fld, []):
                    body = getattr(parent, fld)
            dump = None
            if body:
                for st in body[body.index(blk) + 1:]:
                    for d in ast.walk(st):
                        if isinstance(d, ast.Call) and (dotted_name(d.func) or "").endswith("yaml.dump"):
                            dump = d
                            break
                    if dump is not None:
                        break
                if dump is None:
                    # for V in IT: FILE.write(FMT.format(V)) -- one item per line, written by hand: read as the dump of IT,
                    # with the item format kept for the width rule (C19.O5)
                    for st in body[body.index(blk) + 1:]:
                        if isinstance(st, ast.For) and isinstance(st.target, ast.Name) and len(st.body) == 1 and not st.orelse \
                                and isinstance(st.body[0], ast.Expr) and isinstance(st.body[0].value, ast.Call):
                            w = st.body[0].value
                            fmt = item_format(w, st.target.id)
                            if fmt is not None:
                                dump = ast.Call(func=ast.Attribute(value=ast.Name(id="yaml", ctx=ast.Load()), attr="dump", ctx=ast.Load()),
                                                args=[st.iter, w.func.value], keywords=[])
                                ast.copy_location(dump, st)
                                ast.fix_missing_locations(dump)
                                dump.parent = st
                                dump.item_format = fmt
                                dump.loop = st
                        break
            out.append((c, c.args[0].value, dump))
    return out


def item_format(w, var):
    """FILE.write('- {:SPEC}\\n'.format(var)) / FILE.write('- %SPEC\\n' % var) -> SPEC, for one YAML sequence item per line"""
    if not (isinstance(w.func, ast.Attribute) and w.func.attr == "write" and len(w.args) == 1):
        return None
    a = w.args[0]
    if isinstance(a, ast.Call) and isinstance(a.func, ast.Attribute) and a.func.attr == "format" and isinstance(a.func.value, ast.Constant) \
            and isinstance(a.func.value.value, str) and len(a.args) == 1 and isinstance(a.args[0], ast.Name) and a.args[0].id == var:
        m = re.fullmatch(r"- \{:?([^{}]*)\}\n", a.func.value.value)
        return m.group(1) if m else None
    if isinstance(a, ast.BinOp) and isinstance(a.op, ast.Mod) and isinstance(a.left, ast.Constant) and isinstance(a.left.value, str) \
            and isinstance(a.right, ast.Name) and a.right.id == var:
        m = re.fullmatch(r"- %([^%\s]*)\n", a.left.value)
        return m.group(1) if m else None
    if isinstance(a, ast.JoinedStr) and len(a.values) == 3 and isinstance(a.values[0], ast.Constant) and a.values[0].value == "- " \
            and isinstance(a.values[2], ast.Constant) and a.values[2].value == "\n" and isinstance(a.values[1], ast.FormattedValue) \
            and isinstance(a.values[1].value, ast.Name) and a.values[1].value.id == var:
        fs = a.values[1].format_spec
        return "".join(v.value for v in fs.values if isinstance(v, ast.Constant)) if fs is not None else ""
    return None


def max_item_width(spec):
    """Longest text a float can take under a format spec `.Ne` / `.Ng` / `r` (None if not read)"""
    m = re.fullmatch(r"\.(\d+)[eE]", spec)
    if m:
        return 1 + 1 + 1 + int(m.group(1)) + 1 + 1 + 3          # -d.(N)e-XXX
    m = re.fullmatch(r"\.(\d+)[gG]", spec)
    if m:
        return 1 + 1 + int(m.group(1)) + 1 + 1 + 3               # -d.(N-1)e-XXX
    if spec in ("", "r", "!r"):
        return 24                                                  # repr: -d.(16)e-XXX
    return None


def common_item_width(spec):
    """Width of an ordinary NEGATIVE value (two-digit exponent) under `.Ne`: the case every dataset has"""
    m = re.fullmatch(r"\.(\d+)[eE]", spec)
    return (1 + 1 + 1 + int(m.group(1)) + 1 + 1 + 2) if m else None


def strip_tolist(node):
    rev = False
    while True:
        if isinstance(node, ast.Call) and isinstance(node.func, ast.Attribute) and node.func.attr == "tolist" and not node.args:
            node = node.func.value
        elif isinstance(node, ast.Call) and isinstance(node.func, ast.Name) and node.func.id in ("list", "tuple") and len(node.args) == 1:
            node = node.args[0]
        elif isinstance(node, ast.Call) and isinstance(node.func, ast.Name) and node.func.id == "reversed" and len(node.args) == 1:
            rev = not rev
            node = node.args[0]
        elif isinstance(node, ast.Subscript) and isinstance(node.slice, ast.Slice) and node.slice.lower is None and node.slice.upper is None \
                and isinstance(node.slice.step, ast.UnaryOp) and isinstance(node.slice.step.op, ast.USub) \
                and isinstance(node.slice.step.operand, ast.Constant) and node.slice.step.operand.value == 1:
            rev = not rev                       # x[::-1]
            node = node.value
        elif isinstance(node, ast.Call) and ((isinstance(node.func, ast.Name) and node.func.id == "sorted") or
                                               (isinstance(node.func, ast.Attribute) and node.func.attr in ("sort", "msort") and node.args)) \
                and len(node.args) >= 1:
            # ordered by VALUE: neither the grid order nor its reverse (a present, wrong construct)
            core, _ = strip_tolist(node.args[0])
            return core, "by-value"
        elif isinstance(node, ast.Call) and isinstance(node.func, ast.Attribute) and node.func.attr == "flip" and len(node.args) == 1:
            rev = not rev                       # np.flip(x)
            node = node.args[0]
        else:
            return node, rev


def resolve_vector(flow, node):
    """strip_tolist, continued through plain names whose definition is itself such a wrapper
    (`v = list(reversed(x.tolist()))` ; `dump(v)`).  -> (core, reversal)"""
    def elem(n):
        # COLUMNS[k] with COLUMNS bound once to a tuple / list display
        if isinstance(n, ast.Subscript) and isinstance(n.value, ast.Name) and not isinstance(n.slice, ast.Slice):
            dv_ = flow.def_value(n.value)
            k_ = None
            if isinstance(n.slice, ast.Constant) and isinstance(n.slice.value, int):
                k_ = n.slice.value
            elif isinstance(n.slice, ast.UnaryOp) and isinstance(n.slice.op, ast.USub) and isinstance(n.slice.operand, ast.Constant):
                k_ = -n.slice.operand.value
            if isinstance(dv_, (ast.Tuple, ast.List)) and k_ is not None and -len(dv_.elts) <= k_ < len(dv_.elts):
                return dv_.elts[k_]
        return n
    core, rev = strip_tolist(elem(node))
    core = elem(core)
    if core is not node:
        c2, r2 = strip_tolist(core)
        core, rev = c2, (rev != r2) if "by-value" not in (rev, r2) else "by-value"
    for _ in range(4):
        if rev == "by-value" or not isinstance(core, ast.Name):
            break
        dv = flow.def_value(core)
        if dv is None:
            break
        dv = elem(dv)
        c2, r2 = strip_tolist(dv)
        if c2 is dv:
            break                       # defined by something else than a conversion / reversal: this is the array
        core = c2
        rev = "by-value" if r2 == "by-value" else (rev != r2)
    return core, rev


def check_output_table(ctx, chk, rule, f, roles_of_name, what_measured, extra_units=None):
    """Labels <-> zipped columns <-> units.  roles_of_name: name -> role."""
    ot = output_table(ctx, f)
    if ot is None:
        chk.indeterminate(rule, where_of(f, f.node), "tabulated output (labels + zip of columns) not found")
        return None
    dump, labels, z = ot
    texts = [e.value for e in labels.elts]
    if len(texts) != len(z.args):
        chk.ob(rule, False, where_of(f, labels), "%d labels over %d columns" % (len(texts), len(z.args)),
               "one label per column", key="%s|label-count" % f.qualname)
        return ot
    flow = Flow.of(f)
    for i, (lab, arg) in enumerate(zip(texts, z.args)):
        core, _ = strip_tolist(arg)
        low = lab.lower()
        want_role = "level" if "level" in low else ("measured" if "measured" in low else ("simulated" if "simulated" in low else None))
        # role of the expression: the single name it mentions
        names = sorted({n.id for n in ast.walk(core) if isinstance(n, ast.Name)})
        role = None
        if len(names) == 1:
            role = roles_of_name.get(names[0])
        if role is None and want_role is not None:
            chk.indeterminate(rule, where_of(f, arg), "column %d under label %r: %s cannot be traced to the level / measured / simulated arrays" % (i, lab, ast.unparse(core)[:60]))
            continue
        chk.ob(rule, want_role is not None and role == want_role, where_of(f, arg),
               "column %d: label %r over %s (%s)" % (i, lab, ast.unparse(core), role or "unknown role"),
               "label and column have the same role (level / measured / simulated)",
               key="%s|label-role|%d" % (f.qualname, i),
               why="a column under the wrong header is read as a different quantity")
        lu = label_unit(lab)
        try:
            eu = FlowUnits(ctx, f, extra=extra_units).unit(core)
            if eu[0] == "const":
                eu = None
        except UnitError as exc:
            eu = None
        if lu is None:
            chk.indeterminate(rule, where_of(f, arg), "unit of label %r not determinable" % lab)
        elif eu is None:
            chk.info(rule, where_of(f, arg), "unit of %s not determinable from names, bindings or definitions" % ast.unparse(core),
                     "label/unit agreement of column %d not decided" % i)
        else:
            chk.ob(rule, lu == eu, where_of(f, arg),
                   "column %d: label %r [%s] over %s [%s]" % (i, lab, fmt(lu), ast.unparse(core), fmt(eu)),
                   "the values are in the unit the header states", key="%s|label-unit|%d" % (f.qualname, i),
                   why="e.g. centimetres printed under a millimetre header are off by a factor of ten")
    return ot


def run(ctx, chk, tier="quick"):
    chk.explanation = (
        "Affine index facts of compute_rise_curve (which cell integral lands in which element, first "
        "element, cumulative sum, polarity of the mean shift); select-list position binding and "
        "argument lineage of the simulate-rise command; agreement of header labels, units (identifier "
        "suffix convention) and zipped columns."
    )
    chk.assumptions = ["the spline's own integrate is the integral of the spline (C14.O3)",
                       "identifier suffixes state units"]
    # the curve is built from SpecificYield.integrate; the specific yield the package reports is SpecificYield.__call__:
    # both must be the same function (shared with C14.O4)
    from .c14 import sy_delegation
    sy_delegation(ctx, chk, "C17.O1", "the rise curve is cumulated from integrate(); its increments equal the integral of the specific yield only if integrate() integrates what __call__ returns")
    from ..sqlrules import lossy_functions
    lossy_functions(ctx, chk, "C17.O3", ("simulate_rise",), "simulate_rise",
                    "the level column is both the grid of the simulation and the first column of the table: rounded levels are not the levels of the measured curve")
    from .. import sqltypes
    sqltypes.check(ctx, chk, "C17.O3", modules=("simulate_rise",), views=("average_rising_depth",))
    f = ctx.func("simulate_rise.compute_rise_curve")
    p = f.params
    from ..alias import read_only_arguments_in_modules
    read_only_arguments_in_modules(ctx, chk, "C17.O3", ("spline", "specific_yield", "simulate_rise"), "the level grid is the caller's: simulate_rise prints it as the water-level column next to the curve, so a grid clamped in place lists the end knots instead of the measured levels, and the storage difference between two listed levels is no longer the integral of the specific yield between them",
                                   out_params=(("PeatclsmSpecificYield.get_Sy_soil", "Sy_soil"),))   # the output buffer _construct_spline allocates and hands in to be filled
    from ..perm import sorted_values_regathered
    sorted_values_regathered(ctx, chk, "C17.O3", ('simulate_rise', 'specific_yield'), "simulate_rise")
    facts, probs = simfacts.extract(ctx, f, p[1], p[2])
    simfacts.report(chk, "C17.O1", "C17.O2", f, facts, probs, "storage", "specific-yield integral")
    if facts is not None:
        c = facts.call
        ok = isinstance(c.func, ast.Attribute) and c.func.attr == "integrate" and isinstance(c.func.value, ast.Name) \
            and c.func.value.id == p[0] and facts.result_index is None and len(c.args) == 2
        chk.ob("C17.O1", ok, where_of(f, c), "cell value = %s" % ast.unparse(c)[:90],
               "%s.integrate(lower level, upper level)" % p[0], key="compute_rise_curve|integral-call",
               why="the storage difference is the integral of the specific yield itself")

    # ---------------- O3 command
    g = ctx.func("simulate_rise.simulate_rise")
    gflow = Flow.of(g)
    from ..sqlbind import bindings as _bindings
    cands = [b_ for b_ in _bindings(ctx, g) if b_.kind == "columns"]     # own SELECTs and those of query helpers
    if len(cands) != 1:
        chk.indeterminate("C17.O3", where_of(g, g.node), "expected one master-curve query bound to column arrays in simulate_rise (found %d)" % len(cands))
        return
    b = cands[0]
    s = b.site
    sel = s.stmt
    from ..report import row_integrity
    row_integrity(chk, "C17.O3", g, b, "simulate_rise|row-integrity")
    reads = {src.table for src in sel.sources}
    local = reads & {n for n, _q in getattr(sel, "ctes", [])}
    if local or any(src.subq is not None for src in sel.sources):
        chk.indeterminate("C17.O3", where_of(g, s.call), "the master-curve query reads a local sub-select / CTE (%s) that is not a plain projection: which stored curve it denotes is not decided" % (sorted(local) or "sub-select"))
        return
    chk.ob("C17.O3", reads == {"average_rising_depth"}, where_of(g, s.call), "reads %s" % sorted(reads),
           "the measured master rise curve (view average_rising_depth)", key="simulate_rise|source")
    roles = {}
    for i, nm in enumerate(b.names):
        r = column_role(sel.columns[i][0])
        if nm:
            roles[nm] = r
        ue, ua, cname = sql_alias_unit(sel, i)
        if ue is not None and ua is not None:
            chk.ob("C17.O4", ue == ua, where_of(g, s.call), "SQL column %s [%s] named as [%s]" % (cname, fmt(ue), fmt(ua)),
                   "alias unit = expression unit", key="simulate_rise|sql-alias-unit|%d" % i)
        pu = unit_of_name(nm) if nm else None
        if pu is not None and ua is not None:
            chk.ob("C17.O4", pu == ua, where_of(g, b.stmt), "Python name %s [%s] bound to SQL column %s [%s]" % (nm, fmt(pu), cname, fmt(ua)),
                   "name and column carry the same unit", key="simulate_rise|bind-unit|%d" % i,
                   why="a column read under a name with another unit is used with the wrong scale")
    chk.ob("C17.O3", sorted(v for v in roles.values() if v) == ["level", "measured"], where_of(g, b.stmt),
           "select list binds %s" % roles, "one level column and one measured-storage column",
           key="simulate_rise|binding-roles", why="swapped columns integrate over storage values instead of levels")
    calls = [c for c in ast.walk(g.node) if isinstance(c, ast.Call) and ctx.cg.resolve_callee(g, c.func) == [f.fq]]
    if len(calls) != 1:
        chk.indeterminate("C17.O3", where_of(g, g.node), "call of compute_rise_curve not found")
        return
    c = calls[0]
    bind = {}
    for i, a in enumerate(c.args):
        bind[p[i]] = a
    for k in c.keywords:
        bind[k.arg] = k.value
    grid = bind.get(p[1])
    gname = grid.id if isinstance(grid, ast.Name) else None
    chk.ob("C17.O3", roles.get(gname) == "level", where_of(g, c), "grid argument = %s (%s)" % (ast.unparse(grid) if grid is not None else "?", roles.get(gname)),
           "the measured curve's level column", key="simulate_rise|grid-arg",
           why="the simulated curve must be tabulated at the levels of the measured curve")
    mean = bind.get(p[2])
    mok = False
    if isinstance(mean, ast.Call):
        fn = dotted_name(mean.func) or ""
        subj = None
        if fn.split(".")[-1] == "mean":
            if isinstance(mean.func, ast.Attribute) and isinstance(mean.func.value, ast.Name) and not mean.args:
                subj = mean.func.value.id
            elif mean.args and isinstance(mean.args[0], ast.Name):
                subj = mean.args[0].id
        mok = roles.get(subj) == "measured"
    chk.ob("C17.O3", mok, where_of(g, c), "requested mean = %s" % (ast.unparse(mean) if mean is not None else "default"),
           "mean of the measured storage column", key="simulate_rise|mean-arg",
           why="the property fixes the mean of the simulated curve to the mean of the measured one")
    sy = bind.get(p[0])
    syv = gflow.def_value(sy) if isinstance(sy, ast.Name) else sy
    sok = False
    if isinstance(syv, ast.Call) and ctx.cg.resolve_callee(g, syv.func) == ["specific_yield.create_specific_yield_function"] and syv.args:
        a0 = gflow.expand(syv.args[0])
        sok = isinstance(a0, ast.Subscript) and isinstance(a0.slice, ast.Constant) and a0.slice.value == "specific_yield"
    chk.ob("C17.O3", sok, where_of(g, c), "specific yield = %s" % (ast.unparse(gflow.expand(syv))[:100] if syv is not None else "?"),
           "built from the parameter file's `specific_yield` entry", key="simulate_rise|sy-arg")
    # result name
    cst = enclosing_stmt(c)
    if isinstance(cst, ast.Assign) and isinstance(cst.targets[0], ast.Name):
        roles[cst.targets[0].id] = "simulated"
    # ---------------- O4 output table
    extra = {}
    if isinstance(cst, ast.Assign) and isinstance(cst.targets[0], ast.Name):
        u = unit_of_name(p[2])  # the curve has the unit of its requested mean
        if u is not None:
            extra[cst.targets[0].id] = u
    check_output_table(ctx, chk, "C17.O4", g, roles, "storage", extra_units=extra)
    # observations-only vector is the simulated curve
    for wcall, marker, dump in vector_dumps(ctx, g):
        ok = False
        desc = "?"
        if dump is None:
            chk.indeterminate("C17.O4", where_of(g, wcall), "how the vector is written after marker %r is not read (no yaml.dump, no loop of one-item writes)" % marker.strip())
            continue
        if dump is not None and dump.args:
            core, rev = resolve_vector(gflow, dump.args[0])
            desc = ast.unparse(dump.args[0])
            if not isinstance(core, ast.Name) or core.id not in roles:
                chk.indeterminate("C17.O4", where_of(g, wcall), "vector written after the marker, %s, is not one of the curve arrays (possibly converted / reversed)" % desc[:80])
                continue
            ok = roles.get(core.id) == "simulated" and rev is False
        chk.ob("C17.O4", ok, where_of(g, wcall), "after marker %r the vector written is %s" % (marker.strip(), desc),
               "the simulated curve, in grid order", key="simulate_rise|vector")
