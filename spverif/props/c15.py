"""C15 -- spline transmissivity = minimum + integral of conductivity.

 O1 call_scalar: level <= lowest knot -> T_min; otherwise
    T_min + quad(conductivity, lowest knot, level)[0]   (order cells)
 O2 conductivity = exp(spline of log K), spline order 1, smoothing 0,
    knots (level, log K) of the constructor's arguments
 O3 the array path is the scalar path mapped over the elements
 O4 units: km/d x mm = m2/d, same as T_min
"""

import ast

from ..flow import Flow
from ..norm import Poly
from ..ordercell import CellEval, CellExec, Undecided
from ..ordercell import Raised as _Raised
from ..report import where_of
from ..source import dotted_name
from ..units import UnitError, fmt, mul, unit_of_name
from .c12 import full_call_name


def collections_count_attr_stores(ctx, modname, clsname):
    """{attribute: number of `self.attr = ...` stores in all methods of the class} (an attribute stored once, in
    __init__, is a constant of the object)."""
    out = {}
    m = ctx.repo.modules.get(modname)
    if m is None:
        return out
    for st in m.tree.body:
        if isinstance(st, ast.ClassDef) and st.name == clsname:
            for n in ast.walk(st):
                tgts = n.targets if isinstance(n, ast.Assign) else ([n.target] if isinstance(n, (ast.AugAssign, ast.AnnAssign)) else [])
                for t in tgts:
                    for x in ast.walk(t):
                        if isinstance(x, ast.Attribute) and isinstance(x.value, ast.Name) and x.value.id == "self" and isinstance(x.ctx, ast.Store):
                            out[x.attr] = out.get(x.attr, 0) + 1
    return out


def _gathered_by_argsort(mod, flow, v):
    """v = A[P] with P = np.argsort(...) / X.argsort(): the argsort call, else None"""
    if not (isinstance(v, ast.Subscript) and isinstance(v.slice, ast.Name)):
        return None
    d = flow.def_value(v.slice)
    def is_argsort(c):
        return isinstance(c, ast.Call) and ((full_call_name(mod, c) or "").split(".")[-1] == "argsort" or (isinstance(c.func, ast.Attribute) and c.func.attr == "argsort"))
    if is_argsort(d):
        # argsort(argsort(x)) / argsort(order) is the inverse permutation: the right way to undo a sort by gathering
        arg = d.args[0] if d.args else (d.func.value if isinstance(d.func, ast.Attribute) else None)
        ad = flow.def_value(arg) if isinstance(arg, ast.Name) else arg
        if is_argsort(ad):
            return None
        return d
    return None


def run(ctx, chk, tier="quick"):
    chk.explanation = (
        "Order-cell evaluation of SplineTransmissivity.call_scalar over the three orderings of the "
        "level against the lowest knot; def-use of the conductivity (exp of an order-1, s=0 spline of "
        "log K over the constructor's knots); structure of the array path; unit bookkeeping from the "
        "identifier-suffix convention."
    )
    chk.assumptions = ["scipy.integrate.quad integrates its first argument between its 2nd and 3rd",
                       "identifier suffixes state the units the author intends (_mm, _km_d, _m2_d)"]
    from ..memo import memo_keys
    memo_keys(ctx, chk, "C15.O1", ("transmissivity", "spline"), "transmissivity")
    from ..perm import sorted_values_regathered
    from ..perm import fixed_order_quadrature
    fixed_order_quadrature(ctx, chk, "C15.O1", ('transmissivity',), "transmissivity", 'a 5-point Gauss rule over a knot interval on which the conductivity spans orders of magnitude is off by a fraction of a per cent, and whether the fallback is taken changes from one level to the next: the value is not minimum + integral, and is not monotone in the level')
    sorted_values_regathered(ctx, chk, "C15.O3", ('transmissivity', 'spline'), "transmissivity")
    mod = ctx.repo.module("transmissivity")
    cs = ctx.func("transmissivity.SplineTransmissivity.call_scalar")
    w = cs.params[1]

    def knot_min(node):
        """self.zeta_knots_mm.min()  /  min(self.zeta_knots_mm)  /  self.zeta_knots_mm[0]"""
        if isinstance(node, ast.Call) and isinstance(node.func, ast.Attribute) and node.func.attr == "min" and not node.args \
                and dotted_name(node.func.value) == "self.zeta_knots_mm":
            return "k0"
        if isinstance(node, ast.Call) and (full_call_name(mod, node) or "") in ("min", "numpy.min", "numpy.amin") and len(node.args) == 1 \
                and dotted_name(node.args[0]) == "self.zeta_knots_mm":
            return "k0"
        if isinstance(node, ast.Subscript) and dotted_name(node.value) == "self.zeta_knots_mm" \
                and isinstance(node.slice, ast.Constant) and node.slice.value == 0:
            return "k0"
        if isinstance(node, ast.Call) and isinstance(node.func, ast.Attribute) and node.func.attr == "max" and not node.args \
                and dotted_name(node.func.value) == "self.zeta_knots_mm":
            return "kmax"
        if isinstance(node, ast.Subscript) and dotted_name(node.value) == "self.zeta_knots_mm" \
                and isinstance(node.slice, ast.UnaryOp) and isinstance(node.slice.operand, ast.Constant) and node.slice.operand.value == 1:
            return "kmax"
        return None

    # attributes that __init__ binds once to the lowest / highest knot (computed once instead of per call)
    init_attrs = {}
    try:
        init_f = ctx.func("transmissivity.SplineTransmissivity.__init__")
        stores = {}
        for n in ast.walk(init_f.node):
            if isinstance(n, ast.Assign) and len(n.targets) == 1 and isinstance(n.targets[0], ast.Attribute) and isinstance(n.targets[0].value, ast.Name) \
                    and n.targets[0].value.id == "self":
                stores.setdefault(n.targets[0].attr, []).append(n.value)
        cls_stores = collections_count_attr_stores(ctx, "transmissivity", "SplineTransmissivity")
        for a, vals in stores.items():
            if len(vals) == 1 and cls_stores.get(a, 0) == 1:
                v = vals[0]
                while isinstance(v, ast.Call) and isinstance(v.func, ast.Name) and v.func.id in ("float", "int") and len(v.args) == 1:
                    v = v.args[0]
                k = knot_min(v)
                if k:
                    init_attrs[a] = k
    except Exception:
        init_attrs = {}

    def sym_of(node):
        s = knot_min(node)
        if s:
            return s
        if isinstance(node, ast.Attribute) and isinstance(node.value, ast.Name) and node.value.id == "self" and node.attr in init_attrs:
            return init_attrs[node.attr]
        if isinstance(node, ast.Name) and node.id == w:
            return "w"
        if isinstance(node, ast.Attribute) and dotted_name(node) == "self.minimum_transmissivity_m2_d":
            return "Tmin"
        return None

    def make(cell):
        ev = CellEval(cell, sym_of)

        def apply(call, args, evl):
            fn = full_call_name(mod, call) or ""
            if fn.endswith("integrate.quad") or fn.endswith(".quad") or fn == "quad":
                f0 = call.args[0] if call.args else None
                if dotted_name(f0) != "self.conductivity":
                    raise Undecided("quad integrates %s" % (ast.unparse(f0) if f0 is not None else "?"))
                if len(args) < 3 or args[1] is None or args[2] is None:
                    raise Undecided("quad limits")
                r1, r2 = evl.rank_of(args[1]), evl.rank_of(args[2])
                if r1 is not None and r1 == r2:
                    return Poly.const(0)
                return Poly.atom("Q(%s,%s)" % (args[1].key(), args[2].key()))
            return None

        ev.apply = apply
        orig_eval = ev.eval

        def eval2(node):
            # quad(...)[0]
            if isinstance(node, ast.Subscript) and isinstance(node.value, ast.Call) \
                    and isinstance(node.slice, ast.Constant) and node.slice.value == 0:
                fn = full_call_name(mod, node.value) or ""
                if fn.endswith("quad"):
                    return orig_eval(node.value)
            if isinstance(node, ast.Subscript) and isinstance(node.value, ast.Call):
                fn = full_call_name(mod, node.value) or ""
                if fn.endswith("quad"):
                    return Poly.atom("quad-result[%s]" % ast.unparse(node.slice))
            return CellEval.eval(ev, node)

        ev.eval = eval2
        return ev

    T = Poly.atom("Tmin")
    Q = Poly.atom("Q((k0),(w))")
    cells = [("level < lowest knot", {"w": 0, "k0": 1, "kmax": 3, "Tmin": 9}, T),
             ("level = lowest knot", {"w": 1, "k0": 1, "kmax": 3, "Tmin": 9}, T),
             ("lowest knot < level < highest knot", {"k0": 0, "w": 1, "kmax": 3, "Tmin": 9}, T + Q),
             ("level = highest knot", {"k0": 0, "w": 3, "kmax": 3, "Tmin": 9}, T + Q)]
    for label, cell, want in cells:
        try:
            got = CellExec(make(cell)).run(cs.node.body)
            if got is None:
                raise Undecided("no value returned")
            chk.ob("C15.O1", got == want, where_of(cs, cs.node), "%s: T = %s" % (label, got.key()), want.key(),
                   key="SplineTransmissivity.call_scalar|%s" % label,
                   why="T(zeta) = T_min + integral of K from the lowest knot up to zeta, and T_min at or below it")
        except Undecided as exc:
            chk.indeterminate("C15.O1", where_of(cs, cs.node), "%s: %s" % (label, exc))
        except _Raised as exc:
            chk.ob("C15.O1", False, where_of(cs, cs.node), "%s: the function refuses the level (%s)" % (label, str(exc)[:70]), want.key(),
                   key="SplineTransmissivity.call_scalar|%s" % label,
                   why="transmissivity is defined for every level at or below the highest knot, the knot itself included")

    # ---------------- O2
    cond = ctx.func("transmissivity.SplineTransmissivity.conductivity")
    rets = [n for n in ast.walk(cond.node) if isinstance(n, ast.Return) and n.value is not None]
    ok = False
    desc = "?"
    if len(rets) == 1:
        v = rets[0].value
        desc = ast.unparse(v)
        if isinstance(v, ast.Call) and (full_call_name(mod, v) or "") in ("numpy.exp", "math.exp") and len(v.args) == 1:
            inner = v.args[0]
            if isinstance(inner, ast.Call) and dotted_name(inner.func) == "self._spline" and len(inner.args) == 1 \
                    and isinstance(inner.args[0], ast.Name) and inner.args[0].id == cond.params[1] and not inner.keywords:
                ok = True
    chk.ob("C15.O2", ok, where_of(cond, rets[0] if rets else cond.node), "conductivity = %s" % desc,
           "exp(self._spline(level))", key="SplineTransmissivity.conductivity|exp-of-spline",
           why="log K is the interpolated quantity; K must be its exponential")
    # conductivity is defined on [lowest knot, highest knot): no refusal inside
    from ..ordercell import Raised

    cp = cond.params[1]

    def csym(node):
        s = knot_min(node)
        if s:
            return s
        if isinstance(node, ast.Attribute) and isinstance(node.value, ast.Name) and node.value.id == "self" and node.attr in init_attrs:
            return init_attrs[node.attr]
        if isinstance(node, ast.Name) and node.id == cp:
            return "w"
        return None

    for label, cell in (("level = lowest knot", {"w": 1, "k0": 1, "kmax": 3}),
                        ("lowest knot < level < highest knot", {"k0": 0, "w": 1, "kmax": 3})):
        ev = CellEval(cell, csym, apply=lambda call, args, evl: Poly.atom("value"))
        ex = CellExec(ev)
        try:
            ex.run(cond.node.body)
            bad = [ast.unparse(st.test) for st, v in ex.asserts if not v]
            chk.ob("C15.O2", not bad, where_of(cond, cond.node), "%s: %s" % (label, "assertion fails: %s" % bad if bad else "conductivity is evaluated"),
                   "conductivity is defined on [lowest knot, highest knot)", key="SplineTransmissivity.conductivity|domain|%s" % label,
                   why="a refusal inside the knot range makes transmissivity undefined there")
        except Raised as exc:
            chk.ob("C15.O2", False, where_of(cond, cond.node), "%s: raises %s" % (label, exc),
                   "conductivity is defined on [lowest knot, highest knot)", key="SplineTransmissivity.conductivity|domain|%s" % label,
                   why="a refusal inside the knot range makes transmissivity undefined there")
        except Undecided as exc:
            chk.indeterminate("C15.O2", where_of(cond, cond.node), "conductivity domain (%s): %s" % (label, exc))

    init = ctx.func("transmissivity.SplineTransmissivity.__init__")
    iflow = Flow.of(init)
    asg = [s for s in ast.walk(init.node) if isinstance(s, ast.Assign) and dotted_name(s.targets[0]) == "self._spline"]
    if len(asg) != 1 or not isinstance(asg[0].value, ast.Call):
        chk.indeterminate("C15.O2", where_of(init, init.node), "assignment of self._spline not found")
    else:
        c = asg[0].value
        kw = {k.arg: k.value for k in c.keywords}
        order = kw.get("order", c.args[2] if len(c.args) > 2 else None)
        sval = kw.get("s", c.args[1] if len(c.args) > 1 else None)
        is_fp = isinstance(c.func, ast.Attribute) and c.func.attr == "from_points"
        chk.ob("C15.O2", is_fp and isinstance(order, ast.Constant) and order.value == 1
               and (sval is None or (isinstance(sval, ast.Constant) and sval.value == 0)),
               where_of(init, c), "spline order=%s s=%s" % (ast.unparse(order) if order is not None else "default(3)",
                                                          ast.unparse(sval) if sval is not None else "default(0)"),
               "order 1, interpolating: log K linear between knots", key="SplineTransmissivity.__init__|order",
               why="a cubic spline of log K is not log-linear between knots and can be non-monotone")
        pts = c.args[0] if c.args else kw.get("points")
        okp = False
        pdesc = ast.unparse(pts) if pts is not None else "?"
        if isinstance(pts, ast.Call) and isinstance(pts.func, ast.Name) and pts.func.id == "zip" and len(pts.args) == 2:
            x = iflow.expand(pts.args[0])
            y = iflow.expand(pts.args[1])
            pdesc = "zip(%s, %s)" % (ast.unparse(x), ast.unparse(y))

            def strip_asarray(n):
                while isinstance(n, ast.Call) and (full_call_name(mod, n) or "") in ("numpy.asarray", "numpy.array") and n.args:
                    n = n.args[0]
                return n

            x, y = strip_asarray(x), y
            x_ok = (isinstance(x, ast.Name) and x.id == init.params[1]) or dotted_name(x) == "self." + init.params[1]
            y_ok = False
            if isinstance(y, ast.Call) and (full_call_name(mod, y) or "") in ("numpy.log", "math.log") and len(y.args) == 1:
                yy = strip_asarray(y.args[0])
                y_ok = (isinstance(yy, ast.Name) and yy.id == init.params[2]) or dotted_name(yy) == "self." + init.params[2]
            okp = x_ok and y_ok
        chk.ob("C15.O2", okp, where_of(init, c), "knots = %s" % pdesc,
               "zip(levels, log(conductivities)) of the constructor's arguments",
               key="SplineTransmissivity.__init__|knots")

    # ---------------- O3
    call = ctx.func("transmissivity.SplineTransmissivity.__call__")
    p = call.params[1]
    rets = [n for n in ast.walk(call.node) if isinstance(n, ast.Return) and n.value is not None]
    scalar_ok = array_ok = False
    for r in rets:
        v = r.value
        if isinstance(v, ast.Call) and dotted_name(v.func) == "self.call_scalar" and len(v.args) == 1 \
                and isinstance(v.args[0], ast.Name) and v.args[0].id == p:
            scalar_ok = True
        comp = None
        if isinstance(v, ast.Call) and (full_call_name(mod, v) or "") in ("numpy.array", "numpy.asarray", "numpy.fromiter", "list") and v.args:
            comp = v.args[0]
        elif isinstance(v, (ast.ListComp, ast.GeneratorExp)):
            comp = v
        if isinstance(comp, (ast.ListComp, ast.GeneratorExp)) and len(comp.generators) == 1:
            g = comp.generators[0]
            e = comp.elt
            if isinstance(e, ast.Call) and dotted_name(e.func) == "self.call_scalar" and len(e.args) == 1 \
                    and isinstance(e.args[0], ast.Name) and isinstance(g.target, ast.Name) and e.args[0].id == g.target.id \
                    and isinstance(g.iter, ast.Name) and g.iter.id == p and not g.ifs:
                array_ok = True
    # other recognised mappings: map(self.call_scalar, x); np.vectorize(self.call_scalar, otypes=[float])(x)
    vect_no_otypes = None
    unknown_array_path = None
    if not array_ok:
        for r in rets:
            v = r.value
            if isinstance(v, ast.Call) and dotted_name(v.func) == "self.call_scalar":
                continue
            inner = v
            while isinstance(inner, ast.Call) and (full_call_name(mod, inner) or "").split(".")[-1] in ("array", "asarray", "list", "fromiter") and inner.args:
                inner = inner.args[0]
            if isinstance(inner, ast.Call) and isinstance(inner.func, ast.Name) and inner.func.id == "map" and len(inner.args) == 2 \
                    and dotted_name(inner.args[0]) == "self.call_scalar" and isinstance(inner.args[1], ast.Name) and inner.args[1].id == p:
                array_ok = True
            elif isinstance(inner, ast.Call) and isinstance(inner.func, ast.Call) and (full_call_name(mod, inner.func) or "").endswith("vectorize") \
                    and inner.func.args and dotted_name(inner.func.args[0]) == "self.call_scalar" and len(inner.args) == 1 \
                    and isinstance(inner.args[0], ast.Name) and inner.args[0].id == p:
                ot = [k for k in inner.func.keywords if k.arg == "otypes"]
                if ot and "float" in ast.unparse(ot[0].value):
                    array_ok = True
                else:
                    vect_no_otypes = inner
            else:
                unknown_array_path = v
    # a result array allocated "like" the argument inherits the argument's dtype
    like = None
    for c_ in ast.walk(call.node):
        if isinstance(c_, ast.Call) and (full_call_name(mod, c_) or "").split(".")[-1] in ("full_like", "zeros_like", "empty_like", "ones_like") and c_.args \
                and isinstance(c_.args[0], ast.Name) and c_.args[0].id == p:
            dt = [k for k in c_.keywords if k.arg == "dtype"]
            if not dt or "float" not in ast.unparse(dt[0].value):
                like = c_
    if like is not None:
        chk.ob("C15.O3", False, where_of(call, like), "result allocated as %s" % ast.unparse(like)[:80],
               "a floating-point result whatever the dtype of the levels passed in",
               key="SplineTransmissivity.__call__|result-dtype",
               why="for whole-millimetre (integer) levels the result array is integer: T_min and every integral are truncated")
    if vect_no_otypes is not None:
        chk.ob("C15.O3", False, where_of(call, vect_no_otypes), "array path = %s" % ast.unparse(vect_no_otypes),
               "call_scalar mapped over the elements with a floating-point result type",
               key="SplineTransmissivity.__call__|paths",
               why="np.vectorize without otypes takes the dtype from the first result: an integer T_min at or below the lowest knot truncates every later value")
    elif not array_ok and unknown_array_path is not None and _gathered_by_argsort(mod, Flow.of(call), unknown_array_path) is not None:
        perm = _gathered_by_argsort(mod, Flow.of(call), unknown_array_path)
        chk.ob("C15.O3", False, where_of(call, unknown_array_path), "array path returns %s with %s = %s" % (ast.unparse(unknown_array_path)[:60], ast.unparse(unknown_array_path.slice), ast.unparse(perm)[:60]),
               "each value at the position of its own level: scatter `out[order] = values`, or gather by the inverse permutation argsort(order)",
               key="SplineTransmissivity.__call__|paths",
               why="indexing by the sorting permutation sorts; applied to values that are already in sorted order it permutes them once more, so unless the permutation is its own inverse the values sit under other levels than their own and array and scalar arguments disagree")
    elif not array_ok and unknown_array_path is not None and scalar_ok and not any(
            isinstance(x, (ast.ListComp, ast.GeneratorExp)) for x in ast.walk(unknown_array_path)):
        chk.indeterminate("C15.O3", where_of(call, unknown_array_path), "array path of unrecognised form: %s" % ast.unparse(unknown_array_path)[:80])
    else:
        chk.ob("C15.O3", scalar_ok and array_ok, where_of(call, call.node),
               "scalar path %s; array path %s" % ("-> call_scalar(level)" if scalar_ok else "NOT call_scalar(level)",
                                                 "maps call_scalar over every element" if array_ok else "is NOT call_scalar mapped over the elements"),
               "scalar and array arguments give the same values", key="SplineTransmissivity.__call__|paths",
               why="a filtered or differently computed array path disagrees with the scalar one")

    # ---------------- O4 units
    try:
        k = unit_of_name(init.params[2])
        z = unit_of_name(init.params[1])
        t = unit_of_name(init.params[3])
        prod = mul(k, z) if k and z else None
        chk.ob("C15.O4", prod is not None and t is not None and prod == t, where_of(init, init.node),
               "conductivity [%s] x level [%s] = %s; minimum transmissivity [%s]" % (fmt(k), fmt(z), fmt(prod), fmt(t)),
               "integral of K over level has the unit of T_min (m2/d)", key="SplineTransmissivity|units",
               why="adding an integral in other units to T_min is off by a power of ten")
    except (UnitError, TypeError) as exc:
        chk.indeterminate("C15.O4", where_of(init, init.node), "units: %s" % exc)
